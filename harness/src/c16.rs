//! C16: sentence splitting partitions the text and breaks only (and always) after terminators.
//!
//! Case line: `C16 split idx=<n> limit=<n> ck=<0|1> ck_variant=<cur|fix> lex=<hex,hex;hex,..> text=<code points>`
//! (`lex` = the lexicons in lookup order — user dictionaries first, then the system dictionary —
//! each the list of indexed surfaces as UTF-8 hex; `ck_variant` = which `Ordering::Equal` arm of
//! `NonBreakChecker::has_non_break_word` the tree has, found by probing its source: `fix` when the
//! arm slices the matched word `input[i..end_byte]` (repair of D12), `cur` otherwise).
//! Answer: `ok eos=<get_eos of the whole text> ranges=<b:e,b:e,...> steps=<rv,rv,...> suf=<rv,rv,...>` (byte ranges of
//! the iterator; `steps` = the value of `get_eos` on `text[b..]` for the start `b` of every sentence, i.e.
//! what each call of `SentenceIter::next` saw, the negative provisional boundary of the last call
//! included; `-` when the iteration itself panicked or did not stop; `suf` = the value of `get_eos` on `text[b..]` for the
//! first 40 character boundaries `b` of the text (8 when the text has more than 200 characters), the end of the text
//! included when it is among them: every alignment of the 30-byte look-back / of the window against the characters).
use crate::common::*;
use crate::dict;
use sudachi::dic::dictionary::JapaneseDictionary;
use sudachi::sentence_detector::{NonBreakChecker, SentenceDetector};
use sudachi::sentence_splitter::{SentenceSplitter, SplitSentences};

// ---------------------------------------------------------------------------------------------
// naive character classes of the oracle (written from the property text / the constant strings)
// ---------------------------------------------------------------------------------------------
const PERIODS: &str = "。？！♪…?!";
const DOTS: &str = ".．";
const CDOT: char = '・';
const COMMAS: &str = ",，、";
const OPENS: &str = "({｛[（「【『［≪〔“";
const CLOSES: &str = ")}]）」｝】』］〕≫”";
const AN_EXTRA: &str = "〇一二三四五六七八九十百千万億兆";

fn is_period(c: char) -> bool { PERIODS.contains(c) }
fn is_dot(c: char) -> bool { DOTS.contains(c) }
fn is_comma(c: char) -> bool { COMMAS.contains(c) }
fn is_open(c: char) -> bool { OPENS.contains(c) }
fn is_close(c: char) -> bool { CLOSES.contains(c) }
fn is_an(c: char) -> bool {
    c.is_ascii_alphanumeric()
        || ('ａ'..='ｚ').contains(&c)
        || ('Ａ'..='Ｚ').contains(&c)
        || ('０'..='９').contains(&c)
        || AN_EXTRA.contains(c)
}
/// what may follow the terminator inside the same sentence
fn is_tail(c: char) -> bool { is_close(c) || is_comma(c) || is_period(c) }

fn level(cs: &[char]) -> usize {
    let mut l = 0usize;
    for &c in cs {
        if is_open(c) { l += 1; } else if is_close(c) && l > 0 { l -= 1; }
    }
    l
}

fn br_units(t: &[char], p: usize) -> usize {
    let mut k = 0;
    let mut q = p;
    while q + 4 <= t.len() {
        let u: String = t[q..q + 4].iter().collect();
        if u == "<br>" || u == "<BR>" { k += 1; q += 4; } else { break; }
    }
    k
}

fn run_len(t: &[char], from: usize, f: impl Fn(char) -> bool) -> usize {
    let mut q = from;
    while q < t.len() && f(t[q]) { q += 1; }
    q - from
}

/// A terminator occurrence starting at `p` in a sentence starting at `b`:
/// returns (m, c) = end of the terminator with the terminators glued to it, end with the
/// closing brackets / commas / terminators that may not start a sentence.
fn terminator_at(t: &[char], b: usize, p: usize) -> Option<(usize, usize)> {
    let c = t[p];
    let m = if is_period(c) {
        p + 1 + run_len(t, p + 1, |x| is_dot(x) || is_period(x))
    } else if c == CDOT {
        let r = run_len(t, p, |x| x == CDOT);
        if r < 3 { return None; }
        p + r + run_len(t, p + r, |x| is_dot(x) || is_period(x))
    } else if is_dot(c) {
        // a period between alphanumerics (3.14, a.b) or before a comma is not a terminator
        if p > b && is_an(t[p - 1]) { return None; }
        if p + 1 < t.len() && (is_an(t[p + 1]) || is_comma(t[p + 1])) { return None; }
        p + 1 + run_len(t, p + 1, |x| is_dot(x) || is_period(x))
    } else if c == '<' {
        let k = br_units(t, p);
        if k < 2 { return None; }
        p + 4 * k
    } else {
        return None;
    };
    Some((m, m + run_len(t, m, is_tail)))
}

fn starts_with(t: &[char], at: usize, w: &str) -> bool {
    let w: Vec<char> = w.chars().collect();
    at + w.len() <= t.len() && t[at..at + w.len()] == w[..]
}

// ---------------------------------------------------------------------------------------------
// dictionaries
// ---------------------------------------------------------------------------------------------
pub struct Dic {
    pub dic: JapaneseDictionary,
    /// lexicons in lookup order, indexed surfaces
    pub lexs: Vec<Vec<String>>,
    _wd: dict::Workdir,
}

const WORD_POOL: &[&str] = &[
    "あ", "い", "あい", "と", "です", "a", "1", "𠮷", "é",
    "あ。", "い。う", "モー。", "a.b", "。）", "！と", "）。", "あ！", "。。", "𠮷。", "é.", "1.", "の。あ",
    "う？い", "…", "・・・", "あ・・・", "<br><br>", "い<br><br>", "。<br>", "？」", "」と",
    "あああああああああ。", "ああああああああああ。", "𠮷𠮷𠮷𠮷𠮷𠮷𠮷。", "𠮷𠮷𠮷𠮷𠮷𠮷𠮷𠮷。",
    // words in 1- and 2-byte characters whose terminator lies more than 10 CHARACTERS but at most 30 BYTES after the word
    // start: the look-back of the non-break check is 30 bytes, not 10 characters
    "Surprise!Surprise!Show", "abcdefghijkl.m", "ééééééééééé.é", "wwwwwwwwwwww!", "abcdefghijklmnopqrstuvwxyzab.",
];
const TERM_WORDS: &[&str] = &["。", "！", "?", ".", "．", "）", "」", "、", "♪"];

fn gen_words(rng: &mut Rng, with_term: bool, n: usize) -> Vec<String> {
    let mut ws: Vec<String> = vec![];
    for _ in 0..n {
        ws.push(rng.pick(WORD_POOL).to_string());
    }
    if with_term {
        for _ in 0..rng.range(1, 3) {
            ws.push(rng.pick(TERM_WORDS).to_string());
        }
    }
    ws.sort();
    ws.dedup();
    ws
}

fn rows_of(rng: &mut Rng, words: &[String]) -> Vec<dict::Row> {
    let mut rows = vec![];
    for w in words {
        rows.push(dict::Row::simple(w, 0, 0, 100, dict::NOUN));
        if rng.chance(1, 5) {
            // homograph: a second entry under the same key
            rows.push(dict::Row::simple(w, 0, 0, 200, dict::SYMBOL));
        }
    }
    rows
}

fn build_dic(rng: &mut Rng, tag: &str, kind: usize) -> Result<Dic, String> {
    let with_term = kind % 2 == 1;
    let with_user = kind % 4 >= 2;
    let pos = dict::default_pos();
    let nsys = rng.range(2, 9);
    let sys_words = gen_words(rng, with_term, nsys);
    let mut rows = rows_of(rng, &sys_words);
    // a row that is not indexed: must not take part in the lookup
    let mut hidden = dict::Row::simple("。あ", -1, -1, 0, dict::NOUN);
    hidden.left = -1;
    hidden.right = -1;
    rows.push(hidden);
    let csv = dict::csv_of(&rows, &pos);
    let matrix = "1 1\n0 0 0\n";
    let sys = dict::build_system(csv.as_bytes(), matrix.as_bytes())?;
    let wd = dict::Workdir::new_legacy(tag);
    let cfg = dict::config_json(&wd, &[], &[dict::simple_oov_json(0, 0, 1000)], &[], &[]);
    let mut lexs: Vec<Vec<String>> = vec![];
    let mut users: Vec<Vec<u8>> = vec![];
    if with_user {
        let sysdic = dict::load(&cfg, sys.clone(), vec![])?;
        let nuser = if kind == 22 { 14 } else if kind == 18 { 6 } else { rng.range(1, 2) };
        for _ in 0..nuser {
            let (ut, un) = (rng.chance(1, 3), rng.range(1, 4));
            let uw = gen_words(rng, ut, un);
            let urows = rows_of(rng, &uw);
            let ucsv = dict::csv_of(&urows, &pos);
            users.push(dict::build_user(&sysdic, ucsv.as_bytes())?);
            // user dictionaries are searched in reverse order of addition, before the system one
            lexs.insert(0, uw);
        }
    }
    lexs.push(sys_words);
    let dic = dict::load(&cfg, sys, users)?;
    Ok(Dic { dic, lexs, _wd: wd })
}

const N_DICS: usize = 24;

// ---------------------------------------------------------------------------------------------
// texts
// ---------------------------------------------------------------------------------------------
const TERMS: &[&str] = &["。", "？", "！", "♪", "…", "?", "!", ".", "．", "・", "・・・", "・・・・", "。。", "!?", "．．"];
const BRACKETS: &[&str] = &["(", ")", "（", "）", "「", "」", "『", "』", "[", "]", "{", "}", "｛", "｝", "【", "】", "“", "”", "≪", "≫", "〔", "〕", "［", "］"];
const COMMA_TOK: &[&str] = &[",", "，", "、"];
const ANS: &[&str] = &["a", "Z", "1", "９", "一", "十", "ａ", "Ｚ", "0", "兆", "3.14", "a.b", "1.", "(a)", "a．", "２．",
    // first / last element of every range of ALPHABET_OR_NUMBER, every listed numeral, and the code points just outside the
    // ranges — each directly before and after a period (the look-behind / look-ahead of the period alternative)
    "z.", ".z", "A.", ".A", "9.", ".9", "ｚ．", "．ｚ", "Ａ．", "．Ａ", "０．", "．０", "〇.", ".〇", "二.", "三.", "四.", "五.", "六.", "七.", "八.", "九.",
    "百.", "千.", "万.", "億.", ".億", "兆．", "`.", ".`", "{.", "@.", ".@", "/.", "./", ":.", ".:", "｀．", "．｀", "＠．", "．＠", "／．", "：．", "．：",
    "零.", ".零", "壱.", "〆.", ".々", "丁."];
const KANA: &[&str] = &["あ", "い", "う", "ア", "𠮷", "é", "漢", "\\", "^", "-", "|", "$", "*", "+", "&", "~", "#", "\"", "'", "/", "C:\\temp", "\\n", "a-z", "＼", "¥"];
const PARTICLES: &[&str] = &["と", "って", "っ", "です", "で", "や", "の", "という"];
const SPACES: &[&str] = &[" ", "\u{3000}", "\n", "\t", "  ", "\u{85}", "\u{a0}", "\r\n", "\u{2028}", "\u{200b}",
    // the other members of White_Space (what `\s` is) and their neighbours that are NOT white space
    "\u{b}", "\u{c}", "\r", "\u{1680}", "\u{2000}", "\u{200a}", "\u{2029}", "\u{202f}", "\u{205f}",
    "\u{8}", "\u{e}", "\u{1c}", "\u{1f}", "\u{84}", "\u{86}", "\u{9f}", "\u{a1}", "\u{180e}", "\u{1fff}", "\u{200c}", "\u{2027}", "\u{202a}", "\u{2030}", "\u{2060}", "\u{2fff}", "\u{3001}", "\u{feff}"];
const TAGS: &[&str] = &["<br>", "<BR>", "<br><br>", "<BR><br>", "<br><BR><br>", "<Br>", "<br", "<", "br>"];

fn gen_text(rng: &mut Rng, words: &[String], max_tokens: usize) -> String {
    let n = rng.below(max_tokens + 1);
    let mut s = String::new();
    // profile: how dense in terminators
    let dense = rng.below(3);
    for _ in 0..n {
        let r = rng.below(100);
        let tok: String = if r < 18 + 8 * dense {
            rng.pick(TERMS).to_string()
        } else if r < 38 + 4 * dense {
            rng.pick(KANA).to_string()
        } else if r < 50 + 4 * dense {
            rng.pick(BRACKETS).to_string()
        } else if r < 58 + 3 * dense {
            rng.pick(ANS).to_string()
        } else if r < 66 + 3 * dense {
            rng.pick(PARTICLES).to_string()
        } else if r < 72 + 2 * dense {
            rng.pick(COMMA_TOK).to_string()
        } else if r < 79 + 2 * dense {
            rng.pick(SPACES).to_string()
        } else if r < 86 + dense {
            rng.pick(TAGS).to_string()
        } else if !words.is_empty() {
            // one word in six is a NEAR MISS: a foreign character (U+0000, a zero-width space, a letter) stands between two
            // characters of the dictionary word, so the text does not contain the word - a break candidate inside it is not
            // protected by the dictionary check
            let wd = rng.pick(words).to_string();
            let cs: Vec<char> = wd.chars().collect();
            if cs.len() >= 2 && rng.chance(1, 6) {
                let at = rng.range(1, cs.len() - 1);
                let ins = *rng.pick(&['\0', '\0', '\u{200b}', 'x']);
                cs[..at].iter().chain(std::iter::once(&ins)).chain(cs[at..].iter()).collect()
            } else { wd }
        } else {
            rng.pick(KANA).to_string()
        };
        s.push_str(&tok);
    }
    s
}

/// hand-written cases: (text, limit, dictionary words or None)
fn directed() -> Vec<(String, usize, Option<Vec<&'static str>>)> {
    let mut v: Vec<(String, usize, Option<Vec<&'static str>>)> = vec![];
    let plain: &[&str] = &[
        "", "あ", "。", "あいうえお。", "あいう。えお。", "あいう。。えお。", "あいうえお", "あいう えお。", "あいう えお",
        "あいう.えお", "3.141", "四百十.〇", "あいうえお!??", "あ（いう。え）お", "（あ（いう）。え）お", "あ（いう）。えお",
        "1. あいう。えお", "あいう?えお", "あいう?)えお", "あいう?,えお", "あいう?です。", "あいう?って。", "あいう?という。",
        "あいう?の？です。", "1.と2.が。", "1.やb.から。", "1.の12.が。", "テスト。テスト",
        "\u{3000}振り返って見ると白い物！\u{3000}女が軒下で招いている。", "あ。あ。あ", "あああ。あ。あ", "a.", "1.", "1.。", "あ。）」、い",
        "あ・・い", "あ・・・い", "あ・・・・・。い", "あ<br><br>い", "あ<br>い", "あ<BR><br><br>）い", "あ<br><Br>い", "）あ。（い。う",
        "あ。\nい う\nえ", "\n\nあ い", "あ\n \n い。う", "。。。", "!と", "あ!と言う。い", "あ」と。い", "あ？」です。い", "あ？で。い",
        "a.,b", "あ.,い", "あ.1", "あ．a。", "１．あ。い", "あ1.とい。う", "あ.とい。う", "“あ。”い。う", "≪あ。≫。い",
    ];
    for t in plain {
        v.push((t.to_string(), 4096, None));
    }
    for limit in [1usize, 2, 3, 4, 5, 8] {
        for t in ["あいうえおか。", "あい。うえお。", "あいうえ", "あい うえお", "あ い うえお", "あああ。あ。あ", "あ。。あ", "あ。）、い", "あ1.2", "あ!と", "あ・・・・い", "あ<br><br><br>い", "あ\n\nい う。え", "𠮷é。a!い"] {
            v.push((t.to_string(), limit, None));
        }
    }
    // limit 0 is outside the property ("limits from 1 upward"): correspondence only
    v.push(("あ。い".to_string(), 0, None));
    v.push(("".to_string(), 0, None));
    let dict_cases: &[(&str, &[&'static str])] = &[
        ("あ。あ。あ", &["。", "あ"]),                 // D12
        ("あ。あ。あ", &["あ"]),
        ("あ。あ。あ。", &["。"]),
        ("モー。あ。い", &["モー。", "あ"]),            // word ending with the terminator
        ("い。う。あ", &["い。う"]),                    // word containing the terminator
        ("あ。）い。", &["。）"]),
        ("あ！と。い", &["！と"]),
        ("ああああああああああ。い。", &["ああああああああああ。"]),  // 33 bytes: outside the look-back
        ("あああああああああ。い。", &["あああああああああ。"]),      // 30 bytes: just inside
        ("𠮷𠮷𠮷𠮷𠮷𠮷𠮷𠮷。い。", &["𠮷𠮷𠮷𠮷𠮷𠮷𠮷𠮷。"]),
        ("𠮷𠮷𠮷𠮷𠮷𠮷𠮷é。い。", &["é。", "𠮷"]),     // look-back starts inside a character
        ("a.b.c", &["a.b", "."]),
        ("あ.い.", &["."]),
    ];
    for (t, ws) in dict_cases {
        v.push((t.to_string(), 4096, Some(ws.to_vec())));
        v.push((t.to_string(), 3, Some(ws.to_vec())));
    }
    // The window edge: the terminator is the LAST character of the window and lies inside (or ends) a
    // dictionary word; the non-break checker must see the whole remaining text, not the window.
    let edge_cases: &[(&str, &[&'static str])] = &[
        ("ばな。なです。", &["な。な"]),              // limit 3: `。` is the 3rd character, the word goes on
        ("ばなな。です。", &["なな。"]),              // limit 4: the word ends with the terminator at the edge
        ("Yahoo!ニュースです。", &["Yahoo!ニュース"]),  // limit 6
        ("あい。う。え。", &["い。う"]),               // limit 3
        ("𠮷é。a!い。", &["é。a!"]),                   // limit 3, 4-/2-byte characters before the edge
        ("あ?」と。い。", &["?」と"]),                  // limit 2 / 3: closer + quote particle inside the word
        ("あ・・・い。う。", &["・・・い"]),             // limit 4
        ("ばな。なです。", &["な。な", "な。"]),       // a shorter multi-character word ends on the terminator
        ("ばな。なです。", &["な。な", "。"]),         // + the terminator itself as a one-character word
    ];
    for (t, ws) in edge_cases {
        let n = t.chars().count();
        for limit in 1..=n + 1 {
            v.push((t.to_string(), limit, Some(ws.to_vec())));
        }
        v.push((t.to_string(), 4096, None));
    }
    // the same with the default window: 4096 - k characters of padding so that the terminator is the
    // 4096th character (pad 4093 for `ばな。な…`), and the neighbours of that padding
    for pad in [4091usize, 4092, 4093, 4094, 4095] {
        v.push((format!("{}ばな。なです。", "あ".repeat(pad)), 4096, Some(vec!["な。な"])));
    }
    v.push((format!("{}ばなな。です。", "あ".repeat(4092)), 4096, Some(vec!["なな。"])));
    v.push((format!("{}Yahoo!ニュースです。", "ア".repeat(4090)), 4096, Some(vec!["Yahoo!ニュース"])));
    v.push((format!("{}ばな。なです。", "𠮷".repeat(4093)), 4096, Some(vec!["な。な", "。"])));
    v.push((format!("{}ばな。なです。", "あ".repeat(4093)), 4096, None));
    // limits at the far end, and texts of exactly limit / limit + 1 characters (`s.len() < input.len()`)
    v.push(("あ。い。".to_string(), usize::MAX, None));
    v.push(("あ。い。".to_string(), usize::MAX, Some(vec!["。", "あ。い"])));
    v.push(("あいう".to_string(), usize::MAX, None));
    v.push((format!("{}。", "あ".repeat(4095)), 4096, None));
    v.push((format!("{}。い", "あ".repeat(4095)), 4096, None));
    v.push((format!("{} い", "あ".repeat(4094)), 4096, None));
    v.push((format!("{} いう", "あ".repeat(4094)), 4096, None));
    v.push((format!("{}\u{2029}いう", "あ".repeat(4095)), 4096, None));
    // The byte look-back at its boundary for every encoding width: the word starts exactly 30 bytes (seen) / 31 bytes (not
    // seen, D12b) before the candidate; a prefix character puts `eos - 30` INSIDE a 2-, 3- or 4-byte character.
    for (pre, w) in lookback_boundary_words() {
        let lw: &'static str = Box::leak(w.clone().into_boxed_str());
        v.push((format!("{}{}い。", pre, w), 4096, Some(vec![lw])));
    }
    v
}

/// (prefix, dictionary word ending with / containing a terminator): byte distance word start -> candidate 29, 30, 31 for 1-, 2-,
/// 3- and 4-byte characters, and prefixes after which the look-back starts at byte 1, 2 or 3 of a multi-byte character
fn lookback_boundary_words() -> Vec<(String, String)> {
    let mut v: Vec<(String, String)> = vec![];
    // 1-byte characters
    for n in [28usize, 29, 30] { v.push(("".into(), format!("{}!", "w".repeat(n)))); }
    // 2-byte characters: é×14 + ! = 29, é×14 + a! = 30, é×15 + ! = 31
    v.push(("".into(), format!("{}!", "é".repeat(14))));
    v.push(("".into(), format!("{}a!", "é".repeat(14))));
    v.push(("".into(), format!("{}!", "é".repeat(15))));
    v.push(("é".into(), format!("{}!", "é".repeat(14))));        // eos 31: look-back starts at byte 1 of the prefix é
    v.push(("é".into(), format!("{}a!", "é".repeat(14))));       // eos 32: starts exactly at the word
    // 3-byte characters: あ×9 + 。 = 30 is in dict_cases; あ×9 + !: 28, あ×9 + a!: 29, あ×9 + abc!: 31
    v.push(("".into(), format!("{}a!", "あ".repeat(9))));
    v.push(("".into(), format!("{}abc!", "あ".repeat(9))));
    v.push(("あ".into(), format!("{}abc!", "あ".repeat(8))));    // eos 31: byte 1 of the prefix あ
    v.push(("あ".into(), format!("{}abcd!", "あ".repeat(8))));   // eos 32: byte 2 of the prefix あ
    v.push(("あ".into(), format!("{}。", "あ".repeat(9))));      // eos 33: exactly at the word
    // 4-byte characters: 𠮷×7 + ! = 29, 𠮷×7 + a! = 30, 𠮷×7 + 。 = 31
    v.push(("".into(), format!("{}!", "𠮷".repeat(7))));
    v.push(("".into(), format!("{}a!", "𠮷".repeat(7))));
    v.push(("".into(), format!("{}。", "𠮷".repeat(7))));
    v.push(("𠮷".into(), format!("{}!", "𠮷".repeat(7))));      // eos 33: byte 3 of the prefix 𠮷
    v.push(("𠮷".into(), format!("{}x", "𠮷".repeat(6)) + "!"));   // eos 30: starts at byte 0
    v.push(("𠮷".into(), format!("{}xy", "𠮷".repeat(6)) + "!"));  // eos 31: byte 1 of the prefix 𠮷
    v.push(("𠮷".into(), format!("{}xyz", "𠮷".repeat(6)) + "!")); // eos 32: byte 2 of the prefix 𠮷
    // words that CONTAIN the terminator at that distance and go on
    v.push(("".into(), format!("{}!ww", "w".repeat(29))));
    v.push(("é".into(), format!("{}!é", "é".repeat(14))));
    v.push(("𠮷".into(), format!("{}!𠮷", "𠮷".repeat(7))));
    v.push(("".into(), format!("{}!ww", "w".repeat(30))));         // 31: not seen, break inside the word (D12b)
    v
}

/// A dictionary word of filler characters of UTF-8 width `fw` (padded with 1-byte characters where the width does not divide)
/// whose terminator ends `d` bytes after the start of the word; `cont` = the word goes on behind the terminator.
fn gen_lookback_word(rng: &mut Rng, fw: usize, d: usize, cont: bool) -> String {
    const F1: &[&str] = &["w", "k", "x"];
    const F2: &[&str] = &["é", "я", "ü"];
    const F3: &[&str] = &["あ", "漢", "ア"];
    const F4: &[&str] = &["𠮷", "😀"];
    const T1: &[&str] = &["!", "?"];
    const T3: &[&str] = &["。", "！", "？", "♪", "…"];
    let term: &str = if d >= 6 && rng.chance(1, 2) { *rng.pick(T3) } else { *rng.pick(T1) };
    let mut body = d - term.len();
    let pool: &[&str] = match fw { 1 => F1, 2 => F2, 3 => F3, _ => F4 };
    let mut parts: Vec<&str> = vec![];
    while body >= fw { parts.push(*rng.pick(pool)); body -= fw; }
    // the remainder in 1-byte characters, put at a random place (moves the character boundaries inside the word)
    for _ in 0..body { let at = rng.below(parts.len() + 1); parts.insert(at, *rng.pick(F1)); }
    let mut w: String = parts.concat();
    w.push_str(term);
    if cont { for _ in 0..rng.range(1, 2) { w.push_str(*rng.pick(pool)); } }
    w
}

/// characters of the oracle's terminator classes (for the window-edge generator)
fn is_term_char(c: char) -> bool { is_period(c) || is_dot(c) || c == CDOT || c == '>' }

/// A text whose first window (of `limit` characters) ends exactly on a terminator character that lies
/// inside the dictionary word `w` (character index `p` of `w`): `limit - (p + 1)` filler characters
/// without any terminator, the word, a random tail.
fn gen_edge_text(rng: &mut Rng, words: &[String], w: &str, p: usize, limit: usize, tail_tokens: usize) -> String {
    const FILL: &[&str] = &["あ", "い", "ア", "𠮷", "é", "漢", "a", "ん", "9"];
    let mut s = String::new();
    let one = rng.pick(FILL).to_string();
    for _ in 0..limit - (p + 1) {
        if limit > 64 { s.push_str(&one); } else { let f: &str = *rng.pick(FILL); s.push_str(f); }
    }
    s.push_str(w);
    s.push_str(&gen_text(rng, words, tail_tokens));
    s
}

fn build_directed_dic(words: &[&str], tag: &str) -> Result<Dic, String> {
    let pos = dict::default_pos();
    let ws: Vec<String> = words.iter().map(|s| s.to_string()).collect();
    let rows: Vec<dict::Row> = ws.iter().map(|w| dict::Row::simple(w, 0, 0, 100, dict::NOUN)).collect();
    let csv = dict::csv_of(&rows, &pos);
    let sys = dict::build_system(csv.as_bytes(), "1 1\n0 0 0\n".as_bytes())?;
    let wd = dict::Workdir::new_legacy(tag);
    let cfg = dict::config_json(&wd, &[], &[dict::simple_oov_json(0, 0, 1000)], &[], &[]);
    let dic = dict::load(&cfg, sys, vec![])?;
    Ok(Dic { dic, lexs: vec![ws], _wd: wd })
}

// ---------------------------------------------------------------------------------------------
// the real implementation
// ---------------------------------------------------------------------------------------------
/// which instance of the model mirrors the tree: does the `Ordering::Equal` arm of
/// `has_non_break_word` look at the matched word (`input[i..end_byte]`, the repair of D12) or still at
/// the rest of the input (`input[i..]`)?  Comments are ignored; an unreadable source counts as `cur`.
fn impl_ck_variant() -> &'static str {
    let p = format!("{}/src/sentence_detector.rs", crate::c07::repo_sudachi_dir());
    match std::fs::read_to_string(p) {
        Ok(s) => {
            let code: String = s.lines().map(|l| l.split("//").next().unwrap_or("")).collect::<Vec<_>>().join("\n");
            let code: String = code.chars().filter(|c| !c.is_whitespace()).collect();
            if code.contains("input[i..end_byte]") { "fix" } else { "cur" }
        }
        Err(_) => "cur",
    }
}

struct Observed {
    eos: String,
    ranges: Result<Vec<(usize, usize, String)>, String>, // Err = PANIC / NONTERMINATION
    steps: String,
    suf: String,
}

fn observe(text: &str, limit: usize, dic: Option<&Dic>) -> Observed {
    let eos = catch(|| {
        let det = SentenceDetector::with_limit(limit);
        match dic {
            Some(d) => {
                let ck = NonBreakChecker::new(d.dic.lexicon());
                det.get_eos(text, Some(&ck))
            }
            None => det.get_eos(text, None),
        }
    });
    let eos = match eos {
        Err(_) => "PANIC".to_string(),
        Ok(Err(_)) => "err".to_string(),
        Ok(Ok(v)) => v.to_string(),
    };
    let cap = text.chars().count() + 2;
    let ranges = catch(|| {
        let sp = SentenceSplitter::with_limit(limit);
        let sp = match dic {
            Some(d) => sp.with_checker(d.dic.lexicon()),
            None => sp,
        };
        let mut v = vec![];
        for (r, s) in sp.split(text) {
            v.push((r.start, r.end, s.to_string()));
            if v.len() > cap {
                return Err(v);
            }
        }
        Ok(v)
    });
    let ranges = match ranges {
        Err(_) => Err("PANIC".to_string()),
        Ok(Err(_)) => Err("NONTERMINATION".to_string()),
        Ok(Ok(v)) => Ok(v),
    };
    // what every call of `next` saw: get_eos on the rest of the text at each sentence start
    let steps = match &ranges {
        Err(_) => "-".to_string(),
        Ok(v) => v.iter().map(|(b, _, _)| {
            if !text.is_char_boundary(*b) || *b > text.len() { return "PANIC".to_string(); }
            let r = catch(|| {
                let det = SentenceDetector::with_limit(limit);
                match dic {
                    Some(d) => {
                        let ck = NonBreakChecker::new(d.dic.lexicon());
                        det.get_eos(&text[*b..], Some(&ck))
                    }
                    None => det.get_eos(&text[*b..], None),
                }
            });
            match r {
                Err(_) => "PANIC".to_string(),
                Ok(Err(_)) => "err".to_string(),
                Ok(Ok(v)) => v.to_string(),
            }
        }).collect::<Vec<_>>().join(","),
    };
    // get_eos on the suffix at each of the first character boundaries
    let nchars = text.chars().count();
    let nsuf = if nchars > 200 { 8 } else { 40 };
    let mut bounds: Vec<usize> = text.char_indices().map(|(i, _)| i).collect();
    bounds.push(text.len());
    let suf = bounds.iter().take(nsuf).map(|b| {
        let r = catch(|| {
            let det = SentenceDetector::with_limit(limit);
            match dic {
                Some(d) => {
                    let ck = NonBreakChecker::new(d.dic.lexicon());
                    det.get_eos(&text[*b..], Some(&ck))
                }
                None => det.get_eos(&text[*b..], None),
            }
        });
        match r {
            Err(_) => "PANIC".to_string(),
            Ok(Err(_)) => "err".to_string(),
            Ok(Ok(v)) => v.to_string(),
        }
    }).collect::<Vec<_>>().join(",");
    Observed { eos, ranges, steps, suf }
}

// ---------------------------------------------------------------------------------------------
// the property oracle (independent of the model)
// ---------------------------------------------------------------------------------------------
struct Verdict {
    fails: Vec<(String, String)>, // (key, what)
    notes: Vec<&'static str>,
}

fn oracle(text: &str, limit: usize, keys: Option<&Vec<Vec<char>>>, obs: &Observed) -> Verdict {
    let mut v = Verdict { fails: vec![], notes: vec![] };
    let t: Vec<char> = text.chars().collect();
    let n = t.len();
    // byte offset of every character index
    let mut bo = Vec::with_capacity(n + 1);
    let mut acc = 0;
    for c in &t { bo.push(acc); acc += c.len_utf8(); }
    bo.push(acc);
    let ranges = match &obs.ranges {
        Err(e) => {
            let key = if e == "PANIC" { "c16:panic" } else { "c16:nonterm" };
            v.fails.push((key.into(), format!("iteration over the sentences: {}", e)));
            return v;
        }
        Ok(r) => r,
    };
    // --- clause 1: partition ---------------------------------------------------------------
    let mut pos = 0usize;
    let mut sents: Vec<(usize, usize)> = vec![]; // character index ranges
    for (b, e, s) in ranges {
        if *b != pos {
            v.fails.push(("c16:partition:gap".into(), format!("sentence starts at byte {} but the previous one ended at {}", b, pos)));
            return v;
        }
        if e <= b {
            v.fails.push(("c16:partition:empty".into(), format!("empty or reversed range {}..{}", b, e)));
            return v;
        }
        if *e > text.len() || !text.is_char_boundary(*b) || !text.is_char_boundary(*e) {
            v.fails.push(("c16:partition:boundary".into(), format!("range {}..{} is not on character boundaries of the text", b, e)));
            return v;
        }
        if &text[*b..*e] != s.as_str() {
            v.fails.push(("c16:partition:slice".into(), format!("sentence text differs from the text in {}..{}", b, e)));
            return v;
        }
        let cb = bo.binary_search(b).unwrap();
        let ce = bo.binary_search(e).unwrap();
        sents.push((cb, ce));
        pos = *e;
    }
    if pos != text.len() {
        v.fails.push(("c16:partition:cover".into(), format!("sentences end at byte {} of {}", pos, text.len())));
        return v;
    }
    let breaks: Vec<usize> = sents.iter().map(|x| x.1).collect();
    let word_hit = |b: usize, c: usize| -> Option<(usize, usize)> {
        // a key of more than one character that starts in the sentence and crosses or ends at c
        if let Some(keys) = keys {
            for w in keys {
                if w.is_empty() { continue; }
                for i in b..c {
                    let j = i + w.len();
                    if j <= n && j >= c && t[i..j] == w[..] && (j > c || w.len() >= 2) {
                        return Some((i, j));
                    }
                }
            }
        }
        None
    };
    for (k, &(b, e)) in sents.iter().enumerate() {
        let u = &t[b..e];
        let last = k + 1 == sents.len();
        if !last {
            // --- clause 2: ends with a terminator, then closers/commas/terminators ------------
            let mut j = u.len();
            while j > 0 && (is_tail(u[j - 1]) || is_dot(u[j - 1])) { j -= 1; }
            let has_char_term = u[j..].iter().any(|&c| is_period(c) || is_dot(c));
            let ell = j >= 3 && u[j - 3..j].iter().all(|&c| c == CDOT);
            let br = j >= 8 && br_units(u, j - 8) >= 2;
            if !(has_char_term || ell || br) {
                v.fails.push(("c16:terminator".into(), format!("sentence {}..{} does not end with a terminator (+ closers)", bo[b], bo[e])));
            }
            // --- clause 3: the break is not inside an open bracket -----------------------------
            let mut j2 = u.len();
            while j2 > 0 && is_tail(u[j2 - 1]) { j2 -= 1; }
            let mut ok = false;
            for tt in j2.max(1)..=u.len() {
                let last_c = u[tt - 1];
                let term_end = is_period(last_c) || is_dot(last_c) || last_c == CDOT || last_c == '>';
                if term_end && level(&u[..tt]) == 0 { ok = true; break; }
            }
            if !ok {
                v.fails.push(("c16:bracket".into(), format!("break at byte {} is inside an unclosed bracket", bo[e])));
            }
            // --- clause 4: the break is not inside a multi-character dictionary word ----------
            if let Some((i, j)) = word_hit(b, e) {
                let far = bo[e] - bo[i] > 30;
                let key = if far { "c16:inword:lookback" } else { "c16:inword:near" };
                v.fails.push((key.into(), format!("break at byte {} is inside/at the end of the dictionary word at bytes {}..{}{}", bo[e], bo[i], bo[j],
                    if far { " (the word starts more than 30 bytes before the break)" } else { "" })));
            }
        }
        // --- clause 5 (converse): every terminator that is not exempt ends a sentence ---------
        for p in b..e {
            let (m, c) = match terminator_at(&t, b, p) { Some(x) => x, None => continue };
            // satisfied when a sentence ends right after the terminator or inside the run of terminators /
            // closers glued to it (`p < break <= c`); trivial at the end of the text
            if c >= n || breaks.iter().any(|&x| p < x && x <= c) { continue; }
            if level(&t[b..m]) > 0 { v.notes.push("veto:bracket"); continue; }
            let lc = t[c - 1];
            if ("！？!?".contains(lc) || is_close(lc)) && (starts_with(&t, c, "と") || starts_with(&t, c, "っ") || starts_with(&t, c, "です")) {
                v.notes.push("veto:quote");
                continue;
            }
            if "とやの".contains(t[c]) && c >= b + 2 && is_an(t[c - 2]) && is_dot(t[c - 1]) {
                v.notes.push("veto:itemize");
                continue;
            }
            if word_hit(b, c).is_some() { v.notes.push("veto:word"); continue; }
            // not exempt and not a break
            let one_char_word = keys.map_or(false, |ks| ks.iter().any(|w| w.len() == 1 && w[0] == lc));
            let (key, why) = if c - b > limit {
                ("c16:converse:window", "the sentence does not fit the window")
            } else if one_char_word {
                ("c16:converse:dictword1", "the character before the break is a one-character dictionary entry")
            } else {
                ("c16:converse:plain", "nothing exempts it")
            };
            v.fails.push((key.into(), format!("terminator at byte {} (sentence start {}, expected break at byte {}) does not end a sentence: {}", bo[p], bo[b], bo[c], why)));
            break;
        }
    }
    v
}

// ---------------------------------------------------------------------------------------------
pub fn run(run: &mut Run) {
    run.rule = "texts over terminators (。？！♪…?!.．・), brackets, commas, digits/letters with periods, itemise headers, quote particles, \
<br> tags, white space incl. newlines, 1-4 byte characters and dictionary words; limits 1..8 and 4096 (plus texts longer than 4096); look-back boundary cases (a dictionary word \
whose terminator ends 26..35 bytes after its start, in 1-, 2-, 3-, 4-byte characters, after prefixes that put eos-30 on byte 0..3 of a character; dictionary built per case); window-edge cases (the last character of the window is a terminator inside / at the end of a dictionary word, small windows and 4096); \
no checker / system dictionary / system+user dictionaries, with and without one-character terminator entries; \
non-trivial = at least two sentences or a vetoed terminator; distinct by limit+dictionary+text".into();
    let n = run.opts.count;
    let ck_variant = impl_ck_variant();
    run.extra.insert("model_instance_ck_variant".into(), serde_json::json!(ck_variant));
    let dir = directed();
    // the pool of dictionaries depends on the seed only, so that `--only` replays see the same ones
    let mut pool: Vec<Option<Dic>> = vec![];
    for d in 0..N_DICS {
        let mut rng = Rng::for_case(run.opts.seed ^ 0x5eed_d1c7, 1_000_000 + d);
        match build_dic(&mut rng, &format!("c16-{}", d), d) {
            Ok(x) => pool.push(Some(x)),
            Err(e) => { run.bump(&format!("dict-build-failed:{}", e.chars().take(60).collect::<String>())); pool.push(None); }
        }
    }
    for idx in 0..n {
        if !run.wants(idx) { continue; }
        let mut rng = Rng::for_case(run.opts.seed, idx);
        let own: Option<Dic>;
        let mut lb_eos: Option<usize> = None;
        let (text, limit, dic): (String, usize, Option<&Dic>) = if idx < dir.len() {
            let (t, l, ws) = &dir[idx];
            own = match ws {
                Some(ws) => match build_directed_dic(ws, &format!("c16-dir-{}", idx)) {
                    Ok(d) => Some(d),
                    Err(e) => { run.bump(&format!("dict-build-failed:{}", e.chars().take(60).collect::<String>())); None }
                },
                None => None,
            };
            (t.clone(), *l, own.as_ref())
        } else if idx % 11 == 5 {
            // The byte look-back at its boundary: a dictionary word whose terminator ends d = 26..35 bytes after the start
            // of the word (30 = the last distance at which the checker finds the word), in 1-, 2-, 3- or 4-byte
            // characters (padded with 1-byte ones), after a prefix of mixed widths so that `eos - 30` falls on byte
            // 0..3 of a character; the dictionary is built for the case.
            let fw = 1 + rng.below(4);
            let d = 26 + rng.below(10);
            let cont = rng.chance(1, 3);
            let w = gen_lookback_word(&mut rng, fw, d, cont);
            const PRE: &[&str] = &["", "", "é", "あ", "𠮷", "w", "éw", "あé", "𠮷あ", "w𠮷", "ア𠮷é", "𠮷𠮷"];
            let pre: &str = *rng.pick(PRE);
            let mut extra: Vec<String> = vec![w.clone()];
            if rng.chance(1, 3) { extra.push(rng.pick(TERM_WORDS).to_string()); }
            if rng.chance(1, 3) { extra.push("い".to_string()); }
            let tail = gen_text(&mut rng, &extra, 6);
            let text = if cont || rng.chance(1, 2) { format!("{}{}{}", pre, w, tail) } else { format!("{}{}い{}", pre, w, tail) };
            let refs: Vec<&str> = extra.iter().map(|s| s.as_str()).collect();
            own = match build_directed_dic(&refs, &format!("c16-lb-{}", idx)) {
                Ok(d) => Some(d),
                Err(e) => { run.bump(&format!("dict-build-failed:{}", e.chars().take(60).collect::<String>())); None }
            };
            let eos = pre.len() + d;
            lb_eos = Some(eos);
            run.bump(&format!("lookback:distance-bytes={}{}", d, if d <= 30 { "" } else { "(beyond)" }));
            run.bump(&format!("lookback:filler-width={}", fw));
            run.bump(if cont { "lookback:word-contains-terminator" } else { "lookback:word-ends-with-terminator" });
            if eos >= 30 {
                let st = eos - 30;
                let mut off = 0;
                while !text.is_char_boundary(st - off) { off += 1; }
                run.bump(&format!("lookback:start-at-byte-{}-of-a-{}-byte-char", off,
                    text[st - off..].chars().next().map_or(0, |c| c.len_utf8())));
            } else {
                run.bump("lookback:start-clamped-to-0");
            }
            let chars_to_eos = text[..eos].chars().count();
            let limit = match rng.below(5) { 0 => chars_to_eos, 1 => chars_to_eos + 1, 2 => 40, _ => 4096 };
            (text, limit, own.as_ref())
        } else {
            // window-edge cases: every 7th case with a small window, every 151st with the default one
            let edge_small = idx % 7 == 3;
            let edge_big = idx % 151 == 75;
            let dic = if edge_small || edge_big { pool[rng.below(N_DICS)].as_ref() }
                      else if rng.chance(1, 2) { None } else { pool[rng.below(N_DICS)].as_ref() };
            let words: Vec<String> = dic.map_or(vec![], |d| d.lexs.iter().flatten().cloned().collect());
            // (word, index of a terminator character in it); inner positions three times as likely
            let mut cands: Vec<(String, usize)> = vec![];
            if edge_small || edge_big {
                for w in &words {
                    let cs: Vec<char> = w.chars().collect();
                    if cs.len() < 2 { continue; }
                    for (p, c) in cs.iter().enumerate() {
                        if is_term_char(*c) {
                            let reps = if p + 1 < cs.len() { 3 } else { 1 };
                            for _ in 0..reps { cands.push((w.clone(), p)); }
                        }
                    }
                }
            }
            let long = idx % 997 == 500;
            if !cands.is_empty() {
                let (w, p) = rng.pick(&cands).clone();
                let limit = if edge_big { 4096 } else { (p + 1) + rng.below(8 - p.min(7)) };
                let text = gen_edge_text(&mut rng, &words, &w, p, limit, if edge_big { 4 } else { 8 });
                run.bump(if edge_big { "edge:terminator-in-word-at-window-edge:4096" } else { "edge:terminator-in-word-at-window-edge:small" });
                if p + 1 < w.chars().count() { run.bump("edge:word-continues-beyond-window"); } else { run.bump("edge:word-ends-at-window-edge"); }
                (text, limit, dic)
            } else {
                let mut text = gen_text(&mut rng, &words, if run.opts.thorough { 40 } else { 24 });
                let limit = if long {
                    text = format!("{}{}", "あ".repeat(4090 - rng.below(3)), text);
                    4096
                } else if rng.chance(1, 4) { 4096 } else { rng.range(1, 8) };
                (text, limit, dic)
            }
        };
        let lex_field = match dic {
            None => String::new(),
            Some(d) => d.lexs.iter().map(|l| l.iter().map(|w| hex(w.as_bytes())).collect::<Vec<_>>().join(",")).collect::<Vec<_>>().join(";"),
        };
        let payload = format!("limit={} ck={} ck_variant={} lex={} text={}", limit, if dic.is_some() { 1 } else { 0 }, ck_variant, lex_field, dict::cps(&text));
        let obs = observe(&text, limit, dic);
        let ranges_s = match &obs.ranges {
            Ok(r) => r.iter().map(|(b, e, _)| format!("{}:{}", b, e)).collect::<Vec<_>>().join(","),
            Err(e) => e.clone(),
        };
        let answer = format!("ok eos={} ranges={} steps={} suf={}", obs.eos, ranges_s, obs.steps, obs.suf);
        let keys: Option<Vec<Vec<char>>> = dic.map(|d| d.lexs.iter().flatten().map(|w| w.chars().collect()).collect());
        let verdict = if limit == 0 {
            run.bump("limit:0-outside-the-property-correspondence-only");
            Verdict { fails: vec![], notes: vec![] }
        } else {
            oracle(&text, limit, keys.as_ref(), &obs)
        };
        let nsent = obs.ranges.as_ref().map_or(0, |r| r.len());
        let nontrivial = nsent >= 2 || !verdict.notes.is_empty();
        run.case(idx, "split", &payload, &answer, nontrivial);
        // distribution
        run.bump(if limit == 4096 { "limit:4096" } else if limit == 0 { "limit:0" } else if limit <= 8 { "limit:1-8" } else if limit < 4096 { "limit:9-4095" } else { "limit:above-4096" });
        if let Some(d) = dic { run.bump(&format!("lexicons:{}", d.lexs.len())); }
        {
            // which code-point widths the text has, and which kinds of white space (members / non-members of White_Space)
            let mut ws = [false; 5];
            for c in text.chars() { ws[c.len_utf8()] = true; }
            for k in 1..5 { if ws[k] { run.bump(&format!("text-has-{}-byte-characters", k)); } }
            if text.chars().any(|c| c.is_whitespace() && !" \u{3000}\n\t\u{85}\u{a0}\r\u{2028}".contains(c)) { run.bump("text-has-rare-white-space"); }
        }
        run.bump(match dic { None => "checker:none", Some(d) if d.lexs.len() > 1 => "checker:system+user", Some(_) => "checker:system" });
        run.bump(&format!("sentences:{}", if nsent >= 5 { "5+".to_string() } else { nsent.to_string() }));
        if obs.eos.starts_with('-') { run.bump("get_eos:negative"); }
        if text.chars().count() > limit { run.bump("text-longer-than-window"); }
        if let (Some(eos), Ok(r)) = (lb_eos, &obs.ranges) {
            run.bump(if r.iter().any(|(_, e, _)| *e == eos) { "lookback:break-at-the-word-terminator" } else { "lookback:no-break-at-the-word-terminator" });
        }
        let mut seen = std::collections::BTreeSet::new();
        for nt in &verdict.notes { if seen.insert(*nt) { run.bump(nt); } }
        for (key, what) in &verdict.fails {
            run.bump(&format!("oracle:{}", key));
            run.fail(idx, key, what);
        }
    }
}
