use std::collections::{BTreeMap, HashSet};
use std::fmt::Write as _;
use std::io::Write;

#[derive(Default, Clone)]
pub struct Opts {
    pub seed: u64,
    pub count: usize,
    pub out: String,
    pub only: Option<usize>,
    pub thorough: bool,
}

/// xorshift64* — every random choice of a case derives from (seed, case index)
pub struct Rng(u64);

impl Rng {
    pub fn new(seed: u64) -> Rng {
        let mut z = seed.wrapping_add(0x9E3779B97F4A7C15);
        z = (z ^ (z >> 30)).wrapping_mul(0xBF58476D1CE4E5B9);
        z = (z ^ (z >> 27)).wrapping_mul(0x94D049BB133111EB);
        z ^= z >> 31;
        Rng(if z == 0 { 0x1234567 } else { z })
    }
    pub fn for_case(seed: u64, index: usize) -> Rng {
        Rng::new(seed ^ (index as u64).wrapping_mul(0xD1B54A32D192ED03))
    }
    pub fn next(&mut self) -> u64 {
        let mut x = self.0;
        x ^= x >> 12;
        x ^= x << 25;
        x ^= x >> 27;
        self.0 = x;
        x.wrapping_mul(0x2545F4914F6CDD1D)
    }
    pub fn below(&mut self, n: usize) -> usize {
        if n == 0 { 0 } else { (self.next() % n as u64) as usize }
    }
    pub fn range(&mut self, lo: usize, hi: usize) -> usize {
        lo + self.below(hi - lo + 1)
    }
    pub fn chance(&mut self, num: usize, den: usize) -> bool {
        self.below(den) < num
    }
    pub fn pick<'a, T>(&mut self, xs: &'a [T]) -> &'a T {
        &xs[self.below(xs.len())]
    }
}

pub fn hex(bytes: &[u8]) -> String {
    let mut s = String::with_capacity(bytes.len() * 2);
    for b in bytes {
        write!(s, "{:02x}", b).unwrap();
    }
    s
}

pub fn join<T: ToString>(xs: impl IntoIterator<Item = T>, sep: &str) -> String {
    xs.into_iter().map(|x| x.to_string()).collect::<Vec<_>>().join(sep)
}

thread_local! {
    /// > 0 while the implementation under test runs inside `catch` (its panics are data, not harness bugs)
    pub static IN_CATCH: std::cell::Cell<u32> = std::cell::Cell::new(0);
}

/// panic hook: silent for panics of the code under test, loud for the harness's own
pub fn install_panic_hook() {
    std::panic::set_hook(Box::new(|info| {
        if IN_CATCH.with(|c| c.get()) == 0 {
            eprintln!("harness panic: {}\n{}", info, std::backtrace::Backtrace::force_capture());
        }
    }));
}

pub fn catch<R>(f: impl FnOnce() -> R) -> Result<R, String> {
    IN_CATCH.with(|c| c.set(c.get() + 1));
    let r = std::panic::catch_unwind(std::panic::AssertUnwindSafe(f));
    IN_CATCH.with(|c| c.set(c.get().saturating_sub(1)));
    match r {
        Ok(r) => Ok(r),
        Err(e) => Err(if let Some(s) = e.downcast_ref::<&str>() {
            s.to_string()
        } else if let Some(s) = e.downcast_ref::<String>() {
            s.clone()
        } else {
            "panic".to_string()
        }),
    }
}

pub struct Failure {
    pub index: usize,
    pub line: String,
    pub what: String,
    pub key: String,
}

/// Collects cases, implementation answers, oracle verdicts and the input distribution.
pub struct Run {
    pub prop: String,
    pub opts: Opts,
    cases: Vec<String>,
    answers: Vec<String>,
    distinct: HashSet<u64>,
    nontrivial: usize,
    pub dist: BTreeMap<String, u64>,
    pub failures: Vec<Failure>,
    samples: Vec<String>,
    pub rule: String,
    pub extra: BTreeMap<String, serde_json::Value>,
    /// a case line longer than this is sent as `oversized=<len>` (the model then answers `bad-op`: a mismatch, never a pass);
    /// properties whose LEGITIMATE lines are large (C04: whole double arrays) raise it
    pub max_payload: usize,
}

fn fnv(s: &str) -> u64 {
    let mut h: u64 = 0xcbf29ce484222325;
    for b in s.bytes() {
        h ^= b as u64;
        h = h.wrapping_mul(0x100000001b3);
    }
    h
}

impl Run {
    pub fn new(prop: &str, opts: &Opts) -> Run {
        Run {
            prop: prop.to_string(),
            opts: opts.clone(),
            cases: vec![],
            answers: vec![],
            distinct: HashSet::new(),
            nontrivial: 0,
            dist: BTreeMap::new(),
            failures: vec![],
            samples: vec![],
            rule: String::new(),
            extra: BTreeMap::new(),
            max_payload: 3_000_000,
        }
    }

    pub fn wants(&self, index: usize) -> bool {
        self.opts.only.map_or(true, |o| o == index)
    }

    pub fn bump(&mut self, key: &str) {
        *self.dist.entry(key.to_string()).or_insert(0) += 1;
    }

    pub fn bump_by(&mut self, key: &str, n: u64) {
        *self.dist.entry(key.to_string()).or_insert(0) += n;
    }

    /// record one case line (without the property prefix) and the implementation's answer
    pub fn case(&mut self, index: usize, op: &str, payload: &str, answer: &str, nontrivial: bool) {
        // a case the model was never sized for (e.g. a changed implementation accepts a 60 000-character text it used
        // to reject): do not feed megabytes to the driver; the marker makes the model answer `bad-op`, i.e. a mismatch
        let oversized;
        let payload = if payload.len() > self.max_payload { oversized = format!("oversized={}", payload.len()); oversized.as_str() } else { payload };
        let line = format!("{} {} idx={} {}", self.prop, op, index, payload);
        if self.distinct.insert(fnv(&format!("{} {}", op, payload))) && nontrivial {
            self.nontrivial += 1;
        }
        if self.samples.len() < 5 && (nontrivial || self.cases.len() > 20) {
            let mut l = format!("{} => {}", line, answer);
            if l.len() > 600 {
                let mut cut = 600;
                while !l.is_char_boundary(cut) { cut -= 1; }
                l.truncate(cut);
                l.push_str("...");
            }
            self.samples.push(l);
        }
        self.cases.push(line);
        self.answers.push(answer.replace('\n', "\\n"));
    }

    /// oracle verdict: the implementation itself breaks the property on this case
    pub fn fail(&mut self, index: usize, key: &str, what: &str) {
        let line = self.cases.last().cloned().unwrap_or_default();
        self.failures.push(Failure { index, line, what: what.to_string(), key: key.to_string() });
    }

    pub fn fail_with_line(&mut self, index: usize, line: &str, key: &str, what: &str) {
        self.failures.push(Failure { index, line: line.to_string(), what: what.to_string(), key: key.to_string() });
    }

    pub fn finish(self) {
        let out = std::path::Path::new(&self.opts.out);
        std::fs::create_dir_all(out).unwrap();
        let mut f = std::io::BufWriter::new(std::fs::File::create(out.join("cases.txt")).unwrap());
        for c in &self.cases {
            writeln!(f, "{}", c).unwrap();
        }
        let mut f = std::io::BufWriter::new(std::fs::File::create(out.join("impl.txt")).unwrap());
        for c in &self.answers {
            writeln!(f, "{}", c).unwrap();
        }
        let fails: Vec<serde_json::Value> = self
            .failures
            .iter()
            .map(|x| {
                let mut line = x.line.clone();
                if line.len() > 4000 { 
                    let mut cut = 4000;
                    while !line.is_char_boundary(cut) { cut -= 1; }
                    line.truncate(cut);
                }
                serde_json::json!({"index": x.index, "line": line, "what": x.what, "key": x.key})
            })
            .collect();
        let summary = serde_json::json!({
            "property": self.prop,
            "seed": self.opts.seed,
            "evaluations": self.cases.len(),
            "distinct_nontrivial": self.nontrivial,
            "rule": self.rule,
            "samples": self.samples,
            "distribution": self.dist,
            "oracle_failures": fails,
            "extra": self.extra,
        });
        std::fs::write(out.join("summary.json"), serde_json::to_string_pretty(&summary).unwrap()).unwrap();
    }
}
