//! C17: character classes = union of covering definitions.
use crate::common::*;
use sudachi::dic::character_category::CharacterCategory;

const NAMES: &[(&str, u32)] = &[
    ("DEFAULT", 1), ("SPACE", 2), ("KANJI", 4), ("SYMBOL", 8), ("NUMERIC", 16), ("ALPHA", 32),
    ("HIRAGANA", 64), ("KATAKANA", 128), ("KANJINUMERIC", 256), ("GREEK", 512), ("CYRILLIC", 1024),
    ("USER1", 2048), ("USER2", 4096), ("USER3", 8192), ("USER4", 16384),
    ("NOOOVBOW", 1 << 30), ("NOOOVBOW2", 1 << 31), ("ALL", 0x3fff_ffff),
];

const ANCHORS: &[u32] = &[0, 0x30, 0x41, 0x78, 0xf4, 0x7f8, 0x3040, 0x4e00, 0xd7f0, 0xe000, 0xfff4, 0x1f600, 0x10fff0];
/// code points next to the sizes a direct look-up table or a narrower integer type would have
const EDGES: &[u32] = &[0x7f, 0x80, 0xff, 0x100, 0x7ff, 0x800, 0xd7ff, 0xe000, 0xffff, 0x10000, 0x10ffff];

pub struct DefLine {
    pub b: u32,
    pub e: u32, // inclusive
    pub cats: u32,
    pub valid: bool,
}

fn is_scalar(x: u32) -> bool {
    char::from_u32(x).is_some()
}

/// a definition file together with the ranges it declares
pub fn gen_def(rng: &mut Rng, directed: usize) -> (String, Vec<DefLine>, bool) {
    let mut text = String::new();
    let mut lines = vec![];
    let mut loads = true;
    let nlines = match directed {
        0 => 0,
        _ => rng.range(1, 9),
    };
    let anchor = *rng.pick(ANCHORS);
    let spread = *rng.pick(&[4u32, 8, 14]);
    for _ in 0..nlines {
        if rng.chance(1, 6) {
            text.push_str(*rng.pick(&["# comment\n", "\n", "   \n", "NUMERIC 0x30\n", "0 x\n"]));
        }
        let a = if rng.chance(1, 8) { *rng.pick(ANCHORS) } else { anchor };
        let b = a + rng.below(spread as usize) as u32;
        let single = rng.chance(1, 3);
        let e = if single { b } else if rng.chance(1, 150) { b.wrapping_sub(1) } else { b + rng.below(spread as usize) as u32 };
        let ncat = if rng.chance(1, 20) { 0 } else { rng.range(1, 3) };
        let mut cats = 0u32;
        let mut names = vec![];
        for _ in 0..ncat {
            let (n, v) = *rng.pick(NAMES);
            cats |= v;
            names.push(n.to_string());
        }
        let mut bad_name = false;
        if rng.chance(1, 200) {
            names.push("KANJII".to_string());
            bad_name = true;
        }
        let up = rng.chance(1, 2);
        let fmt = |x: u32, w: bool| -> String {
            let s = if up { format!("{:X}", x) } else { format!("{:x}", x) };
            if w { format!("0x{:0>4}", s) } else { format!("0x{}", s) }
        };
        let pad = rng.chance(1, 2);
        let mut l = if single && rng.chance(2, 3) { fmt(b, pad) } else { format!("{}..{}", fmt(b, pad), fmt(e, pad)) };
        let mut no_cols = false;
        if names.is_empty() && rng.chance(1, 4) {
            // only one column: format error; otherwise a comment column gives an empty class set
            no_cols = true;
        } else {
            for n in &names {
                l.push_str(if rng.chance(1, 4) { "\t" } else { " " });
                l.push_str(n);
            }
            if names.is_empty() || rng.chance(1, 5) {
                l.push_str(" #KANJI comment");
            }
        }
        if rng.chance(1, 10) {
            l = format!("  {} ", l);
        }
        text.push_str(&l);
        text.push_str(if rng.chance(1, 10) { "\r\n" } else { "\n" });
        let valid = !(no_cols || bad_name || b > e || e == u32::MAX || !is_scalar(b) || !is_scalar(e.wrapping_add(1)));
        if !valid && loads {
            loads = false;
        }
        lines.push(DefLine { b, e, cats, valid });
    }
    (text, lines, loads)
}

pub fn naive(lines: &[DefLine], x: u32) -> u32 {
    let mut u = 0;
    for l in lines {
        if l.b <= x && x <= l.e {
            u |= l.cats;
        }
    }
    if u == 0 { 1 } else { u }
}

pub fn run(run: &mut Run) {
    run.rule = "random char.def files around one anchor (overlapping, nested, adjacent, duplicated, single points, begin 0, \
ends next to the surrogate gap and U+10FFFF, comments, junk lines, CRLF); non-trivial = loads and two lines overlap or touch; \
distinct by file text + probes".into();
    let n = run.opts.count;
    for idx in 0..n {
        if !run.wants(idx) { continue; }
        let mut rng = Rng::for_case(run.opts.seed, idx);
        let (text, lines, loads_expected) = gen_def(&mut rng, idx);
        // probes: every range end and its neighbours
        let mut probes: Vec<u32> = vec![0, 0x10ffff];
        for l in &lines {
            for d in [-1i64, 0, 1] {
                for base in [l.b as i64, l.e as i64] {
                    let x = base + d;
                    if x >= 0 && x <= 0x10ffff && is_scalar(x as u32) {
                        probes.push(x as u32);
                    }
                }
            }
        }
        probes.extend(EDGES.iter().copied());
        // and a point inside every range (a table filled for part of a range shows there)
        for l in &lines { if l.e > l.b + 1 { let x = l.b + 1 + (rng.below((l.e - l.b - 1) as usize) as u32); if is_scalar(x) { probes.push(x); } } }
        probes.sort();
        probes.dedup();
        let payload = format!("def={} probe={}", hex(text.as_bytes()), join(probes.iter(), ","));
        let res = catch(|| CharacterCategory::from_reader(text.as_bytes()));
        let mut touch = false;
        for (i, a) in lines.iter().enumerate() {
            for b in lines.iter().skip(i + 1) {
                if a.b <= b.e.saturating_add(1) && b.b <= a.e.saturating_add(1) { touch = true; }
            }
        }
        match res {
            Err(p) => {
                run.bump("outcome:panic");
                run.case(idx, "chardef", &payload, "PANIC", false);
                // loading is outside C17; a panic while loading is reported for information only
                run.bump(&format!("load-panic:{}", p.chars().take(40).collect::<String>()));
            }
            Ok(Err(_)) => {
                run.bump("outcome:load-error");
                run.case(idx, "chardef", &payload, "err", false);
                if loads_expected {
                    run.bump("generator-expected-load");
                }
            }
            Ok(Ok(cc)) => {
                run.bump("outcome:ok");
                run.bump(&format!("lines:{}", lines.len().min(9)));
                if touch { run.bump("overlap-or-adjacent"); }
                let tab = if lines.is_empty() {
                    (String::new(), 1u32)
                } else {
                    let items: Vec<_> = cc.iter().collect();
                    let mut s = vec![];
                    for (r, c) in &items[..items.len() - 1] {
                        s.push(format!("{}:{}", r.end as u32, c.bits()));
                    }
                    (s.join(","), items[items.len() - 1].1.bits())
                };
                let cats: Vec<u32> = probes.iter().map(|&x| cc.get_category_types(char::from_u32(x).unwrap()).bits()).collect();
                let ans = format!("ok tab={} last={} cats={}", tab.0, tab.1, join(cats.iter(), ","));
                run.case(idx, "chardef", &payload, &ans, touch && lines.len() >= 2);
                // oracle: naive scan of the declared lines
                for (k, &x) in probes.iter().enumerate() {
                    let want = naive(&lines, x);
                    if cats[k] != want {
                        run.fail(idx, &format!("c17:{:x}", x), &format!("code point U+{:04X}: reported {:#x}, union of covering lines {:#x}", x, cats[k], want));
                        break;
                    }
                }
                if !loads_expected {
                    run.bump("generator-expected-error-but-loaded");
                }
            }
        }
    }
}
