//! C17: character classes = union of covering definitions.
//!
//! The generator is organised by the branches of `read_character_definition`, `CategoryType::from_str`
//! (bitflags parser), `compile`, `get_category_types` and `CharCategoryIter::next`: every line is built from a
//! RANGE form, a CLASS-COLUMN form and a decoration (separators, comment, terminator), each of which declares
//! what it means (`Decl`), so the oracle never re-parses the text it wrote.
use crate::common::*;
use sudachi::dic::character_category::{CharacterCategory, Error as CcError};
use sudachi::error::SudachiError;
use sudachi::dic::grammar::Grammar;
use sudachi::input_text::{InputBuffer, InputTextIndex};

const NAMES: &[(&str, u32)] = &[
    ("DEFAULT", 1), ("SPACE", 2), ("KANJI", 4), ("SYMBOL", 8), ("NUMERIC", 16), ("ALPHA", 32),
    ("HIRAGANA", 64), ("KATAKANA", 128), ("KANJINUMERIC", 256), ("GREEK", 512), ("CYRILLIC", 1024),
    ("USER1", 2048), ("USER2", 4096), ("USER3", 8192), ("USER4", 16384),
    ("NOOOVBOW", 1 << 30), ("NOOOVBOW2", 1 << 31), ("ALL", 0x3fff_ffff),
];

const ANCHORS: &[u32] = &[0, 0x30, 0x41, 0x78, 0xf4, 0x7f8, 0x3040, 0x4e00, 0xd7f0, 0xe000, 0xfff4, 0x1f600, 0x10fff0];
/// code points next to the sizes a direct look-up table or a narrower integer type would have
const EDGES: &[u32] = &[0x7f, 0x80, 0xff, 0x100, 0x7ff, 0x800, 0xd7ff, 0xe000, 0xffff, 0x10000, 0x10fffe, 0x10ffff];
/// `char::is_whitespace`: every White_Space code point class (ASCII, NEL, NBSP, Ogham, en quad.., line/paragraph separator, ideographic)
const WHITE: &[&str] = &[" ", "\t", "\u{b}", "\u{c}", "\r", "\u{85}", "\u{a0}", "\u{1680}", "\u{2000}", "\u{2003}", "\u{200a}",
    "\u{2028}", "\u{2029}", "\u{202f}", "\u{205f}", "\u{3000}"];
/// look like blanks but are NOT White_Space (zero width space, BOM, Mongolian vowel separator, word joiner)
const NOT_WHITE: &[&str] = &["\u{200b}", "\u{feff}", "\u{180e}", "\u{2060}"];

#[derive(Clone, Debug, PartialEq)]
pub enum Decl {
    /// the loop `continue`s
    Skip,
    /// a definition line: begin, INCLUSIVE end, classes
    Range { b: u32, e: u32, cats: u32 },
    /// `Err(..)`
    Bad,
    /// `u32 + 1` overflows (debug build)
    Panic,
}

pub struct DefLine {
    pub b: u32,
    pub e: u32, // inclusive
    pub cats: u32,
}

fn is_scalar(x: u32) -> bool {
    char::from_u32(x).is_some()
}

fn range_ok(b: u32, e: u32) -> bool {
    b <= e && e != u32::MAX && is_scalar(b) && is_scalar(e + 1)
}

fn hexnum(rng: &mut Rng, x: u32, form: &mut Vec<&'static str>) -> String {
    let s = if rng.chance(1, 2) { format!("{:X}", x) } else { format!("{:x}", x) };
    match rng.below(12) {
        0..=4 => format!("0x{}", s),
        5..=7 => format!("0x{:0>4}", s),
        8 => { form.push("num:0x0x"); format!("0x0x{}", s) }
        9 => { form.push("num:plus"); format!("0x+{}", s) }
        10 => { form.push("num:long-zero-pad"); format!("0x{:0>11}", s) } // > 8 digits: the checked loop of from_str_radix
        _ => { form.push("num:8-digits"); format!("0x{:0>8}", s) }
    }
}

/// first column: text and what it declares (`Some((b, e))`, `None` = error, `Err(())` = overflow panic)
fn gen_range(rng: &mut Rng, anchor: u32, spread: u32, form: &mut Vec<&'static str>) -> (String, Result<Option<(u32, u32)>, ()>) {
    let a = if rng.chance(1, 8) { *rng.pick(ANCHORS) } else if rng.chance(1, 10) { *rng.pick(EDGES) } else { anchor };
    let b = (a + rng.below(spread as usize) as u32).min(0x10fffe);
    if rng.chance(1, 24) {
        // malformed or unusual first columns, one per branch of the number handling
        let e = b + rng.below(spread as usize) as u32;
        let k = rng.below(20);
        let (t, r): (String, Result<Option<(u32, u32)>, ()>) = match k {
            0 => { form.push("range:empty-hex"); ("0x".into(), Ok(None)) }
            1 => { form.push("range:empty-first"); (format!("0x..0x{:x}", e), Ok(None)) }
            2 => { form.push("range:empty-second"); (format!("0x{:x}..", b), Ok(None)) }
            3 => { form.push("range:three-dots"); (format!("0x{:x}...0x{:x}", b, e), Ok(None)) }
            4 => { form.push("range:minus"); (format!("0x-{:x}", b), Ok(None)) }
            5 => { form.push("range:plus-alone"); ("0x+".into(), Ok(None)) }
            6 => { form.push("range:bad-digit"); (format!("0x{:x}G", b), Ok(None)) }
            7 => { form.push("range:9-digits-overflow"); ("0x100000000".into(), Ok(None)) }
            8 => { form.push("range:overflow-then-bad-digit"); ("0xFFFFFFFFFZ".into(), Ok(None)) }
            9 => { form.push("range:bad-digit-then-overflow"); ("0xFFFFFFFZFF".into(), Ok(None)) }
            10 => { form.push("range:u32max-single"); ("0xFFFFFFFF".into(), Err(())) }
            11 => { form.push("range:u32max-end"); (format!("0x{:x}..0xffffffff", b), Err(())) }
            12 => { form.push("range:u32max-1"); ("0xFFFFFFFE".into(), Ok(None)) }
            13 => { form.push("range:hash-in-number"); (format!("0x{:x}#c", b), Ok(None)) }
            14 => { form.push("range:comma"); (format!("0x{:x},0x{:x}", b, e), Ok(None)) }
            15 => {
                // a third `..` part is ignored by the reader
                form.push("range:three-parts");
                (format!("0x{:x}..0x{:x}..0x{:x}", b, e, rng.below(0x3000)), Ok(if range_ok(b, e) { Some((b, e)) } else { None }))
            }
            16 => {
                form.push("range:second-without-0x");
                (format!("0x{:x}..{:x}", b, e), Ok(if range_ok(b, e) { Some((b, e)) } else { None }))
            }
            17 => { form.push("range:end-before-begin"); let b3 = b.max(4); let e2 = b3 - 1 - rng.below(3) as u32; (format!("0x{:x}..0x{:x}", b3, e2), Ok(None)) }
            18 => { form.push("range:surrogate-begin"); (format!("0x{:x}..0x{:x}", 0xd800 + rng.below(0x800) as u32, 0xe000 + rng.below(4) as u32), Ok(None)) }
            _ => {
                // ends whose successor is not a scalar value are refused: U+D7FF, inside the gap, U+10FFFF, beyond
                form.push("range:end-successor-not-scalar");
                let e2 = *rng.pick(&[0xd7ffu32, 0xd800, 0xdffe, 0x10ffff, 0x110000]);
                let b2 = if rng.chance(1, 2) { e2.min(0x10ffff) } else { b.min(e2) };
                (format!("0x{:x}..0x{:x}", b2, e2), Ok(None))
            }
        };
        return (t, r);
    }
    let single = rng.chance(1, 3);
    let mut e = if single { b } else { b + rng.below(spread as usize) as u32 };
    if !single && rng.chance(1, 12) {
        // long ranges: across the surrogate gap, up to the last coverable code point, the whole domain
        form.push("range:long");
        e = *rng.pick(&[0xdfffu32, 0xe000, 0xffff, 0x10000, 0x10fffe]);
        if e < b { e = 0x10fffe; }
    }
    let t = if single && rng.chance(2, 3) { form.push("range:single"); hexnum(rng, b, form) } else {
        form.push("range:pair");
        format!("{}..{}", hexnum(rng, b, form), hexnum(rng, e, form))
    };
    (t, Ok(if range_ok(b, e) { Some((b, e)) } else { None }))
}

/// class columns (after the first): text of every column, declared union (`None` = `InvalidCategoryType`)
fn gen_classes(rng: &mut Rng, form: &mut Vec<&'static str>) -> (Vec<String>, Option<u32>) {
    let mut cols = vec![];
    let mut cats = 0u32;
    let ncat = if rng.chance(1, 20) { 0 } else { rng.range(1, 3) };
    for _ in 0..ncat {
        if rng.chance(1, 9) {
            // everything else `bitflags::parser::from_str` takes for ONE column
            match rng.below(9) {
                0 | 1 => {
                    form.push("class:a|b");
                    let k = rng.range(2, 3);
                    let mut parts = vec![];
                    for _ in 0..k { let (n, v) = *rng.pick(NAMES); cats |= v; parts.push(n.to_string()); }
                    cols.push(parts.join("|"));
                }
                2 => { form.push("class:hex"); let (_, v) = *rng.pick(NAMES); cats |= v; cols.push(format!("0x{:x}", v)); }
                3 => { form.push("class:hex-unknown-bits"); let v = *rng.pick(&[0x8000u32, 0x10_0000, 0x2000_0000, 0xffff_ffff, 0xc000_0000]); cats |= v; cols.push(format!("0x{:X}", v)); }
                4 => { form.push("class:hex-plus"); cats |= 0x40; cols.push("0x+40".into()); }
                5 => { form.push("class:hex-zero"); cols.push("0x0".into()); }
                6 => { form.push("class:name|hex"); cats |= 4 | 0x300; cols.push("KANJI|0x300".into()); }
                7 => { form.push("class:hex-long-zero-pad"); cats |= 0x21; cols.push("0x00000000021".into()); }
                _ => { form.push("class:ALL|NOOOVBOW"); cats |= 0x7fff_ffff; cols.push("ALL|NOOOVBOW".into()); }
            }
        } else {
            let (n, v) = *rng.pick(NAMES);
            cats |= v;
            cols.push(n.to_string());
        }
    }
    if rng.chance(1, 70) {
        let bad = *rng.pick(&["KANJII", "kanji", "Kanji", "|", "KANJI|", "|KANJI", "KANJI||ALPHA", "0x", "0xZZ", "0x100000000", "0x-1",
            "KANJI#x", "ALL,", "DEFAULT.", "\u{200b}KANJI", "KANJI\u{feff}", "ＫＡＮＪＩ", "漢字"]);
        form.push("class:bad");
        let at = rng.below(cols.len() + 1);
        cols.insert(at, bad.to_string());
        return (cols, None);
    }
    (cols, Some(cats))
}

/// one line (without terminator) and its declaration
fn gen_line(rng: &mut Rng, anchor: u32, spread: u32, form: &mut Vec<&'static str>) -> (String, Decl) {
    if rng.chance(1, 7) {
        // lines the loop skips
        let t: String = match rng.below(14) {
            0 => "# comment".into(),
            1 => "".into(),
            2 => "   ".into(),
            3 => "NUMERIC 0x30".into(),
            4 => "0 x".into(),
            5 => { form.push("skip:upper-0X"); "0X30 KANJI".into() }
            6 => { form.push("skip:comment-2-3-4-byte"); "# é 漢字 😀 \u{10fffd}".into() }
            7 => { form.push("skip:unicode-blank-only"); "\u{3000}\u{a0}\u{2028}".into() }
            8 => { form.push("skip:not-white-prefix"); format!("{}0x30 KANJI", rng.pick(NOT_WHITE)) }
            9 => { form.push("skip:indented-comment"); format!("{}#0x30 KANJI", rng.pick(WHITE)) }
            10 => "x0 KANJI".into(),
            11 => "0".into(),
            12 => { form.push("skip:#0x"); "#0x30..0x39 NUMERIC".into() }
            _ => { form.push("skip:fullwidth-0x"); "０ｘ30 KANJI".into() }
        };
        return (t, Decl::Skip);
    }
    let (rt, rdecl) = gen_range(rng, anchor, spread, form);
    let (cols, cdecl) = gen_classes(rng, form);
    let mut l = rt;
    let mut one_column = false;
    if cols.is_empty() && rng.chance(1, 5) {
        // only one column: format error (reported before the number is looked at)
        form.push("line:one-column");
        one_column = true;
    } else {
        for c in &cols {
            let sep = if rng.chance(1, 8) { form.push("sep:unicode-white"); rng.pick(WHITE).to_string() }
                else if rng.chance(1, 4) { "\t".to_string() } else if rng.chance(1, 10) { "  ".to_string() } else { " ".to_string() };
            l.push_str(&sep);
            l.push_str(c);
        }
        if cols.is_empty() || rng.chance(1, 5) {
            l.push_str(*rng.pick(&[" #KANJI comment", " #", " # 漢字 😀", "\t#x|y", " #0x40", " ## KANJI"]));
            form.push("line:trailing-comment");
        }
    }
    if rng.chance(1, 8) {
        let w = if rng.chance(1, 2) { " " } else { form.push("line:unicode-indent"); *rng.pick(WHITE) };
        l = format!("{}{}{}", w, l, rng.pick(WHITE));
    }
    // the order of the checks in the loop body: column count, begin, end (+1), begin >= end, chars, classes
    let decl = if one_column { Decl::Bad } else {
        match (rdecl, cdecl) {
            (Err(()), _) => Decl::Panic,
            (Ok(None), _) => Decl::Bad,
            (Ok(Some(_)), None) => Decl::Bad,
            (Ok(Some((b, e))), Some(cats)) => Decl::Range { b, e, cats },
        }
    };
    (l, decl)
}

/// bytes that are not UTF-8, one per rule of the validator
const BAD_UTF8: &[&[u8]] = &[b"\x80", b"\xbf", b"\xc0\x80", b"\xc1\xbf", b"\xc2", b"\xc2\x41", b"\xe0\x9f\xbf", b"\xe0\xa0", b"\xed\xa0\x80", b"\xed\xbf\xbf",
    b"\xef\xbf", b"\xf0\x8f\xbf\xbf", b"\xf0\x90\x80", b"\xf4\x90\x80\x80", b"\xf5\x80\x80\x80", b"\xff", b"\xe3\x81\x41", b"\xf0\x9f\x98\x41"];

/// hand-written files: one per branch / boundary value the TASK names
fn directed(idx: usize) -> Option<(Vec<u8>, Vec<Decl>, bool)> {
    use Decl::*;
    let r = |b: u32, e: u32, cats: u32| Range { b, e, cats };
    let cases: Vec<(&[u8], Vec<Decl>, bool)> = vec![
        (b"", vec![], true),
        (b"\n", vec![Skip], true),
        (b"# only a comment\n\n   \n", vec![Skip, Skip, Skip], true),
        (b"\xef\xbb\xbf0x30 NUMERIC\n", vec![Skip], true), // a BOM hides the first line
        (b"0x30 NUMERIC", vec![r(0x30, 0x30, 16)], true),  // no final newline
        (b"0x30 NUMERIC\r\n0x31 ALPHA\r\n", vec![r(0x30, 0x30, 16), r(0x31, 0x31, 32)], true),
        (b"0x30 NUMERIC\r0x31 ALPHA\r", vec![r(0x30, 0x30, 16 | 0x31 | 32)], true), // CR is only white space: ONE line, `0x31` a hex class
        (b"0x30 NUMERIC\r\r\n", vec![r(0x30, 0x30, 16)], true),
        // table-size and integer-width edges (seeded C17c): U+00FF / U+0100
        (b"0x00C0..0x00FF ALPHA\n0x0100..0x017F GREEK\n", vec![r(0xc0, 0xff, 32), r(0x100, 0x17f, 512)], true),
        (b"0xFF KANJI\n0x100 USER1\n0xFE..0x101 USER2\n", vec![r(0xff, 0xff, 4), r(0x100, 0x100, 2048), r(0xfe, 0x101, 4096)], true),
        (b"0x7F SYMBOL\n0x80 SPACE\n0x7FF..0x800 USER3\n", vec![r(0x7f, 0x7f, 8), r(0x80, 0x80, 2), r(0x7ff, 0x800, 8192)], true),
        // U+FFFF / U+10000
        (b"0xFFFF KANJI\n0x10000 ALPHA\n0xFFF0..0x1000F USER4\n", vec![r(0xffff, 0xffff, 4), r(0x10000, 0x10000, 32), r(0xfff0, 0x1000f, 16384)], true),
        // last coverable code point, whole domain
        (b"0x10FFFE KANJI\n", vec![r(0x10fffe, 0x10fffe, 4)], true),
        (b"0x0..0x10FFFE ALL\n0x10FFFE NOOOVBOW\n", vec![r(0, 0x10fffe, 0x3fff_ffff), r(0x10fffe, 0x10fffe, 1 << 30)], true),
        (b"0x10FFFF KANJI\n", vec![Bad], false),
        (b"0x10FFF0..0x10FFFF KANJI\n", vec![Bad], false),
        // surrogate gap: U+D7FF can only be covered by a range running through the gap
        (b"0xD7FF KANJI\n", vec![Bad], false),
        (b"0xD7FE KANJI\n0xD7FF..0xDFFF ALPHA\n0xE000 GREEK\n", vec![r(0xd7fe, 0xd7fe, 4), r(0xd7ff, 0xdfff, 32), r(0xe000, 0xe000, 512)], true),
        (b"0xD7F0..0xE00F KATAKANA\n", vec![r(0xd7f0, 0xe00f, 128)], true),
        (b"0xD800..0xE000 KANJI\n", vec![Bad], false),
        (b"0xD7F0..0xD800 KANJI\n", vec![Bad], false),
        // begin 0: the first interval of iter() is empty
        (b"0x0 SPACE\n0x1..0x8 USER1\n", vec![r(0, 0, 2), r(1, 8, 2048)], true),
        // classes: DEFAULT written out next to an empty class list (adjacent equal intervals), ALL (seeded C17b)
        (b"0x30 DEFAULT\n0x31 #nothing\n0x32 DEFAULT\n", vec![r(0x30, 0x30, 1), r(0x31, 0x31, 0), r(0x32, 0x32, 1)], true),
        (b"0x0300..0x036F ALL NOOOVBOW\n0x0310 ALL\n", vec![r(0x300, 0x36f, 0x7fff_ffff), r(0x310, 0x310, 0x3fff_ffff)], true),
        (b"0x30 KANJI|ALPHA 0x40 0xFFFFFFFF\n", vec![r(0x30, 0x30, 0xffff_ffff)], true),
        (b"0x30 |\n", vec![Bad], false),
        (b"0x30 kanji\n", vec![Bad], false),
        (b"0x30\n", vec![Bad], false),
        (b"0x30 KANJI\n0x31\n0x32 ALPHA\n", vec![r(0x30, 0x30, 4), Bad, r(0x32, 0x32, 32)], false),
        // seeded C17a: nested line with the same classes
        (b"0x0030..0x0039 NUMERIC\n0x0032 NUMERIC\n", vec![r(0x30, 0x39, 16), r(0x32, 0x32, 16)], true),
        // numbers
        (b"0x0x0x30 KANJI\n0x+31 ALPHA\n0x00000000032..0x0033 GREEK\n", vec![r(0x30, 0x30, 4), r(0x31, 0x31, 32), r(0x32, 0x33, 512)], true),
        (b"0xFFFFFFFF KANJI\n", vec![Panic], false),
        (b"0x30..0xFFFFFFFF KANJI\n", vec![Panic], false),
        (b"0x100000000 KANJI\n", vec![Bad], false),
        (b"0x39..0x30 KANJI\n", vec![Bad], false),
        // the first error decides: a malformed line before bytes that are not UTF-8, and the other way round
        (b"0x30\n# \xff\n", vec![Bad, Bad], false),
        (b"# \xff\n0x30\n", vec![Bad, Bad], false),
        (b"0x30 KANJI # \xe3\x81\n", vec![Bad], false),
        // white space of every kind between the columns
        ("\u{3000}0x30\u{3000}KANJI\u{a0}ALPHA\u{2028}#c\u{85}\n".as_bytes(), vec![r(0x30, 0x30, 4 | 32)], true),
        ("0x30\u{200b}KANJI ALPHA\n".as_bytes(), vec![Bad], false),
    ];
    let (t, d, l) = cases.get(idx)?.clone();
    Some((t.to_vec(), d, l))
}

pub const DIRECTED: usize = 40;

/// the definition files shipped with the repository
const SHIPPED: &[&str] = &["resources/char.def", "sudachi/tests/resources/char.def", "python/py_src/sudachipy/resources/char.def",
    "python/tests/resources/char.def"];

/// what a shipped file declares, read with the PLAIN syntax only (`0xHHHH[..0xHHHH] NAME.. [#comment]`, ASCII blanks);
/// any other spelling makes the line `Bad`, so a shipped file using one shows up as a disagreement
fn plain_decls(text: &str) -> Vec<Decl> {
    let hexv = |t: &str| -> Option<u32> {
        let h = t.strip_prefix("0x")?;
        if h.is_empty() || h.len() > 8 || !h.bytes().all(|b| b.is_ascii_hexdigit()) { return None; }
        let mut v = 0u32;
        for b in h.bytes() { v = v * 16 + (b as char).to_digit(16).unwrap(); }
        Some(v)
    };
    let mut out = vec![];
    let mut segs: Vec<&str> = text.split('\n').collect();
    if segs.last() == Some(&"") { segs.pop(); }
    for l in segs {
        let l = l.trim_matches(|c| c == ' ' || c == '\t' || c == '\r');
        if !l.starts_with("0x") { out.push(Decl::Skip); continue; }
        let toks: Vec<&str> = l.split(|c| c == ' ' || c == '\t').filter(|t| !t.is_empty()).collect();
        let parts: Vec<&str> = toks[0].split("..").collect();
        let be = match parts.len() {
            1 => hexv(parts[0]).map(|b| (b, b)),
            2 => match (hexv(parts[0]), hexv(parts[1])) { (Some(b), Some(e)) => Some((b, e)), _ => None },
            _ => None,
        };
        let mut cats = Some(0u32);
        for t in &toks[1..] {
            if t.starts_with('#') { break; }
            match NAMES.iter().find(|(n, _)| n == t) { Some((_, v)) => cats = cats.map(|c| c | v), None => cats = None }
        }
        out.push(match (be, cats) {
            (Some((b, e)), Some(c)) if toks.len() >= 2 && range_ok(b, e) => Decl::Range { b, e, cats: c },
            _ => Decl::Bad,
        });
    }
    out
}

/// a definition file together with what its lines declare; `loads` = no line is refused
pub fn gen_def(rng: &mut Rng, idx: usize, form: &mut Vec<&'static str>) -> (Vec<u8>, Vec<Decl>, bool) {
    if let Some(d) = directed(idx) {
        form.push("directed");
        return d;
    }
    if idx < DIRECTED + SHIPPED.len() {
        let repo = std::env::var("VERIF_REPO").unwrap_or_else(|_| "/repo".to_string());
        if let Ok(bytes) = std::fs::read(format!("{}/{}", repo, SHIPPED[idx - DIRECTED])) {
            if let Ok(t) = std::str::from_utf8(&bytes) {
                form.push("shipped-file");
                let decls = plain_decls(t);
                let loads = decls.iter().all(|d| matches!(d, Decl::Skip | Decl::Range { .. }));
                return (bytes.clone(), decls, loads);
            }
        }
    }
    let mut text: Vec<u8> = vec![];
    let mut decls = vec![];
    let nlines = match rng.below(12) {
        0 => { form.push("size:10-48-lines"); rng.range(10, 48) }
        1 => 1,
        _ => rng.range(1, 9),
    };
    let chain = rng.chance(1, 15); // adjacent single points in code-point order (or reversed): the merge loop
    if chain { form.push("shape:adjacent-chain"); }
    let anchor = if rng.chance(1, 6) { *rng.pick(EDGES) - rng.below(3) as u32 } else { *rng.pick(ANCHORS) };
    let spread = *rng.pick(&[4u32, 8, 14]);
    let rev = rng.chance(1, 2);
    let same = NAMES[rng.below(NAMES.len())];
    for k in 0..nlines {
        let (l, d) = if chain {
            let x = (anchor + if rev { (nlines - 1 - k) as u32 } else { k as u32 }).min(0x10fffe);
            let (n, v) = if rng.chance(3, 4) { same } else { *rng.pick(NAMES) };
            (format!("0x{:04X} {}", x, n), if range_ok(x, x) { Decl::Range { b: x, e: x, cats: v } } else { Decl::Bad })
        } else {
            // large files consist of lines that load (otherwise hardly any large file would reach compile())
            loop {
                let (l, d) = gen_line(rng, anchor, spread, form);
                if nlines < 10 || matches!(d, Decl::Skip | Decl::Range { .. }) { break (l, d); }
            }
        };
        text.extend_from_slice(l.as_bytes());
        if nlines < 10 && rng.chance(1, 120) {
            // bytes that are not UTF-8, anywhere on the line (`lines()` validates the whole segment)
            form.push("bytes:not-utf8");
            text.extend_from_slice(if rng.chance(1, 2) { b" # " } else { b"" });
            let bad: &[u8] = *rng.pick(BAD_UTF8);
            text.extend_from_slice(bad);
            decls.push(match d { Decl::Panic | Decl::Range { .. } | Decl::Skip | Decl::Bad => Decl::Bad });
        } else {
            decls.push(d);
        }
        if k + 1 == nlines && rng.chance(1, 6) {
            form.push("eol:none-at-eof");
        } else if rng.chance(1, 10) {
            form.push("eol:crlf");
            text.extend_from_slice(b"\r\n");
        } else if rng.chance(1, 60) {
            form.push("eol:crcrlf");
            text.extend_from_slice(b"\r\r\n");
        } else {
            text.push(b'\n');
        }
    }
    // the reader stops at the first line it refuses (panic included)
    let loads = decls.iter().all(|d| matches!(d, Decl::Skip | Decl::Range { .. }));
    (text, decls, loads)
}

pub fn naive(lines: &[DefLine], x: u32) -> u32 {
    let mut u = 0;
    for l in lines {
        if l.b <= x && x <= l.e {
            u |= l.cats;
        }
    }
    if u == 0 { 1 } else { u }
}

fn show_err(e: &SudachiError) -> String {
    use std::num::IntErrorKind as K;
    match e {
        SudachiError::Io { .. } => "err:Io".into(),
        SudachiError::ParseIntError(p) => format!("err:ParseInt:{}", match p.kind() {
            K::Empty => "Empty", K::InvalidDigit => "InvalidDigit", K::PosOverflow => "PosOverflow", _ => "Other" }),
        SudachiError::InvalidCharacterCategory(CcError::InvalidFormat(i)) => format!("err:InvalidFormat:{}", i),
        SudachiError::InvalidCharacterCategory(CcError::InvalidChar(c, i)) => format!("err:InvalidChar:{}:{}", c, i),
        SudachiError::InvalidCharacterCategory(CcError::InvalidCategoryType(i, s)) =>
            format!("err:InvalidType:{}:{}", i, join(s.chars().map(|c| c as u32), ".")),
        other => format!("err:Other:{}", format!("{:?}", other).replace(' ', "_")),
    }
}

/// which `CharCategoryIter::next` the linked tree has: `cur` panics on the table without boundaries, `fix` yields one range
fn iter_variant() -> &'static str {
    match catch(|| CharacterCategory::default().iter().next().map(|(r, c)| (r.start as u32, r.end as u32, c.bits()))) {
        Ok(Some((0, 0x10ffff, 1))) => "fix",
        _ => "cur",
    }
}

/// a character of another plane with the same low 16 bits of the code point (U+0041 / U+20041, U+3042 / U+23042)
fn alias16(rng: &mut Rng, x: u32) -> Option<u32> {
    for _ in 0..8 {
        let plane = rng.below(17) as u32;
        let y = (x & 0xffff) | (plane << 16);
        if y != x && is_scalar(y) { return Some(y); }
    }
    None
}

/// a character with the same low 8 bits but different low 16 bits
fn alias8(rng: &mut Rng, x: u32) -> Option<u32> {
    for _ in 0..8 {
        let y = if rng.chance(1, 2) { x ^ ((1 + rng.below(255) as u32) << 8) } else { (x & 0xff) | ((rng.below(0x10ff) as u32) << 8) };
        if y & 0xffff != x & 0xffff && is_scalar(y) { return Some(y); }
    }
    None
}

/// texts made of the probe characters of one definition file: what ONE `InputBuffer::build` call sees together
fn gen_texts(rng: &mut Rng, probes: &[u32], tags: &mut Vec<&'static str>) -> Vec<Vec<u32>> {
    let mut texts: Vec<Vec<u32>> = vec![];
    // every probe once, in code-point order and back
    let mut all: Vec<u32> = probes.to_vec();
    if all.len() > 400 { let at = rng.below(all.len() - 400); all = all[at..at + 400].to_vec(); }
    if rng.chance(1, 2) { all.reverse(); }
    texts.push(all);
    let pick = |rng: &mut Rng| probes[rng.below(probes.len())];
    // pairs with equal low 16 bits, next to each other: BMP first / astral first
    let mut fwd = vec![];
    let mut bwd = vec![];
    for _ in 0..rng.range(2, 12) {
        let x = pick(rng);
        if let Some(y) = alias16(rng, x) { fwd.push(x); fwd.push(y); bwd.push(y); bwd.push(x); }
    }
    if !fwd.is_empty() { tags.push("text:alias16-adjacent"); texts.push(fwd); texts.push(bwd); }
    // a text of exactly two characters: the pair alone in a build call
    for _ in 0..2 {
        let x = pick(rng);
        if let Some(y) = alias16(rng, x) {
            tags.push("text:alias16-alone");
            texts.push(if rng.chance(1, 2) { vec![x, y] } else { vec![y, x] });
        }
    }
    // the alias at a distance, the first character repeated after it
    {
        let x = pick(rng);
        if let Some(y) = alias16(rng, x) {
            tags.push("text:alias16-distance");
            let mut t = vec![x];
            for _ in 0..rng.range(1, 20) { t.push(pick(rng)); }
            t.push(y);
            for _ in 0..rng.below(4) { t.push(pick(rng)); }
            t.push(x);
            t.push(y);
            texts.push(t);
        }
    }
    // equal low 8 bits: x z x z, and x z y (y = low-16 alias of x)
    {
        let mut t = vec![];
        for _ in 0..rng.range(1, 6) {
            let x = pick(rng);
            if let Some(z) = alias8(rng, x) {
                t.extend_from_slice(&[x, z, x, z]);
                if let Some(y) = alias16(rng, x) { t.extend_from_slice(&[x, z, y]); }
            }
        }
        if !t.is_empty() { tags.push("text:alias8"); texts.push(t); }
    }
    // one character many times; a single character; the empty text
    { let x = pick(rng); tags.push("text:repeat"); texts.push(vec![x; rng.range(2, 9)]); }
    texts.push(vec![pick(rng)]);
    if rng.chance(1, 4) { tags.push("text:empty"); texts.push(vec![]); }
    // random mix of probes and their aliases in all planes, with repetitions
    {
        let mut pool: Vec<u32> = vec![];
        for _ in 0..rng.range(2, 10) {
            let x = pick(rng);
            pool.push(x);
            if let Some(y) = alias16(rng, x) { pool.push(y); }
            if rng.chance(1, 2) { if let Some(y) = alias16(rng, x) { pool.push(y); } }
            if rng.chance(1, 3) { if let Some(z) = alias8(rng, x) { pool.push(z); } }
        }
        let n = rng.range(2, 48);
        let t: Vec<u32> = (0..n).map(|_| pool[rng.below(pool.len())]).collect();
        tags.push("text:mix");
        texts.push(t);
    }
    texts
}

/// `Grammar` without POS and with a 0x0 matrix: only its character classes are used by `InputBuffer::build`
const EMPTY_GRAMMAR: &[u8] = &[0, 0, 0, 0, 0, 0];

/// classes observed THROUGH A BUILT `InputBuffer` (the only consumer of the classes in the analyser): every text is
/// one `build` call; `cat_at_char` at every position, `cat_of_range` on some ranges.  `lines` = the declared lines
/// (`None`: nothing declared, correspondence only).
fn observe_buffer(run: &mut Run, idx: usize, def: &[u8], cc: CharacterCategory, probes: &[u32], lines: Option<&[DefLine]>) {
    let mut rng = Rng::for_case(run.opts.seed ^ 0xB0FF_E2C1_7C17, idx);
    let mut tags: Vec<&'static str> = vec![];
    let texts = gen_texts(&mut rng, probes, &mut tags);
    for t in &tags { run.bump(t); }
    let mut queries: Vec<(usize, usize, usize)> = vec![];
    for (ti, t) in texts.iter().enumerate() {
        if t.is_empty() { continue; }
        let i = rng.below(t.len());
        queries.push((ti, i, i + 1));
        if t.len() >= 2 && rng.chance(1, 2) { let s = rng.below(t.len() - 1); queries.push((ti, s, s + 2)); }
        if rng.chance(1, 2) { let s = rng.below(t.len()); let e = s + 1 + rng.below(t.len() - s); queries.push((ti, s, e)); }
        if rng.chance(1, 6) { queries.push((ti, 0, t.len())); }
    }
    let payload = format!("def={} texts={} rng={}", hex(def),
        join(texts.iter().map(|t| join(t.iter(), ",")), ";"),
        join(queries.iter().map(|(t, s, e)| format!("{}:{}:{}", t, s, e)), ","));
    let grammar = catch(move || {
        let mut g = Grammar::parse(EMPTY_GRAMMAR, 0).expect("empty grammar");
        g.set_character_category(cc);
        g
    });
    let grammar = match grammar { Ok(g) => g, Err(p) => panic!("harness: cannot make an empty Grammar: {}", p) };
    // one InputBuffer per text; a buffer is also recycled (reset + build) for every other text, as the tokenizer does
    let mut recycled = InputBuffer::new();
    let mut seen: Vec<Option<Vec<u32>>> = vec![];
    for (ti, t) in texts.iter().enumerate() {
        let s: String = t.iter().map(|&x| char::from_u32(x).unwrap()).collect();
        let g = &grammar;
        let rec = &mut recycled;
        let r = catch(move || {
            let built;
            let buf: &InputBuffer = if ti % 2 == 1 {
                rec.reset().push_str(&s);
                rec.start_build().expect("start_build");
                rec.build(g).expect("build");
                rec
            } else {
                let mut b = InputBuffer::from(s.as_str());
                b.build(g).expect("build");
                built = b;
                &built
            };
            (0..buf.current_chars().len()).map(|i| buf.cat_at_char(i).bits()).collect::<Vec<u32>>()
        });
        match r {
            Ok(v) => seen.push(Some(v)),
            Err(_) => { seen.push(None); recycled = InputBuffer::new(); }
        }
    }
    // range queries on freshly built buffers
    let mut rseen: Vec<Option<u32>> = vec![];
    for (ti, s, e) in &queries {
        let text: String = texts[*ti].iter().map(|&x| char::from_u32(x).unwrap()).collect();
        let g = &grammar;
        let (s, e) = (*s, *e);
        rseen.push(catch(move || {
            let mut b = InputBuffer::from(text.as_str());
            b.build(g).expect("build");
            b.cat_of_range(s..e).bits()
        }).ok());
    }
    let ans = format!("ok cats={} rng={}",
        join(seen.iter().map(|o| match o { Some(v) => join(v.iter(), ","), None => "PANIC".to_string() }), ";"),
        join(rseen.iter().map(|o| match o { Some(v) => v.to_string(), None => "PANIC".to_string() }), ","));
    // non-trivial: a text holds two characters with equal low 16 bits to which the definition gives different classes
    let mut differs = false;
    if let Some(lines) = lines {
        for t in &texts {
            for (i, &a) in t.iter().enumerate() {
                if t[..i].iter().any(|&b| b != a && b & 0xffff == a & 0xffff && naive(lines, a) != naive(lines, b)) { differs = true; }
            }
        }
    }
    if differs { run.bump("buffer:alias16-classes-differ"); }
    run.bump_by("buffer:builds", texts.len() as u64);
    run.bump_by("buffer:characters", texts.iter().map(|t| t.len() as u64).sum());
    run.case(idx, "buffer", &payload, &ans, differs);
    let lines = match lines { Some(l) => l, None => return };
    // oracle 3: the classes reported for the character at position i of a built buffer = union of the covering lines
    // (or DEFAULT), whatever else the text contains
    'texts: for (ti, t) in texts.iter().enumerate() {
        match &seen[ti] {
            None => { run.fail(idx, "c17:buf:panic", &format!("InputBuffer::build / cat_at_char panics on text #{} {:x?}", ti, t)); break 'texts; }
            Some(v) => {
                if v.len() != t.len() {
                    run.fail(idx, "c17:buf:length", &format!("text #{} has {} characters, the built buffer {}", ti, t.len(), v.len()));
                    break 'texts;
                }
                for (i, &x) in t.iter().enumerate() {
                    let want = naive(lines, x);
                    if v[i] != want {
                        run.fail(idx, &format!("c17:buf:at:{:x}", x), &format!("text #{} {:x?}: character #{} U+{:04X} is reported by cat_at_char with {:#x}, union of covering lines {:#x} (get_category_types alone: {:#x})",
                            ti, t, i, x, v[i], want, grammar.character_category.get_category_types(char::from_u32(x).unwrap()).bits()));
                        break 'texts;
                    }
                }
            }
        }
    }
    // cat_of_range = the classes common to the characters of the range (for one character: its classes)
    for (k, (ti, s, e)) in queries.iter().enumerate() {
        let want = texts[*ti][*s..*e].iter().fold(0xffff_ffffu32, |a, &x| a & naive(lines, x));
        match rseen[k] {
            None => { run.fail(idx, "c17:buf:range:panic", &format!("cat_of_range({}..{}) panics on text #{} {:x?}", s, e, ti, texts[*ti])); break; }
            Some(got) if got != want => {
                run.fail(idx, &format!("c17:buf:range:{}", if e - s == 1 { "one" } else { "many" }), &format!("text #{} {:x?}: cat_of_range({}..{}) = {:#x}, classes common to the unions of the covering lines {:#x}", ti, texts[*ti], s, e, got, want));
                break;
            }
            _ => {}
        }
    }
}

pub fn run(run: &mut Run) {
    run.rule = "char.def files built from declared forms: per line a range form (single, pair, 0x padding/case/8 and 11 digits/'+'/doubled 0x, \
second field without 0x, third '..' part, long ranges through the surrogate gap and to U+10FFFE; malformed: empty fields, '...', '-', bad digit, \
9-digit overflow, u32::MAX (+1 panic), end before begin, ends whose successor is not a scalar), a class-column form (names, A|B, hex flags, unknown bits, \
ALL, empty list + comment; malformed: unknown/lower-case names, '|', empty hex, overflow), separators from all White_Space code points, non-white look-alikes, \
comments with 2/3/4-byte characters, bytes that are not UTF-8, LF/CRLF/CRCRLF/no final newline, 0..48 lines, adjacent chains; 40 directed files first \
(U+00FF/0100, U+FFFF/10000, U+10FFFE/10FFFF, U+D7FF/E000, begin 0, BOM, CR-only, first-error order); non-trivial = loads and two lines overlap or touch; \
distinct by file text + probes. Op buffer (every file that loads): the classes THROUGH A BUILT InputBuffer - Grammar with the loaded table, one build call per text \
(fresh and recycled buffers), texts made of the probes of the file: all probes, pairs with equal low 16 bits in different planes (U+0041/U+20041) adjacent in both orders, \
alone, at a distance and repeated, equal low 8 bits (x z x z), one character repeated, one character, the empty text, random mixes of probes and aliases; cat_at_char at every \
position, cat_of_range on one-character and longer ranges; non-trivial = a text with two characters of equal low 16 bits and different declared classes".into();
    let n = run.opts.count;
    let itv = iter_variant();
    run.extra.insert("iter_variant".into(), serde_json::json!(itv));
    for idx in 0..n {
        if !run.wants(idx) { continue; }
        let mut rng = Rng::for_case(run.opts.seed, idx);
        let mut form: Vec<&'static str> = vec![];
        let (text, decls, loads_expected) = gen_def(&mut rng, idx, &mut form);
        form.sort();
        form.dedup();
        for f in &form { run.bump(&format!("form:{}", f)); }
        let lines: Vec<DefLine> = decls.iter().filter_map(|d| match d { Decl::Range { b, e, cats } => Some(DefLine { b: *b, e: *e, cats: *cats }), _ => None }).collect();
        // probes: every range end and its neighbours
        let mut probes: Vec<u32> = vec![0, 0x10ffff];
        for l in &lines {
            for d in [-1i64, 0, 1] {
                for base in [l.b as i64, l.e as i64] {
                    let x = base + d;
                    if x >= 0 && x <= 0x10ffff && is_scalar(x as u32) {
                        probes.push(x as u32);
                    }
                }
            }
        }
        probes.extend(EDGES.iter().copied());
        // and a point inside every range (a table filled for part of a range shows there)
        for l in &lines { if l.e > l.b + 1 { let x = l.b + 1 + (rng.below((l.e - l.b - 1) as usize) as u32); if is_scalar(x) { probes.push(x); } } }
        probes.sort();
        probes.dedup();
        for &x in &probes {
            run.bump(match x { 0..=0x7f => "probe:1-byte", 0x80..=0x7ff => "probe:2-byte", 0x800..=0xffff => "probe:3-byte", _ => "probe:4-byte" });
        }
        let payload = format!("def={} probe={} itv={}", hex(&text), join(probes.iter(), ","), itv);
        let res = catch(|| CharacterCategory::from_reader(&text[..]));
        let mut touch = false;
        for (i, a) in lines.iter().enumerate() {
            for b in lines.iter().skip(i + 1) {
                if a.b <= b.e.saturating_add(1) && b.b <= a.e.saturating_add(1) { touch = true; }
            }
        }
        match res {
            Err(p) => {
                run.bump("outcome:panic");
                run.case(idx, "chardef", &payload, "PANIC", false);
                // loading is outside C17; a panic while loading is reported for information only
                run.bump(&format!("load-panic:{}", p.chars().take(40).collect::<String>()));
                if loads_expected { run.bump("generator-expected-load"); }
            }
            Ok(Err(e)) => {
                let ans = show_err(&e);
                run.bump("outcome:load-error");
                run.bump(&format!("load-error:{}", ans.split(':').take(2).collect::<Vec<_>>().join(":")));
                run.case(idx, "chardef", &payload, &ans, false);
                if loads_expected {
                    run.bump("generator-expected-load");
                }
            }
            Ok(Ok(cc)) => {
                run.bump("outcome:ok");
                run.bump(&format!("lines:{}", if lines.len() < 10 { lines.len().to_string() } else { "10+".into() }));
                if touch { run.bump("overlap-or-adjacent"); }
                // `iter()` on the loaded table: every item, start and end
                let items = catch(|| cc.iter().map(|(r, c)| (r.start as u32, r.end as u32, c.bits())).collect::<Vec<_>>());
                let iter_s = match &items {
                    Ok(v) => join(v.iter().map(|(s, e, c)| format!("{}:{}:{}", s, e, c)), ","),
                    Err(_) => "PANIC".to_string(),
                };
                let cats: Vec<u32> = probes.iter().map(|&x| cc.get_category_types(char::from_u32(x).unwrap()).bits()).collect();
                let ans = format!("ok iter={} cats={}", iter_s, join(cats.iter(), ","));
                run.case(idx, "chardef", &payload, &ans, touch && lines.len() >= 2);
                if !loads_expected {
                    // a refused line was accepted: nothing declared to compare with; the correspondence run reports it
                    run.bump("generator-expected-error-but-loaded");
                    observe_buffer(run, idx, &text, cc, &probes, None);
                    continue;
                }
                // oracle 1: naive scan of the declared lines
                for (k, &x) in probes.iter().enumerate() {
                    let want = naive(&lines, x);
                    if cats[k] != want {
                        run.fail(idx, &format!("c17:{:x}", x), &format!("code point U+{:04X}: reported {:#x}, union of covering lines {:#x}", x, cats[k], want));
                        break;
                    }
                }
                // oracle 2: `iter()` = consecutive half-open ranges from 0 to char::MAX, each with the classes of every code point in it
                match &items {
                    Err(_) => {
                        run.bump("iter:panic");
                        if lines.is_empty() {
                            run.fail(idx, "c17:iter:empty-table", "iter() panics on a definition without range lines (every code point is DEFAULT)");
                        } else {
                            run.fail(idx, "c17:iter:panic", "iter() panics on a loaded table");
                        }
                    }
                    Ok(v) => {
                        run.bump(&format!("iter:items:{}", if v.len() < 10 { v.len().to_string() } else { "10+".into() }));
                        let mut bad: Option<(String, String)> = None;
                        if v.is_empty() || v[0].0 != 0 || v[v.len() - 1].1 != 0x10ffff {
                            bad = Some(("c17:iter:ends".into(), "iter() does not run from 0 to char::MAX".into()));
                        }
                        for w in v.windows(2) {
                            if w[0].1 != w[1].0 { bad = Some((format!("c17:iter:gap:{:x}", w[0].1), format!("iter(): range ending at {:#x} is followed by one starting at {:#x}", w[0].1, w[1].0))); }
                        }
                        if v.first().map_or(false, |f| f.0 == f.1) { run.bump("iter:first-empty"); }
                        for (s, e, c) in v {
                            if s >= e { continue; }
                            let mut pts = vec![*s, e - 1, s + rng.below((e - s) as usize) as u32];
                            if *s < 0xd800 && *e > 0xd800 { pts.push(0xd7ff); }
                            if *s <= 0xe000 && *e > 0xe000 { pts.push(0xe000); }
                            for x in pts {
                                if is_scalar(x) && naive(&lines, x) != *c {
                                    bad = Some((format!("c17:iter:{:x}", x), format!("iter(): U+{:04X} lies in {:#x}..{:#x} reported with {:#x}, union of covering lines {:#x}", x, s, e, c, naive(&lines, x))));
                                }
                            }
                        }
                        for &x in &probes {
                            if x == 0x10ffff { continue; }
                            let hit: Vec<_> = v.iter().filter(|(s, e, _)| *s <= x && x < *e).collect();
                            if hit.len() != 1 || hit[0].2 != naive(&lines, x) {
                                bad = Some((format!("c17:iter:{:x}", x), format!("iter(): U+{:04X} is in {} ranges / has the wrong classes", x, hit.len())));
                            }
                        }
                        if v.windows(2).any(|w| w[0].2 == w[1].2) { run.bump("iter:adjacent-equal-classes"); }
                        if let Some((k, w)) = bad { run.fail(idx, &k, &w); }
                    }
                }
                observe_buffer(run, idx, &text, cc, &probes, Some(&lines));
            }
        }
    }
}
