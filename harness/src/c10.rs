//! C10: results do not depend on what a tokenizer or result list processed before.
//!
//! One case = one history of API calls on ONE real `StatefulTokenizer` and a few `MorphemeList`s.
//! * correspondence: after every call the length of every recycled buffer (hooks) is printed; the Lean
//!   discipline model replays the same calls (payload facts measured on FRESH objects) and must predict
//!   the same lengths, including stale-but-harmless tails;
//! * oracle: every analysis of the history is a probe: outcome, all input tables, the lattice rows below
//!   `size`, and (after a collect) every morpheme field are compared with a freshly created tokenizer /
//!   list with the same mode and field request.
use crate::common::*;
use crate::dict::*;
use crate::world::*;
use sudachi::analysis::stateful_tokenizer::StatefulTokenizer;
use sudachi::analysis::stateless_tokenizer::DictionaryAccess;
use sudachi::analysis::Mode;
use sudachi::dic::dictionary::JapaneseDictionary;
use sudachi::dic::subset::InfoSubset;
use sudachi::input_text::{InputBuffer, VerifTables};
use sudachi::prelude::*;

use std::sync::atomic::{AtomicU64, AtomicUsize, Ordering};

/// watchdog: a history that does not terminate (a missing `clear` can make a loop of the tokenizer spin) must not
/// hang the check; it is reported as an oracle failure of that case
static CASE_DEADLINE_MS: AtomicU64 = AtomicU64::new(0);
static CASE_IDX: AtomicUsize = AtomicUsize::new(0);
const CASE_LIMIT_MS: u64 = 40_000;

fn start_watchdog(out: String, seed: u64, prop: String) {
    let t0 = std::time::Instant::now();
    std::thread::spawn(move || loop {
        std::thread::sleep(std::time::Duration::from_millis(200));
        let d = CASE_DEADLINE_MS.load(Ordering::SeqCst);
        let now = t0.elapsed().as_millis() as u64;
        if d != 0 && now > d {
            let idx = CASE_IDX.load(Ordering::SeqCst);
            let dir = std::path::Path::new(&out);
            let _ = std::fs::create_dir_all(dir);
            let _ = std::fs::write(dir.join("cases.txt"), "");
            let _ = std::fs::write(dir.join("impl.txt"), "");
            let summary = serde_json::json!({
                "property": prop, "seed": seed, "evaluations": 0, "distinct_nontrivial": 0, "rule": "", "samples": [],
                "distribution": {}, "extra": {},
                "oracle_failures": [{"index": idx, "key": "c10:hang", "line": format!("{} hist idx={}", prop, idx),
                    "what": format!("history of case {} did not finish within {} s: an operation on the reused tokenizer does not terminate (a fresh tokenizer does)", idx, CASE_LIMIT_MS / 1000)}],
            });
            let _ = std::fs::write(dir.join("summary.json"), serde_json::to_string_pretty(&summary).unwrap());
            std::process::exit(0);
        }
    });
    // the deadline is expressed relative to the same clock
    CLOCK0.get_or_init(|| t0);
}
static CLOCK0: std::sync::OnceLock<std::time::Instant> = std::sync::OnceLock::new();
fn arm(idx: usize) {
    if let Some(t0) = CLOCK0.get() {
        CASE_IDX.store(idx, Ordering::SeqCst);
        CASE_DEADLINE_MS.store(t0.elapsed().as_millis() as u64 + CASE_LIMIT_MS, Ordering::SeqCst);
    }
}
fn disarm() { CASE_DEADLINE_MS.store(0, Ordering::SeqCst); }

/// which instance of the model mirrors the tree: does `StatefulTokenizer::reset` re-create a result path that an
/// analysis took and did not give back (`self.top_path.get_or_insert_with(Vec::new).clear()`, the repair of the C10
/// defect) or does it only clear an existing one (`self.top_path.as_mut().map(|p| p.clear())`)?  Comments are
/// ignored; an unreadable source counts as `cur`.
/// does the linked `MorphemeList::lookup` record the subset of the call in the list (repair 171a12c)? (source probe)
fn impl_lookup_sets_subset() -> bool {
    let src = std::fs::read_to_string(format!("{}/src/analysis/mlist.rs", crate::c07::repo_sudachi_dir())).unwrap_or_default();
    let code: String = src.lines().map(|l| l.split("//").next().unwrap_or("")).collect::<Vec<_>>().join("\n");
    match code.find("pub fn lookup") { Some(i) => code[i..].chars().take(600).collect::<String>().contains(".subset = subset"), None => false }
}

pub fn impl_reset_variant() -> &'static str {
    static V: std::sync::OnceLock<&'static str> = std::sync::OnceLock::new();
    *V.get_or_init(|| {
        let p = format!("{}/src/analysis/stateful_tokenizer.rs", crate::c07::repo_sudachi_dir());
        match std::fs::read_to_string(p) {
            Ok(s) => {
                let code: String = s.lines().map(|l| l.split("//").next().unwrap_or("")).collect::<Vec<_>>().join("\n");
                let code: String = code.chars().filter(|c| !c.is_whitespace()).collect();
                if code.contains("top_path.get_or_insert_with(Vec::new)") { "fix" } else { "cur" }
            }
            Err(_) => "cur",
        }
    })
}

pub const PER_WORLD: usize = 20;
pub const DIRECTED: usize = 17;

type Dic<'a> = &'a JapaneseDictionary;
type Rows = Vec<Vec<(usize, usize, u16, u16, i16, u32, i32, u16, u32)>>;

#[derive(Clone, Debug)]
enum Op {
    SetMode(usize),
    SetSubset(u32),
    Analyse(String),
    Collect(usize),
    NewList,
    EmptyClone(usize),
    Clear(usize),
    /// (source list, mode, destination list): the morpheme index is chosen when executed
    Split(usize, usize, usize, usize),
    Lookup(usize, String),
}

fn mode_num(m: Mode) -> usize {
    match m { Mode::C => 0, Mode::A => 1, Mode::B => 2 }
}

fn rle(s: &str) -> String {
    if s.is_empty() { return "-".into(); }
    let mut out: Vec<(usize, usize)> = vec![];
    for c in s.chars() {
        let w = c.len_utf8();
        match out.last_mut() {
            Some(l) if l.0 == w => l.1 += 1,
            _ => out.push((w, 1)),
        }
    }
    out.iter().map(|(w, k)| format!("{}x{}", w, k)).collect::<Vec<_>>().join(".")
}

/// identity of one result node, independent of the input buffer the list currently shares (a stale list can be read):
/// position in the normalised text (chars and bytes), word id, cumulative cost
fn node_ids(l: &MorphemeList<Dic>) -> Vec<u64> {
    (0..l.len()).map(|i| {
        let m = l.get(i);
        let r = m.verif_node_range();
        let w = m.word_id().as_raw() as u64;
        let c = m.total_cost() as i64 as u64 & 0xffff_ffff;
        (((r.0 as u64 * 1000003 + r.1 as u64 * 10007 + r.2 as u64 * 101 + r.3 as u64) % 2147483647) * 31 + w % 1000000007 + c * 7) % 2147483647
    }).collect()
}

fn enc_nodes(v: &[u64]) -> String { format!("q{}", join(v.iter(), ",")) }

fn hash_nodes(v: &[u64]) -> u64 { v.iter().fold(7u64, |h, x| (h * 1000003 + x + 1) % 2147483647) }

fn out_class(e: &SudachiError) -> String {
    match e {
        SudachiError::InputTooLong(_, _) => "err:TooLong".into(),
        SudachiError::EosBosDisconnect => "err:Disconnect".into(),
        _ => "err:Other".into(),
    }
}

/// what a FRESH tokenizer / buffer does with a text: payload facts for the model + expectations for the oracle
struct Fresh {
    enc: String,
    outcome: String,
    tables: VerifTables,
    rows: Rows,
    size: usize,
    eos: Option<(u16, u32, i32)>,
    path_len: Option<usize>,
    /// morphemes after collecting into a fresh list (only when the analysis is Ok)
    toks: Option<Result<Vec<Tok>, String>>,
    subset: InfoSubset,
    norm_empty: bool,
}

fn fresh_tok<'a>(dic: Dic<'a>, mode: Mode, req: Option<u32>) -> StatefulTokenizer<Dic<'a>> {
    let mut t = StatefulTokenizer::new(dic, mode);
    if let Some(b) = req {
        t.set_subset(InfoSubset::from_bits_truncate(b));
    }
    t
}

fn fresh_facts(dic: Dic, text: &str, mode: Mode, req: Option<u32>) -> Option<Fresh> {
    // ---- input stages on a fresh buffer
    let plugs = catch(|| -> Option<Vec<String>> {
        let mut plugs = vec![];
        let mut buf = InputBuffer::new();
        buf.reset().push_str(text);
        if buf.start_build().is_ok() {
            for p in dic.input_text_plugins() {
                let before = buf.verif_tables();
                let r = p.rewrite(&mut buf);
                let after = buf.verif_tables();
                let u = p.uses_chars() as u8;
                match r {
                    Err(SudachiError::InputTooLong(_, _)) => {
                        plugs.push(format!("{}t{}~{}", u, after.modified_2_len, after.m2o_2.len()));
                        break;
                    }
                    Err(_) => return None,
                    Ok(()) => {
                        let edited = after.modified != before.modified || after.m2o != before.m2o || after.m2o_2 != before.m2o_2
                            || after.modified_2_len != before.modified_2_len
                            || (u == 1 && !after.modified.is_empty() && after.mod_chars.is_empty())
                            || (u == 0 && !before.mod_chars.is_empty() && after.mod_chars.is_empty());
                        if edited {
                            plugs.push(format!("{}e{}~{}", u, rle(&after.modified), after.m2o.len()));
                        } else {
                            plugs.push(format!("{}n", u));
                        }
                    }
                }
            }
        }
        Some(plugs)
    });
    let plugs = match plugs { Ok(Some(p)) => p, _ => return None };
    // ---- whole analysis on a fresh tokenizer
    let mut tok = fresh_tok(dic, mode, req);
    let r = catch(|| {
        tok.reset().push_str(text);
        tok.do_tokenize()
    });
    let st = tok.verif_state();
    let outcome = match &r {
        Ok(Ok(())) => "ok".to_string(),
        Ok(Err(e)) => out_class(e),
        Err(_) => {
            if st.2.is_some() { return None; } // a panic before the path was taken: another property's business
            "PANIC".to_string()
        }
    };
    let tables = tok.verif_input().verif_tables();
    let lat = tok.verif_lattice();
    let rows = lat.verif_rows();
    let size = lat.verif_size();
    let eos = lat.verif_eos();
    let nc = tables.mod_chars.len();
    let reached_lattice = tables.state == 2 && !tables.modified.is_empty();
    let cands = if !reached_lattice || nc == 0 { "-".to_string() } else {
        let mut per: Vec<Vec<usize>> = vec![vec![]; nc];
        for row in rows.iter() {
            for n in row.iter() {
                if n.0 < nc { per[n.0].push(n.1); }
            }
        }
        per.iter().map(|v| join(v.iter(), ",")).collect::<Vec<_>>().join(";")
    };
    let norm_empty = tables.state == 2 && tables.modified.is_empty();
    let subset = st.3;
    let mut ids: Option<Vec<u64>> = None;
    let toks = if outcome == "ok" {
        let c = catch(|| {
            let mut ml = MorphemeList::empty(dic);
            match ml.collect_results(&mut tok) {
                Err(e) => (Err(out_class(&e)), None),
                Ok(()) => { let ids = node_ids(&ml); (Ok(toks_of(&ml)), Some(ids)) }
            }
        });
        Some(match c { Ok((x, i)) => { ids = i; x }, Err(p) => {
            // reading the morphemes panics (word info of a broken dictionary): the node identities do not need them
            let i = catch(|| { let mut t2 = fresh_tok(dic, mode, req); t2.reset().push_str(text); let _ = t2.do_tokenize(); let mut ml = MorphemeList::empty(dic); let _ = ml.collect_results(&mut t2); node_ids(&ml) });
            ids = i.ok();
            Err(format!("PANIC {}", p))
        } })
    } else { None };
    let tail = match (outcome.as_str(), st.2) {
        ("ok", Some(n)) if reached_lattice => match &ids { Some(v) if v.len() == n => enc_nodes(v), _ => format!("p{}", n) },
        (_, None) if outcome == "PANIC" => "x".to_string(),
        (_, None) => "f".to_string(),
        _ => "-".to_string(),
    };
    let enc = format!(
        "A:{}:{}:{}:{}:{}",
        rle(text), if plugs.is_empty() { "-".to_string() } else { plugs.join(",") }, eos.is_some() as u8, tail, cands
    );
    Some(Fresh { enc, outcome, tables, rows, size, eos, path_len: st.2, toks, subset, norm_empty })
}

fn lens_of(t: &VerifTables) -> String {
    join([t.original.len(), t.modified.len(), t.modified_2_len, t.m2o.len(), t.m2o_2.len(), t.mod_chars.len(), t.mod_c2b.len(),
        t.mod_b2c.len(), t.mod_bow.len(), t.mod_cat.len(), t.mod_cat_continuity.len(), t.replaces_len, t.state as usize].iter(), ",")
}

fn dump(tok: &StatefulTokenizer<Dic>, lists: &[MorphemeList<Dic>], outcome: &str) -> String {
    let t = tok.verif_input().verif_tables();
    let st = tok.verif_state();
    let lat = tok.verif_lattice();
    let rl = lat.verif_row_lens();
    let (mut se, mut sf, mut si) = (0usize, 0usize, 0usize);
    let mut h: u64 = 7;
    for (a, b, c) in rl.iter() {
        se += a; sf += b; si += c;
        h = (h * 1000003 + (*a as u64) * 10007 + (*b as u64) * 101 + (*c as u64) + 1) % 2147483647;
    }
    let ls = if lists.is_empty() { "-".to_string() } else {
        lists.iter().map(|l| {
            let o = catch(|| l.surface().len());
            format!("{}.{}.{}.{}", l.len(), l.subset().bits(), match o { Ok(n) => n.to_string(), Err(_) => "c".to_string() }, hash_nodes(&node_ids(l)))
        }).collect::<Vec<_>>().join(",")
    };
    format!(
        "{};i={};t={},{},{},{},{};l={},{},{},{},{},{},{},{},{};m={}",
        outcome, lens_of(&t), st.0, st.1, st.2.map_or("-".to_string(), |n| n.to_string()), st.3.bits(), mode_num(st.4),
        lat.verif_size(), lat.verif_eos().is_some() as u8, rl.len(), rl.len(), rl.len(), se, sf, si, h, ls
    )
}

fn cmp_tables(a: &VerifTables, b: &VerifTables) -> Option<String> {
    macro_rules! f { ($n:ident) => { if a.$n != b.$n { return Some(stringify!($n).to_string()); } } }
    f!(original); f!(modified); f!(m2o); f!(mod_chars); f!(mod_c2b); f!(mod_b2c); f!(mod_bow); f!(mod_cat);
    f!(mod_cat_continuity); f!(state);
    if a.state == 2 && a.m2o_2 != b.m2o_2 { return Some("m2o_2".into()); }
    None
}

/// boundaries, word identity and the REQUESTED fields (`req` = the fresh tokenizer's subset, i.e. the
/// normalised field request; earlier mode changes legitimately leave extra fields loaded in the reused one)
fn cmp_toks(a: &[Tok], b: &[Tok], req: InfoSubset) -> Option<String> {
    if a.len() != b.len() { return Some(format!("count:{}vs{}", a.len(), b.len())); }
    for (x, y) in a.iter().zip(b) {
        macro_rules! f { ($n:ident) => { if x.$n != y.$n { return Some(stringify!($n).to_string()); } } }
        f!(begin); f!(end); f!(begin_c); f!(end_c); f!(surface); f!(word_id); f!(dict_id); f!(is_oov); f!(total_cost);
        if req.contains(InfoSubset::POS_ID) { f!(pos_id); f!(pos); }
        if req.contains(InfoSubset::NORMALIZED_FORM) { f!(norm); }
        if req.contains(InfoSubset::DIC_FORM_WORD_ID | InfoSubset::SURFACE) { f!(dict_form); }
        if req.contains(InfoSubset::READING_FORM) { f!(reading); }
        if req.contains(InfoSubset::SURFACE) { f!(wi_surface); }
        if req.contains(InfoSubset::HEAD_WORD_LENGTH) { f!(head_len); }
        // the unit lists and structure a tokenizer created now would load (also those of the modes it is NOT in: on-demand
        // split_into in another mode reads them)
        if req.contains(InfoSubset::SPLIT_A) { f!(a_split); }
        if req.contains(InfoSubset::SPLIT_B) { f!(b_split); }
        if req.contains(InfoSubset::WORD_STRUCTURE) { f!(wstruct); }
        if req.contains(InfoSubset::SYNONYM_GROUP_ID) { f!(syn); }
    }
    None
}

pub struct Special {
    pub wd: Workdir,
    pub dic: JapaneseDictionary,
    pub desc: String,
    pub has_default: bool,
    pub words: Vec<String>,
    pub bad_text: Option<String>,
}

/// directed dictionaries
fn special_world(kind: usize, tag: &str) -> Result<Special, String> {
    let wd = Workdir::new(tag);
    let pos = default_pos();
    match kind {
        // PANIC after the path was taken.  (The D6-shaped split `東` -> 東京都/京 used here until D6 was repaired
        // in the repository - 03842e3 - no longer panics.)  D8-shaped, `U<n>` flavour: a USER dictionary row declares
        // its dictionary form as user word n; the raw id (dictionary bits included) is used as an index into the
        // user lexicon and word-info parsing PANICS (range start index out of range) inside resolve_best_path
        0 => {
            let mut rows = vec![];
            for i in 0..40 {
                let c = "あいうえおかきくけこ".chars().nth(i % 10).unwrap().to_string();
                rows.push(Row::simple(&c.repeat(1 + i / 10), 0, 0, 100, NOUN));
            }
            let sys = build_system(csv_of(&rows, &pos).as_bytes(), b"1 1\n0 0 0\n")?;
            let cfg = config_json(&wd, &[], &[simple_oov_json(0, 0, 5000)], &[], &[]);
            let base = load(&cfg, sys.clone(), vec![])?;
            // `U<k>` panicked before the repair of D8's first half (e034f1e); a plain id beyond the user lexicon still does
            let forms: Vec<String> = (0..4).map(|k| format!("U{}", k)).chain((0..60).map(|k| k.to_string())).collect();
            for k in forms {
                let mut r = Row::simple("東京", 0, 0, 10, NOUN);
                r.dic_form = k.clone();
                let mut urows = vec![r];
                for j in 0..3 { urows.push(Row::simple(&format!("都{}", j), 0, 0, 10, NOUN)); }
                let ub = match build_user(&base, csv_of(&urows, &pos).as_bytes()) { Ok(b) => b, Err(_) => continue };
                let dic = match load(&cfg, sys.clone(), vec![ub]) { Ok(d) => d, Err(_) => continue };
                let hit = {
                    let mut tok = StatefulTokenizer::new(&dic, Mode::C);
                    let r = catch(|| { tok.reset().push_str("東京"); tok.do_tokenize() });
                    r.is_err() && tok.verif_state().2.is_none()
                };
                if hit {
                    return Ok(Special { wd, dic, desc: format!("special:user-dicform-panic-{}", k), has_default: false, words: vec!["あ".into(), "都1".into(), "ああ".into()], bad_text: Some("東京".into()) });
                }
            }
            Err("no user dictionary form produced a panic after the path was taken".into())
        }
        // plain dictionary with the default input plugin (normalisation expands) and splits
        1 => {
            let mut rows = vec![Row::simple("東京", 0, 0, 100, NOUN), Row::simple("都", 0, 0, 100, NOUN), Row::simple("東京都", 0, 0, 50, NOUN), Row::simple("あ", 0, 0, 100, NOUN)];
            rows[2].mode = 'B';
            rows[2].split_a = "0/1".into();
            let sys = build_system(csv_of(&rows, &pos).as_bytes(), b"1 1\n0 0 0\n")?;
            let inp = vec![r#"{"class":"com.worksap.nlp.sudachi.DefaultInputTextPlugin","rewriteDef":"rewrite.def"}"#.to_string()];
            let cfg = config_json(&wd, &inp, &[simple_oov_json(0, 0, 5000)], &[], &[]);
            let dic = load(&cfg, sys, vec![])?;
            Ok(Special { wd, dic, desc: "special:default+splits".into(), has_default: true, words: vec!["東京都".into(), "東京".into(), "あ".into()], bad_text: None })
        }
        // D8-shaped: a USER dictionary row declares a dictionary form by a system id; the id is used as an index into
        // the user lexicon, word-info parsing returns Err(InvalidUtf16FromNom) AFTER the path was taken (no panic)
        3 => {
            let mut rows = vec![];
            for i in 0..40 {
                let c = "あいうえおかきくけこ".chars().nth(i % 10).unwrap().to_string();
                rows.push(Row::simple(&c.repeat(1 + i / 10), 0, 0, 100, NOUN));
            }
            let sys = build_system(csv_of(&rows, &pos).as_bytes(), b"1 1\n0 0 0\n")?;
            let cfg = config_json(&wd, &[], &[simple_oov_json(0, 0, 5000)], &[], &[]);
            let base = load(&cfg, sys.clone(), vec![])?;
            for k in 0..40 {
                let mut r = Row::simple("東京", 0, 0, 10, NOUN);
                r.dic_form = k.to_string();
                let mut urows = vec![r];
                for j in 0..3 { urows.push(Row::simple(&format!("都{}", j), 0, 0, 10, NOUN)); }
                let ub = match build_user(&base, csv_of(&urows, &pos).as_bytes()) { Ok(b) => b, Err(_) => continue };
                let dic = match load(&cfg, sys.clone(), vec![ub]) { Ok(d) => d, Err(_) => continue };
                let hit = {
                    let mut tok = StatefulTokenizer::new(&dic, Mode::C);
                    let r = catch(|| { tok.reset().push_str("東京"); tok.do_tokenize() });
                    matches!(r, Ok(Err(_))) && tok.verif_state().2.is_none()
                };
                if hit {
                    return Ok(Special { wd, dic, desc: format!("special:user-dicform-{}", k), has_default: false, words: vec!["あ".into(), "都1".into(), "ああ".into()], bad_text: Some("東京".into()) });
                }
            }
            Err("no user dictionary form id produced an Err after the path was taken".into())
        }
        // no fallback provider: only a regex OOV provider for ASCII digits -> anything else disconnects
        _ => {
            let rows = vec![Row::simple("あ", 0, 0, 100, NOUN), Row::simple("あい", 0, 0, 100, NOUN)];
            let sys = build_system(csv_of(&rows, &pos).as_bytes(), b"1 1\n0 0 0\n")?;
            let oov = format!(
                r#"{{"class":"com.worksap.nlp.sudachi.RegexOovProvider","regex":"[0-9]+","leftId":0,"rightId":0,"cost":100,"oovPOS":{},"maxLength":8,"boundaries":"relaxed"}}"#,
                OOV_POS_JSON
            );
            let cfg = config_json(&wd, &[], &[oov], &[], &[]);
            let dic = load(&cfg, sys, vec![])?;
            Ok(Special { wd, dic, desc: "special:no-fallback".into(), has_default: false, words: vec!["あ".into(), "あい".into(), "12".into()], bad_text: Some("あいう".into()) })
        }
    }
}

struct Ctx<'a> {
    /// field bits every request must contain: what the configured path-rewrite plugins read (JoinNumeric: POS id and
    /// normalised form) - the property restricts field requests to those covering them
    must: u32,
    dic: Dic<'a>,
    has_default: bool,
    words: Vec<String>,
    bad_text: Option<String>,
    /// `bad_text` fails AFTER resolve_best_path took the result path (Err or panic): such analyses are generated more
    /// often and are often followed by an empty text (the one continuation on which `top_path = None` is visible)
    after_take: bool,
    world: Option<&'a World>,
}

fn gen_analyse_text(rng: &mut Rng, c: &Ctx, thorough: bool) -> (String, &'static str) {
    let word = |rng: &mut Rng| -> String { if c.words.is_empty() { "あ".to_string() } else { rng.pick(&c.words).clone() } };
    if c.after_take && rng.chance(1, 6) {
        if let Some(b) = &c.bad_text { return (format!("{}{}", if rng.chance(1, 2) { word(rng) } else { String::new() }, b), "bad"); }
    }
    let k = rng.below(100);
    let short = |rng: &mut Rng, n: usize| -> String {
        match c.world {
            Some(w) => gen_text(rng, w, n),
            None => { let k = rng.below(n + 1); (0..k).map(|_| if rng.chance(2, 3) { word(rng) } else { rng.pick(TEXT_CHARS).to_string() }).collect() }
        }
    };
    if k < 12 { return (String::new(), "empty"); }
    if k < 50 { return (short(rng, 10), "short"); }
    if k < 72 {
        let reps = rng.range(3, 10);
        return ((0..reps).map(|_| short(rng, 12)).collect(), "longer");
    }
    if k < 78 { return (if rng.chance(1, 2) { "a".repeat(49150 + rng.below(3)) } else { "あ".repeat(16384) }, "overlong"); }
    if k < 84 {
        if c.has_default {
            let unit = *rng.pick(&["㍿", "\u{fdfa}"]);
            let n = match unit { "\u{fdfa}" => 2100, _ => 5600 } + rng.below(50);
            let pre = if rng.chance(1, 2) { word(rng) } else { String::new() };
            return (format!("{}{}", pre, unit.repeat(n)), "overlong-normalised");
        }
        return (short(rng, 10), "short");
    }
    if k < 92 {
        if let Some(b) = &c.bad_text { return (format!("{}{}", if rng.chance(1, 2) { word(rng) } else { String::new() }, b), "bad"); }
        return (format!("{}\u{378}\u{7}𠮷Ω", short(rng, 4)), "odd");
    }
    // texts AT the limits: 49149 raw bytes (16383 three-byte characters), and - with the default input plugin - up to 65535
    // bytes after normalisation (㍿ -> 株式会社: 5461 units = 65532 bytes, a prefix of 0..5 ASCII letters straddles the
    // limit).  The executed Lean model keeps the lattice rows in arrays (Model/RecycleFast.lean, proved equal to the
    // list model), so these cost milliseconds; in the quick tier every fifth draw of this slot takes one.
    if k < 94 && (thorough || rng.chance(1, 5)) {
        if c.has_default && rng.chance(1, 3) {
            let n = 5400 + rng.below(62);
            return (format!("{}{}", "a".repeat(rng.below(6)), "㍿".repeat(n)), "long-normalised");
        }
        return ("あ".repeat(16383 - rng.below(2)), "at-limit");
    }
    if k < 97 { let reps = rng.range(30, 60); return ((0..reps).map(|_| short(rng, 8)).collect(), "long"); }
    (word(rng), "word")
}

fn gen_history(rng: &mut Rng, c: &Ctx, thorough: bool) -> Vec<Op> {
    let n = rng.range(3, 12);
    let mut ops = vec![];
    let mut nlists = 0usize;
    let subsets: [u32; 8] = [0x3ff, 0, 4, 1, 0x20, 0x10, 0xC0 | 4, 0x2ff];
    while ops.len() < n {
        match rng.below(20) {
            0 | 1 => ops.push(Op::SetMode(rng.below(3))),
            2 => ops.push(Op::SetSubset(c.must | if rng.chance(1, 3) { (rng.next() & 0x3ff) as u32 } else { *rng.pick(&subsets) })),
            3 => { ops.push(Op::NewList); nlists += 1; }
            4 if nlists > 0 => { ops.push(Op::EmptyClone(rng.below(nlists))); nlists += 1; }
            5 if nlists > 0 => ops.push(Op::Clear(rng.below(nlists))),
            6 | 7 if nlists > 1 => {
                let i = rng.below(nlists);
                let mut j = rng.below(nlists);
                if j == i { j = (j + 1) % nlists; }
                ops.push(Op::Split(i, rng.below(1000), rng.range(1, 2), j));
            }
            8 if nlists > 0 => {
                let q = if rng.chance(1, 12) { "a".repeat(49151) } else if c.words.is_empty() { "あ".into() } else { rng.pick(&c.words).clone() };
                ops.push(Op::Lookup(rng.below(nlists), q));
            }
            9 if nlists > 0 => ops.push(Op::Collect(rng.below(nlists))),
            _ => {
                let (t, kind) = gen_analyse_text(rng, c, thorough);
                ops.push(Op::Analyse(t));
                if rng.chance(3, 5) {
                    if nlists == 0 || rng.chance(1, 5) { ops.push(Op::NewList); nlists += 1; }
                    ops.push(Op::Collect(rng.below(nlists)));
                }
                if c.after_take && kind == "bad" && rng.chance(1, 2) {
                    // the path is taken and not given back: an empty text is the continuation that shows it
                    ops.push(Op::Analyse(String::new()));
                    if nlists > 0 && rng.chance(2, 3) { ops.push(Op::Collect(rng.below(nlists))); }
                }
            }
        }
    }
    // the probe
    let (t, _) = gen_analyse_text(rng, c, thorough);
    ops.push(Op::Analyse(t));
    if nlists == 0 || rng.chance(1, 3) { ops.push(Op::NewList); nlists += 1; }
    ops.push(Op::Collect(rng.below(nlists)));
    ops
}

fn directed(idx: usize) -> (usize, usize, Vec<Op>) {
    // (special world kind, initial mode, ops)
    let a = |s: &str| Op::Analyse(s.to_string());
    match idx {
        // the repository's own test `stateful_tokenizer::empty`: fresh tokenizer, empty text
        0 => (1, 0, vec![a(""), Op::NewList, Op::Collect(0)]),
        // failure AFTER the path was taken, then an empty text: Ok, but top_path is None -> collect panics
        1 => (0, 1, vec![a("あ都1"), Op::NewList, Op::Collect(0), a("東京"), a(""), Op::Collect(0)]),
        // same failure, then a non-empty text: recovers
        2 => (0, 1, vec![a("東京"), a("都1あ"), Op::NewList, Op::Collect(0)]),
        // longer then shorter then empty then longer, one reused list
        3 => (1, 0, vec![Op::NewList, a("東京都あああ東京都東京あ"), Op::Collect(0), a("あ"), Op::Collect(0), a(""), Op::Collect(0), a("東京都あ"), Op::Collect(0)]),
        // over-long raw text, then a normal one
        4 => (1, 0, vec![a(&"あ".repeat(16384)), a("東京都"), Op::NewList, Op::Collect(0)]),
        // over-long after normalisation (㍿ -> 株式会社), then a normal one, then empty
        5 => (1, 0, vec![a(&"㍿".repeat(5600)), a("東京都㍿"), Op::NewList, Op::Collect(0), a(&format!("あ{}", "㍿".repeat(5600))), a(""), Op::Collect(0)]),
        // disconnect in the position loop, then fine
        6 => (2, 0, vec![a("あいあ12"), Op::NewList, Op::Collect(0), a("あいう"), a("う"), a("あ"), Op::Collect(0), a(""), Op::Collect(0)]),
        // field request then mode change: flags differ from a fresh tokenizer's, results must not
        7 => (1, 0, vec![Op::SetSubset(4), Op::SetMode(1), a("東京都あ"), Op::NewList, Op::Collect(0), Op::SetMode(0), a("東京都"), Op::Collect(0)]),
        // cross-used lists, split on demand, lookup, collect into the split target
        8 => (1, 0, vec![Op::NewList, Op::NewList, a("東京都あ"), Op::Collect(0), Op::Split(0, 0, 1, 1), a("あ東京都"), Op::Collect(1), Op::Lookup(0, "東京".into()), a("東京"), Op::Collect(0)]),
        // collect twice (swaps the stale result back), clear, empty clone
        9 => (1, 2, vec![Op::NewList, a("東京都あ"), Op::Collect(0), Op::Collect(0), Op::EmptyClone(0), Op::Collect(1), Op::Clear(0), a("あ"), Op::Collect(1)]),
        // failing lookup leaves the shared buffer Clean; the tokenizer takes it over
        10 => (1, 0, vec![Op::NewList, Op::Lookup(0, "a".repeat(49151)), a("東京都"), Op::Collect(0), a("あ"), Op::Collect(0)]),
        // text at the length limit
        11 => (1, 0, vec![a(&format!("{}a", "𠮷".repeat(12287))), Op::NewList, Op::Collect(0), a("あ"), Op::Collect(0)]),
        // disconnect then empty then collect
        12 => (2, 0, vec![Op::NewList, a("あいう"), a(""), Op::Collect(0), a("あい"), Op::Collect(0)]),
        // mode changes between analyses, same list
        13 => (1, 0, vec![Op::NewList, a("東京都"), Op::Collect(0), Op::SetMode(1), a("東京都"), Op::Collect(0), Op::SetMode(2), a("東京都"), Op::Collect(0), Op::SetMode(0), a("東京都"), Op::Collect(0)]),
        // collect right after a failed analysis (stale swap), then go on
        14 => (2, 0, vec![Op::NewList, a("あ"), a("あいう"), Op::Collect(0), a("あい"), Op::Collect(0)]),
        // Err (not a panic) after the path was taken, through a dictionary that compiled and loaded; then an empty text
        15 => (3, 0, vec![Op::NewList, a("あ都1"), Op::Collect(0), a("東京"), a(""), Op::Collect(0), a("あ"), Op::Collect(0)]),
        _ => (1, 1, vec![Op::SetSubset(0), a("東京都あ"), Op::NewList, Op::Collect(0), Op::SetSubset(0x3ff), a("東京都あ"), Op::Collect(0)]),
    }
}

/// execute one history on the real objects; returns (payload, answer, oracle failures, flags)
fn exec(run: &mut Run, idx: usize, c: &Ctx, mode0: usize, ops: &[Op], desc: &str) {
    let dic = c.dic;
    let mut tok: StatefulTokenizer<Dic> = StatefulTokenizer::new(dic, mode_of(mode0));
    let mut lists: Vec<MorphemeList<Dic>> = vec![];
    let mut req: Option<u32> = None;
    let mut encs: Vec<String> = vec![];
    let mut states: Vec<String> = vec![];
    let mut fails: Vec<(String, String)> = vec![];
    // last analysis: fresh expectation, whether its result is still in the tokenizer
    let mut pending: Option<Fresh> = None;
    let mut analyses = 0usize;
    let mut prev_len: Option<usize> = None;
    let mut shrink = false;
    let mut fail_then_ok = false;
    let mut last_failed = false;
    // failures after resolve_best_path took the result path (top_path = None afterwards)
    let mut after_take = false;
    let mut after_take_then_empty = false;
    let mut after_take_then_nonempty = false;
    let mut hist: Vec<String> = vec![];
    for op in ops {
        match op {
            Op::SetMode(m) => {
                tok.set_mode(mode_of(*m));
                encs.push(format!("M:{}", m));
                states.push(dump(&tok, &lists, "ok"));
                hist.push(format!("set_mode({:?})", mode_of(*m)));
                pending = None;
            }
            Op::SetSubset(b) => {
                tok.set_subset(InfoSubset::from_bits_truncate(*b));
                req = Some(*b);
                encs.push(format!("S:{}", b));
                states.push(dump(&tok, &lists, "ok"));
                hist.push(format!("set_subset({:#x})", b));
                pending = None;
            }
            Op::NewList => {
                lists.push(MorphemeList::empty(dic));
                encs.push("N".into());
                states.push(dump(&tok, &lists, "ok"));
                hist.push("new_list".into());
            }
            Op::EmptyClone(j) => {
                let l = lists[*j].empty_clone();
                lists.push(l);
                encs.push(format!("E:{}", j));
                states.push(dump(&tok, &lists, "ok"));
                hist.push(format!("empty_clone({})", j));
            }
            Op::Clear(j) => {
                lists[*j].clear();
                encs.push(format!("X:{}", j));
                states.push(dump(&tok, &lists, "ok"));
                hist.push(format!("clear({})", j));
            }
            Op::Analyse(text) => {
                let mode = tok.mode();
                let fresh = match fresh_facts(dic, text, mode, req) {
                    Some(f) => f,
                    None => { run.bump("analysis-dropped(fresh panics before the path is taken)"); continue; }
                };
                let path_was_taken = tok.verif_state().2.is_none();
                let r = catch(|| {
                    tok.reset().push_str(text);
                    tok.do_tokenize()
                });
                let outcome = match &r { Ok(Ok(())) => "ok".to_string(), Ok(Err(e)) => out_class(e), Err(_) => "PANIC".to_string() };
                if outcome != "ok" && tok.verif_state().2.is_none() && (outcome == "PANIC" || outcome == "err:Other") {
                    after_take = true;
                    run.bump(&format!("analysis:failed-after-path-taken:{}", outcome));
                }
                if path_was_taken && outcome == "ok" {
                    if fresh.norm_empty { after_take_then_empty = true; } else { after_take_then_nonempty = true; }
                }
                let shown: String = if text.chars().count() > 24 { format!("{}…({} bytes)", text.chars().take(12).collect::<String>(), text.len()) } else { text.clone() };
                hist.push(format!("analyse({:?})={}", shown, outcome));
                encs.push(fresh.enc.clone());
                states.push(dump(&tok, &lists, &outcome));
                analyses += 1;
                run.bump(&format!("analysis:{}", outcome));
                if fresh.norm_empty { run.bump("analysis:normalised-empty"); }
                if outcome == "ok" && text.len() >= 49000 { run.bump("analysis:ok-at-raw-limit(>=49000 bytes)"); }
                if outcome == "ok" && fresh.tables.modified.len() >= 64000 { run.bump("analysis:ok-at-normalised-limit(>=64000 bytes)"); }
                if let Some(p) = prev_len { if text.len() < p { shrink = true; } }
                prev_len = Some(text.len());
                if last_failed && outcome == "ok" { fail_then_ok = true; }
                last_failed = outcome != "ok";
                // ---- oracle: this analysis is a probe
                if outcome != fresh.outcome {
                    fails.push(("c10:outcome".into(), format!("analysis #{} of {:?}: reused tokenizer {} but a fresh one {}", analyses, shown, outcome, fresh.outcome)));
                } else {
                    let t = tok.verif_input().verif_tables();
                    if let Some(f) = cmp_tables(&t, &fresh.tables) {
                        fails.push((format!("c10:tables:{}", f), format!("analysis #{} of {:?}: input table `{}` differs from a fresh tokenizer's", analyses, shown, f)));
                    } else if t.state == 2 && !t.modified.is_empty() {
                        let lat = tok.verif_lattice();
                        let rows = lat.verif_rows();
                        let size = lat.verif_size();
                        if size != fresh.size || lat.verif_eos() != fresh.eos || rows.len() < size || rows[..size] != fresh.rows[..fresh.size.min(fresh.rows.len())] {
                            fails.push(("c10:lattice".into(), format!("analysis #{} of {:?}: lattice rows below size / eos differ from a fresh tokenizer's", analyses, shown)));
                        }
                    }
                    if outcome == "ok" && tok.verif_state().2 != fresh.path_len {
                        let key = if tok.verif_state().2.is_none() && fresh.norm_empty { "c10:toppath-none:empty-text-while-path-taken" } else { "c10:path" };
                        fails.push((key.into(), format!("analysis #{} of {:?}: result path {:?} vs fresh {:?}", analyses, shown, tok.verif_state().2, fresh.path_len)));
                    }
                }
                pending = if outcome == "ok" { Some(fresh) } else { None };
            }
            Op::Collect(j) => {
                let had_none = tok.verif_state().2.is_none();
                let r = catch(|| lists[*j].collect_results(&mut tok));
                let outcome = match &r { Ok(Ok(())) => "ok".to_string(), Ok(Err(e)) => out_class(e), Err(_) => "PANIC".to_string() };
                encs.push(format!("K:{}", j));
                states.push(dump(&tok, &lists, &outcome));
                hist.push(format!("collect({})={}", j, outcome));
                run.bump(&format!("collect:{}", outcome));
                if let Some(fr) = pending.take() {
                    // the analysis returned Ok: its result must be collectable and equal to the fresh one
                    if outcome != "ok" {
                        let key = if had_none && fr.norm_empty { "c10:collect-panic:empty-text-while-path-taken" } else { "c10:collect" };
                        fails.push((key.into(), format!("analysis returned Ok but collect_results {} (top_path was {}); a fresh tokenizer yields {:?}", outcome, if had_none { "None" } else { "Some" }, fr.toks.as_ref().map(|t| t.as_ref().map(|v| v.len())))));
                    } else {
                        let got = catch(|| toks_of(&lists[*j]));
                        match (got, fr.toks.as_ref()) {
                            (Ok(g), Some(Ok(w))) => {
                                if let Some(f) = cmp_toks(&g, w, fr.subset) {
                                    fails.push((format!("c10:toks:{}", f.split(':').next().unwrap_or("")), format!("collected morphemes differ from a fresh tokenizer's in `{}` (fresh subset {:#x}, reused {:#x})", f, fr.subset.bits(), lists[*j].subset().bits())));
                                }
                                let s = catch(|| lists[*j].surface().to_string());
                                if s.as_ref().ok() != Some(&fr.tables.original) {
                                    fails.push(("c10:surface".into(), "surface of the collected list differs from the analysed text".into()));
                                }
                            }
                            (Err(_), Some(Err(_))) => run.bump("collect:reading-panics-on-fresh-too"),
                            (Err(p), _) => fails.push(("c10:toks:panic".into(), format!("reading the collected morphemes panics: {}", p))),
                            (Ok(_), _) => fails.push(("c10:fresh-collect".into(), "fresh tokenizer could not collect".into())),
                        }
                    }
                }
            }
            Op::Split(i, pick, m, j) => {
                if lists[*i].len() == 0 { continue; }
                // prefer a morpheme that HAS a split in this mode (tried on a scratch clone of the list, which shares the
                // input part and leaves every object of the history untouched); otherwise the drawn index
                let n = lists[*i].len();
                let index = (0..n.min(12)).map(|d| (pick + d) % n).find(|&ix| {
                    catch(|| { let mut scratch = lists[*i].empty_clone(); matches!(lists[*i].split_into(mode_of(*m), ix, &mut scratch), Ok(true)) }).unwrap_or(false)
                }).unwrap_or(pick % n);
                let before = lists[*j].len();
                let r = {
                    let (src, dst): (&MorphemeList<Dic>, &mut MorphemeList<Dic>) = if i < j {
                        let (a, b) = lists.split_at_mut(*j);
                        (&a[*i], &mut b[0])
                    } else {
                        let (a, b) = lists.split_at_mut(*i);
                        (&b[0], &mut a[*j])
                    };
                    catch(|| src.split_into(mode_of(*m), index, dst))
                };
                let outcome = match &r { Ok(Ok(_)) => "ok".to_string(), Ok(Err(e)) => out_class(e), Err(_) => "PANIC".to_string() };
                if outcome == "PANIC" {
                    // another property's defect inside split(); the model has no such exit: skip the op, keep the observed state out
                    run.bump("split:panic(dropped)");
                    // the destination may hold partial output: stop the history here
                    break;
                }
                let k = lists[*j].len() - before;
                encs.push(format!("P:{}:{}:{}:{}:{}", i, index, m, j, enc_nodes(&node_ids(&lists[*j])[before..])));
                states.push(dump(&tok, &lists, &outcome));
                hist.push(format!("split_into({},{},{:?},{})+{}", i, index, mode_of(*m), j, k));
                run.bump(if k > 0 { "split:some" } else { "split:none" });
            }
            Op::Lookup(j, q) => {
                let before = lists[*j].len();
                let r = catch(|| lists[*j].lookup(q, InfoSubset::all()));
                let outcome = match &r { Ok(Ok(_)) => "ok".to_string(), Ok(Err(e)) => out_class(e), Err(_) => "PANIC".to_string() };
                if outcome == "PANIC" { run.bump("lookup:panic(dropped)"); break; }
                let k = lists[*j].len() - before;
                encs.push(format!("L:{}:{}:{}:{}{}", j, rle(q), enc_nodes(&node_ids(&lists[*j])[before..]), (outcome == "ok" || outcome == "err:TooLong") as u8, if impl_lookup_sets_subset() { ":S" } else { "" }));
                states.push(dump(&tok, &lists, &outcome));
                hist.push(format!("lookup({},{} bytes)={}", j, q.len(), outcome));
                run.bump(&format!("lookup:{}", outcome));
            }
        }
    }
    run.bump(&format!("ops:{}", encs.len().min(16)));
    run.bump(&format!("analyses:{}", analyses.min(8)));
    if shrink { run.bump("history:longer-then-shorter"); }
    if fail_then_ok { run.bump("history:failure-then-ok"); }
    if after_take { run.bump("history:failure-after-path-taken"); }
    if after_take_then_empty { run.bump("history:path-taken-then-empty-text-ok"); }
    if after_take_then_nonempty { run.bump("history:path-taken-then-nonempty-text-ok"); }
    let payload = format!("mode={} reset_variant={} ops={}", mode0, impl_reset_variant(), encs.join("/"));
    let answer = format!("ok {}", states.join("|"));
    run.case(idx, "hist", &payload, &answer, analyses >= 2 && (shrink || fail_then_ok));
    let mut seen = std::collections::HashSet::new();
    for (k, w) in fails {
        if seen.insert(k.clone()) {
            run.fail(idx, &k, &format!("{} | world={} mode0={:?} history=[{}]", w, desc, mode_of(mode0), hist.join("; ")));
        }
    }
}

/// Python sessions: a history of `Tokenizer.tokenize(text, mode=, out=)` on ONE Python tokenizer through the built
/// extension, out lists reused.  Tie: the Lean model of the binding (`World.pyTokenize`) replays the calls and predicts,
/// after every call, raise / mode / length + word-id content of every list; oracle: every returned list equals what a
/// fresh Rust tokenizer yields for (text, effective mode), the mode is restored, the interpreter survives.
fn py_session(run: &mut Run, idx: usize, w: &World, rng: &mut Rng) {
    let root = std::env::var("VERIF_ROOT").unwrap_or_else(|_| "/verif".to_string());
    let pkg = format!("{}/.build/py/pkg", root);
    if !std::path::Path::new(&pkg).join("sudachipy").exists() { run.bump("python-extension-not-built(session skipped)"); return; }
    w.wd.write("cfg.json", &w.cfg.replacen("{", &format!("{{\"systemDict\":\"system.dic\",\"userDict\":[{}],", (0..w.user_bins.len()).map(|i| format!("\"user{}.dic\"", i)).collect::<Vec<_>>().join(",")), 1));
    std::fs::write(w.wd.path.join("system.dic"), &w.system_bin).unwrap();
    for (i, u) in w.user_bins.iter().enumerate() { std::fs::write(w.wd.path.join(format!("user{}.dic", i)), u).unwrap(); }
    let dic = &w.dic;
    let mut words: Vec<String> = w.lex.rows.iter().map(|r| r.surface.clone()).collect();
    words.truncate(12);
    let c = Ctx { must: 0, dic, has_default: w.input_kinds.contains(&"default"), words, bad_text: None, after_take: false, world: Some(w) };
    let create_mode = rng.below(3);
    let names = ["C", "A", "B"];
    let n = rng.range(5, 10);
    let mut calls = vec![];
    let mut encs = vec![];
    let mut fresh_of: Vec<Fresh> = vec![];
    let mut nlists = 0usize;
    let mut hist = vec![];
    while calls.len() < n {
        let (mut text, _) = gen_analyse_text(rng, &c, false);
        // the replay of a Python session uses the list model: keep accepted texts moderate (rejected ones cost nothing)
        if text.len() <= 49149 && text.chars().count() > 300 { text = text.chars().take(300).collect(); }
        let ov = if rng.chance(2, 5) { Some(rng.below(3)) } else { None };
        let eff = ov.unwrap_or(create_mode);
        let fresh = match fresh_facts(dic, &text, mode_of(eff), None) { Some(f) => f, None => continue };
        let wids: Vec<u64> = match &fresh.toks { Some(Ok(v)) => v.iter().map(|t| t.word_id as u64).collect(), Some(Err(_)) => continue, None => vec![] };
        let mut f: Vec<String> = fresh.enc.split(':').map(|x| x.to_string()).collect();
        if f.len() != 6 { continue; }
        if f[4].starts_with('q') || f[4].starts_with('p') { f[4] = enc_nodes(&wids); }
        // mostly the SAME list again and again, sometimes another earlier one, sometimes a new one
        let out = if nlists > 0 && rng.chance(3, 4) { Some(if rng.chance(2, 3) { 0 } else { rng.below(nlists) }) } else { None };
        if fresh.outcome == "ok" && out.is_none() { nlists += 1; }
        encs.push(format!("{}@{}@{}", ov.map_or("-".to_string(), |m| m.to_string()), out.map_or("-".to_string(), |j| j.to_string()), f.join(":")));
        calls.push(serde_json::json!({"text": text, "mode": ov.map(|m| names[m]), "out": out}));
        hist.push(format!("tokenize({} bytes, mode={:?}, out={:?})", text.len(), ov.map(|m| names[m]), out));
        fresh_of.push(fresh);
    }
    let script = serde_json::json!({"pkg": pkg, "config": w.wd.path.join("cfg.json"), "resource_dir": w.wd.path, "mode": names[create_mode], "calls": calls});
    let spath = w.wd.path.join("c10_script.json");
    std::fs::write(&spath, serde_json::to_string(&script).unwrap()).unwrap();
    let outp = std::process::Command::new("python3").arg(format!("{}/pyharness/run_hist.py", root)).arg(&spath).output();
    run.bump("kind:python-session");
    run.bump_by("python-calls", calls.len() as u64);
    let payload = format!("mode={} fields=1023 reset_variant={} calls={}", create_mode, impl_reset_variant(), encs.join("/"));
    let key_line = format!("world={} create_mode={} history=[{}]", w.desc.join(" "), names[create_mode], hist.join("; "));
    let got: Vec<serde_json::Value> = match &outp { Ok(o) => String::from_utf8_lossy(&o.stdout).lines().filter_map(|l| serde_json::from_str(l).ok()).collect(), Err(_) => vec![] };
    let done = got.last().map_or(false, |v| v.get("done").is_some());
    if outp.is_err() || !done || got.len() != calls.len() + 1 {
        run.case(idx, "pysess", &payload, "crash", false);
        let err = outp.as_ref().map(|o| String::from_utf8_lossy(&o.stderr).chars().rev().take(300).collect::<String>().chars().rev().collect::<String>()).unwrap_or_default();
        run.fail(idx, "c10:py:crash", &format!("the interpreter did not survive the session ({} of {} answers): {} | {}", got.len(), calls.len(), err, key_line));
        return;
    }
    let mut states = vec![];
    let mut fails: Vec<(String, String)> = vec![];
    for (k, g) in got.iter().take(calls.len()).enumerate() {
        let fr = &fresh_of[k];
        let oc = g["outcome"].as_str().unwrap_or("?").to_string();
        let mode = g["mode"].as_str().unwrap_or("?");
        let lists = g["lists"].as_array().cloned().unwrap_or_default();
        let ls = if lists.is_empty() { "-".to_string() } else {
            lists.iter().map(|l| { let ids: Vec<u64> = l[1].as_array().map(|a| a.iter().map(|x| x.as_u64().unwrap_or(0)).collect()).unwrap_or_default(); format!("{}.{}", l[0], hash_nodes(&ids)) }).collect::<Vec<_>>().join(",")
        };
        states.push(format!("{};{};{}", oc, names.iter().position(|x| *x == mode).map_or("?".to_string(), |p| p.to_string()), ls));
        run.bump(&format!("python:{}", oc));
        let want = if fr.outcome == "ok" { "ok" } else if fr.outcome == "PANIC" { "PANIC" } else { "err" };
        if oc != want { fails.push(("c10:py:outcome".into(), format!("call #{}: Python {} ({}) but a fresh Rust tokenizer {}", k, oc, g["exc"], fr.outcome))); continue; }
        if mode != names[create_mode] { fails.push(("c10:py:mode".into(), format!("call #{}: tokenizer mode {} after the call, created with {}", k, mode, names[create_mode]))); }
        if g.get("out_identity").is_some() { fails.push(("c10:py:out-identity".into(), format!("call #{}: the returned list is not the `out` list", k))); }
        if g.get("lists_exc").is_some() { fails.push(("c10:py:stale-list-unreadable".into(), format!("call #{}: reading len/word ids of the result lists raised {}", k, g["lists_exc"]))); }
        if oc == "ok" {
            if let Some(Ok(exp)) = &fr.toks {
                let ms = g["ms"].as_array().cloned().unwrap_or_default();
                let same = ms.len() == exp.len() && ms.iter().zip(exp).all(|(m, t)| {
                    // Python offsets are code points
                    m[0].as_u64() == Some(t.begin_c as u64) && m[1].as_u64() == Some(t.end_c as u64) && m[2].as_str() == Some(&t.surface) && m[3].as_u64() == Some(t.word_id as u64)
                        && m[4].as_str() == Some(&t.norm) && m[5].as_str() == Some(&t.dict_form) && m[6].as_str() == Some(&t.reading)
                });
                if !same { fails.push(("c10:py:toks".into(), format!("call #{}: morphemes returned by the reused Python tokenizer/out list differ from a fresh Rust tokenizer's ({} vs {} morphemes)", k, ms.len(), exp.len()))); }
            }
        }
    }
    run.case(idx, "pysess", &payload, &format!("ok {}", states.join("|")), calls.len() >= 3);
    let mut seen = std::collections::HashSet::new();
    for (k, wh) in fails { if seen.insert(k.clone()) { run.fail(idx, &k, &format!("{} | {}", wh, key_line)); } }
}

pub fn run(run: &mut Run) {
    run.rule = "histories of 3..12 calls {set_mode, set_subset, analyse(empty/short/longer/long/over-long raw/over-long after \
normalisation/disconnecting/failing after the path was taken), collect into a reused, cross-used or new list, new list, empty \
clone, clear, on-demand split_into, lookup (also failing)} + a final analyse+collect on ONE tokenizer over random worlds (with and \
without fallback OOV provider) and four directed dictionaries (two of them fail AFTER the result path was taken: user dictionary \
with a dictionary-form id -> Err, with a U<n> dictionary form -> panic; there every 6th analysis is such a failure and every \
second one is followed by an empty text); every analysis is compared with a fresh tokenizer (outcome, all input \
tables, lattice rows below size, morphemes after collect); non-trivial = at least 2 analyses with a longer-then-shorter pair or a \
failure followed by a success; distinct by line".into();
    let n = run.opts.count;
    let thorough = run.opts.thorough;
    start_watchdog(run.opts.out.clone(), run.opts.seed, run.prop.clone());
    run.extra.insert("model_instance_reset_variant".into(), serde_json::json!(impl_reset_variant()));
    let mut cur_world: Option<(usize, Result<World, String>)> = None;
    let mut specials: Vec<Option<Result<Special, String>>> = vec![None, None, None, None];
    let mut hpipe: Option<HPipeCtx> = None;
    for idx in 0..n {
        if !run.wants(idx) { continue; }
        let mut rng = Rng::for_case(run.opts.seed, idx);
        // every 9th generated case runs on a directed dictionary (failure after take / expansion / no fallback)
        let special_kind = if idx < DIRECTED { Some(directed(idx).0) } else if idx % 9 == 0 { Some(rng.below(4)) } else { None };
        if let Some(kind) = special_kind {
            if specials[kind].is_none() {
                specials[kind] = Some(special_world(kind, &format!("{}-s{}", run.prop, kind)));
            }
            let sp = match specials[kind].as_ref().unwrap() {
                Ok(s) => s,
                Err(e) => { run.bump(&format!("special-world-error:{}", e.chars().take(60).collect::<String>())); continue; }
            };
            // in the user-dictionary world the failure itself depends on which fields are parsed: pin the request to all fields
            let c = Ctx { must: if kind == 3 || kind == 0 { 0x3ff } else { 0 }, dic: &sp.dic, has_default: sp.has_default, words: sp.words.clone(), bad_text: sp.bad_text.clone(), after_take: kind == 3 || kind == 0, world: None };
            let (mode0, ops) = if idx < DIRECTED { let d = directed(idx); (d.1, d.2) } else { (rng.below(3), gen_history(&mut rng, &c, thorough)) };
            run.bump(&sp.desc.clone());
            let desc = sp.desc.clone();
            arm(idx);
            exec(run, idx, &c, mode0, &ops, &desc);
            disarm();
            continue;
        }
        if idx >= DIRECTED && idx % 10 == 3 {
            if hpipe.is_none() { hpipe = Some(hpipe_ctx()); }
            arm(idx);
            hpipe_case(run, idx, &mut rng, hpipe.as_ref().unwrap());
            disarm();
            continue;
        }
        let widx = (idx - DIRECTED) / PER_WORLD;
        if cur_world.as_ref().map(|w| w.0) != Some(widx) {
            cur_world = None;
            let mut wr = Rng::for_case(run.opts.seed ^ 0x1010_1010, widx);
            let opts = WorldOpts { always_fallback: widx % 3 != 1, ..WorldOpts::default() };
            cur_world = Some((widx, gen_world(&mut wr, &format!("{}-w{}", run.prop, widx), &opts)));
        }
        let w = match &cur_world.as_ref().unwrap().1 {
            Ok(w) => w,
            Err(e) => { run.bump(&format!("world-error:{}", e.chars().take(50).collect::<String>())); continue; }
        };
        if idx % 125 == 57 {
            arm(idx);
            py_session(run, idx, w, &mut rng);
            disarm();
            continue;
        }
        let mut words: Vec<String> = w.lex.rows.iter().map(|r| r.surface.clone()).collect();
        words.truncate(12);
        let c = Ctx { must: if w.has_path_rewrite { 0xC } else { 0 }, dic: &w.dic, has_default: w.input_kinds.contains(&"default"), words, bad_text: None, after_take: false, world: Some(w) };
        let ops = gen_history(&mut rng, &c, thorough);
        for d in &w.desc { run.bump(d); }
        run.bump(if w.has_fallback { "world:fallback" } else { "world:no-fallback" });
        let desc = w.desc.join(" ");
        arm(idx);
        exec(run, idx, &c, rng.below(3), &ops, &desc);
        disarm();
    }
}

// ------------------------------------------------------------------------------------------------
// op `hpipe`: the CONCRETE pipeline under recycling (Model/RecycleTotal.lean)
//
// World = a C03 `pipe` world (C13 char.def / unk.def / provider stack / lexicon, C07 input-text plugin stack, random matrix,
// A/B split declarations; the same tokens as a `C03 pipe` line).  History = 3..6 texts with a mode each, analysed by ONE real
// tokenizer and collected into ONE result list.  The driver replays the history on `Recycle.World` with the payload
// `RecycleTotal.payload` (the phases of `Total.tokenize`) and answers the morphemes (node ranges) the list shows after every
// analysis; `sim=1` says that every analysis also equals `Total.tokenize` on a new tokenizer (`RecycleTotal.bridgeHolds`).
// Oracle: every analysis equals the analysis of a newly created tokenizer + list.

pub struct HPipeCtx { c13: crate::c13::Ctx }

pub fn hpipe_ctx() -> HPipeCtx {
    let wd = Workdir::new_legacy("c10-hpipe");
    let system = build_system(csv_of(&crate::c13::fixed_rows(), &default_pos()).as_bytes(), Matrix::random(&mut Rng::new(77), crate::c13::N_IDS, crate::c13::N_IDS, false).text().as_bytes()).expect("system dictionary");
    wd.write("unk.def", "");
    wd.write("char.def", "DEFAULT 0 1 0\n");
    let poslist_hex = {
        let dic = load(&config_json(&wd, &[], &[simple_oov_json(0, 0, 0)], &[], &[]), system.clone(), vec![]).expect("baseline dictionary");
        let s: String = dic.grammar().pos_list.iter().map(|p| format!("{}\n", p.join(","))).collect();
        hex(s.as_bytes())
    };
    HPipeCtx { c13: crate::c13::Ctx { wd, system, poslist_hex } }
}

/// A/B split declarations on some multi-character rows (well-formed ones: ill-formed declarations are C03/C09's subject)
fn hpipe_splits(rng: &mut Rng, lex: &mut Vec<Row>, pool: &[char]) -> Vec<String> {
    for _ in 0..rng.range(1, 2) {
        let nparts = rng.range(2, 3);
        let parts: Vec<String> = (0..nparts).map(|_| if lex.len() > POS.len() && rng.chance(1, 2) { lex[rng.range(POS.len(), lex.len() - 1)].surface.clone() } else { rand_word(rng, pool, 2) }).collect();
        let surface: String = parts.concat();
        if surface.chars().count() > 6 || lex.iter().any(|r| r.surface == surface) { continue; }
        lex.push(Row::simple(&surface, crate::c13::small_id(rng) as i32, crate::c13::small_id(rng) as i32, rng.below(400) as i32 - 450, rng.below(POS.len())));
    }
    let n0 = lex.len();
    let mut with_split: Vec<String> = vec![];
    let cands: Vec<usize> = (0..n0).rev().filter(|&i| lex[i].surface.chars().count() >= 2 && !lex[i].surface.starts_with('ん')).collect();
    for &i in cands.iter().take(4) {
        if rng.chance(1, 4) { continue; }
        let cs: Vec<char> = lex[i].surface.chars().collect();
        let cut = rng.range(1, cs.len() - 1);
        let parts: Vec<String> = vec![cs[..cut].iter().collect(), cs[cut..].iter().collect()];
        let mut ids = vec![];
        for p in &parts {
            let id = match lex.iter().position(|r| &r.surface == p) {
                Some(k) => k,
                None => { lex.push(Row::simple(p, crate::c13::small_id(rng) as i32, crate::c13::small_id(rng) as i32, rng.below(9000) as i32 - 500, rng.below(POS.len()))); lex.len() - 1 }
            };
            ids.push(id);
        }
        let decl = join(ids.iter(), "/");
        lex[i].mode = 'C';
        if rng.chance(2, 3) { lex[i].cost = rng.below(400) as i32 - 450; }
        with_split.push(lex[i].surface.clone());
        match rng.below(3) {
            0 => { lex[i].split_a = decl; }
            1 => { lex[i].split_b = decl; }
            _ => { lex[i].split_a = decl.clone(); lex[i].split_b = decl; }
        }
    }
    for i in 0..lex.len() {
        if let Some(k) = (0..i).find(|&k| lex[k].surface == lex[i].surface && lex[k].left == lex[i].left && lex[k].right == lex[i].right && lex[k].cost == lex[i].cost) {
            let (a, b, m) = (lex[k].split_a.clone(), lex[k].split_b.clone(), lex[k].mode);
            lex[i].split_a = a; lex[i].split_b = b; lex[i].mode = m;
        }
    }
    with_split
}

fn hpipe_unit_lens(lex: &[Row], decl: &str) -> String {
    if decl == "*" { return "-".into(); }
    join(decl.split('/').map(|x| lex[x.parse::<usize>().unwrap()].surface.len()), "+")
}

fn hpipe_split_variant() -> &'static str {
    let p = format!("{}/src/analysis/node.rs", crate::c07::repo_sudachi_dir());
    if std::fs::read_to_string(p).map(|s| s.contains(".min(self.byte_end as usize)")).unwrap_or(false) { "d6fix" } else { "cur" }
}

/// one analysis on the given tokenizer + list: `ok:<bc:ec:bb:eb,…>` | `err:<kind>` | `PANIC`
fn hpipe_analyse(tok: &mut StatefulTokenizer<std::sync::Arc<JapaneseDictionary>>, ml: &mut MorphemeList<std::sync::Arc<JapaneseDictionary>>, mode: Mode, text: &str) -> String {
    let r = catch(|| {
        tok.set_mode(mode);
        tok.reset().push_str(text);
        match tok.do_tokenize() {
            Err(e) => { let c = err_class(&e); format!("err:{}", if c.starts_with("Other") { "Other".to_string() } else { c }) }
            Ok(()) => match ml.collect_results(tok) {
                Err(_) => "collect:err:Other".to_string(),
                Ok(()) => {
                    let mut v = vec![];
                    for i in 0..ml.len() { let n = ml.get(i).verif_node_range(); v.push(format!("{}:{}:{}:{}", n.0, n.1, n.2, n.3)); }
                    format!("ok:{}", v.join(","))
                }
            },
        }
    });
    match r { Ok(s) => s, Err(_) => "PANIC".to_string() }
}

pub fn hpipe_case(run: &mut Run, idx: usize, rng: &mut Rng, pc: &HPipeCtx) {
    use crate::c13::Prov;
    let with_input = rng.chance(1, 2);
    let d = crate::c13::gen_defs(rng, with_input, false);
    let mut lc = crate::c13::gen_lat(rng, &d);
    let split_words = hpipe_splits(rng, &mut lc.lex, &d.pool);
    let mut c7 = crate::c07::gen_cfg(rng, None);
    if !with_input { c7.pipe.clear(); }
    let extreme_m = rng.chance(1, 4);
    let matrix = Matrix::random(rng, crate::c13::N_IDS, crate::c13::N_IDS, extreme_m);
    let mut extra: Vec<char> = crate::c13::NORMALISED.to_vec();
    if with_input {
        extra.extend(c7.pool.iter().take(4));
        extra.extend(c7.marks.iter().take(2));
        extra.extend(c7.yl.iter().take(1));
        extra.extend(c7.yr.iter().take(1));
        extra.extend(['ー', '漢', 'か']);
    }
    // the history: a longer text early, shorter ones later, an empty one, words with split declarations
    let k = rng.range(3, 6);
    let mut texts: Vec<(usize, String)> = vec![];
    for j in 0..k {
        let mut t = crate::c13::gen_text(rng, &d.pool, &extra);
        if j == 0 || rng.chance(1, 3) { t.push_str(&crate::c13::gen_text(rng, &d.pool, &extra)); for r in lc.lex.iter().rev().take(2) { t.push_str(&r.surface); } }
        if !split_words.is_empty() && rng.chance(2, 3) {
            let wds = rng.pick(&split_words).clone();
            let cs: Vec<char> = t.chars().collect();
            let at = rng.below(cs.len() + 1);
            t = cs[..at].iter().collect::<String>() + &wds + &cs[at..].iter().collect::<String>();
        }
        if j > 0 && rng.chance(1, 4) { let n = t.chars().count(); t = t.chars().take(rng.below(n + 1).min(3)).collect(); }
        if t.chars().count() > 40 { t = t.chars().take(40).collect(); }
        if rng.chance(1, 12) { t.clear(); }
        texts.push((rng.below(3), t));
    }
    let mode0 = rng.below(3);
    let wd = &pc.c13.wd;
    wd.write("char.def", &d.char_def);
    wd.write("unk.def", &d.unk_def);
    wd.write("rw.def", &c7.def_text);
    let oov: Vec<String> = lc.provs.iter().map(|p| match p { Prov::M => crate::c13::mecab_json(), Prov::S => crate::c13::simple_json(&lc.sp), Prov::R => crate::c13::regex_json(&lc.rp) }).collect();
    let mut input: Vec<String> = c7.pipe.iter().map(|&p| crate::c07::plugin_json(&c7, p)).collect();
    let kinds: Vec<&str> = lc.provs.iter().map(|p| match p { Prov::M => "m", Prov::S => "s", Prov::R => "r" }).collect();
    let mut ptoks = vec![];
    for (kd, p) in [("m", Prov::M), ("s", Prov::S), ("r", Prov::R)] {
        if kinds.contains(&kd) { ptoks.push(crate::c13::prov_tokens(&p, &d, &lc.sp, &lc.rp, &pc.c13)); }
    }
    let lex_tok = join(lc.lex.iter().map(|r| format!("{}:{}:{}:{}", join(r.surface.chars().map(|c| c as u32), "."), r.left, r.right, r.cost)), ";");
    let lexu_tok = join(lc.lex.iter().map(|r| format!("{}/{}", hpipe_unit_lens(&lc.lex, &r.split_a), hpipe_unit_lens(&lc.lex, &r.split_b))), ";");
    let mut cells = vec![];
    for b in 0..matrix.nr { for a in 0..matrix.nl { cells.push(matrix.cost(a, b) as i64); } }
    let system = match build_system(csv_of(&lc.lex, &default_pos()).as_bytes(), matrix.text().as_bytes()) {
        Ok(s) => s,
        Err(e) => { run.bump(&format!("hpipe:build-error:{}", e.chars().take(40).collect::<String>())); return; }
    };
    let mut loaded = load(&config_json(wd, &input, &oov, &[], &[]), system.clone(), vec![]);
    if let Err(e) = &loaded {
        if c7.pipe.contains(&'Y') && e.contains("IgnoreYomiganaPlugin") {
            c7.pipe.retain(|&p| p != 'Y');
            input = c7.pipe.iter().map(|&p| crate::c07::plugin_json(&c7, p)).collect();
            loaded = load(&config_json(wd, &input, &oov, &[], &[]), system, vec![]);
        }
    }
    let dic: std::sync::Arc<JapaneseDictionary> = match loaded {
        Ok(x) => std::sync::Arc::new(x),
        Err(_) => { run.bump("hpipe:setup-error"); return; }
    };
    let uni = {
        let cl = crate::c07::Classes { dic: &dic };
        let mut chars: std::collections::BTreeSet<char> = crate::c07::cfg_chars(&c7);
        for (_, t) in &texts { chars.extend(t.chars()); }
        crate::c07::facts_for(&chars, &cl)
    };
    let world = format!(
        "mode=C cdef={} variant={}{} provs={} {} lex={} lexu={} conn={}:{}:{} {} uni={} split={} commit={}",
        hex(d.char_def.as_bytes()), if crate::c13::source_is_forward() { "fwd" } else { "bwd" }, if crate::c13::source_chains_bow_ban() { " bow=fix" } else { "" },
        kinds.join("."), ptoks.join(" "), lex_tok, lexu_tok, matrix.nl, matrix.nr, join(cells.iter(), ","),
        crate::c07::setup_payload(&c7, crate::c07::impl_earliest()).replace(" def=", " rwdef="), uni, hpipe_split_variant(), crate::c03::commit_variant());
    let texts_tok = join(texts.iter().map(|(m, t)| format!("{}:{}", m, if t.is_empty() { "-".to_string() } else { hex(t.as_bytes()) })), ";");
    let payload = format!("mode0={} texts={} reset_variant={} {}", mode0, texts_tok, impl_reset_variant(), world);
    // ---- the real history
    let mut tok = StatefulTokenizer::new(dic.clone(), mode_of(mode0));
    let mut ml = MorphemeList::empty(dic.clone());
    let mut answers = vec![];
    let mut longer_then_shorter = false;
    let mut prev_len = 0usize;
    for (j, (m, t)) in texts.iter().enumerate() {
        let a = hpipe_analyse(&mut tok, &mut ml, mode_of(*m), t);
        // oracle: a newly created tokenizer and list
        let mut ftok = StatefulTokenizer::new(dic.clone(), mode_of(*m));
        let mut fml = MorphemeList::empty(dic.clone());
        let f = hpipe_analyse(&mut ftok, &mut fml, mode_of(*m), t);
        if a != f {
            run.fail_with_line(idx, &format!("C10 hpipe idx={} {}", idx, payload), "c10:hpipe:history", &format!("analysis {} of the history ({} bytes, mode {}) on the recycled tokenizer+list gives {} but a new tokenizer gives {}", j, t.len(), m, a.chars().take(200).collect::<String>(), f.chars().take(200).collect::<String>()));
        }
        if j > 0 && t.len() < prev_len { longer_then_shorter = true; }
        prev_len = t.len();
        run.bump(&format!("hpipe:{}", a.split(':').next().unwrap_or("?")));
        answers.push(a);
    }
    run.bump(&format!("hpipe:providers:{}", kinds.join(".")));
    run.bump(&format!("hpipe:input:{}", c7.pipe.iter().collect::<String>()));
    let ans = format!("ok {} sim=1", answers.join("|"));
    run.case(idx, "hpipe", &payload, &ans, longer_then_shorter);
}
