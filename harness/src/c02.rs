//! C02: Viterbi optimality of the lattice search.
use crate::c01::world_for;
use crate::common::*;
use crate::dict::*;
use crate::world::*;
use sudachi::analysis::stateful_tokenizer::StatefulTokenizer;
use sudachi::analysis::Mode;
use sudachi::dic::word_id::WordId;
use sudachi::prelude::*;

const CASES_PER_WORLD: usize = 20;

#[derive(Clone, Debug)]
struct N {
    b: usize,
    e: usize,
    l: usize,
    r: usize,
    c: i64,
    wid: u32,
    total: i32,
    pe: u16,
    pi: u16,
    row_idx: usize,
}

/// whether the warm-up result is collected (deterministic in the text; both ways occur)
fn rng_bit(t: &str) -> bool { t.len() % 2 == 0 }

pub fn run(run: &mut Run) {
    run.rule = "random worlds without path-rewrite plugins (random lexicon incl. homographs, overlapping words, negative and \
i16-extreme costs, random connection matrix, user dictionaries, every OOV provider mix) x random texts x history (new tokenizer, or one whose lattice held 1-4 longer/shorter texts before); the real lattice is dumped \
through the verif hook; non-trivial = at least 2 alternative complete paths (some row has >= 2 connected candidates); distinct by line".into();
    let n = run.opts.count;
    let mut cur_world: Option<(usize, Result<World, String>)> = None;
    for idx in 0..n {
        if !run.wants(idx) { continue; }
        let widx = idx / CASES_PER_WORLD;
        if cur_world.as_ref().map(|w| w.0) != Some(widx) {
            cur_world = None;
            let mut o = WorldOpts::default();
            o.path_rewrite = false;
            o.extreme = widx % 3 == 1;
            o.always_fallback = widx % 4 != 3;
            cur_world = Some((widx, world_for(run.opts.seed, &run.prop.clone(), widx, &o)));
        }
        let w = match &cur_world.as_ref().unwrap().1 {
            Ok(w) => w,
            Err(e) => { run.bump(&format!("world-error:{}", e.chars().take(50).collect::<String>())); continue; }
        };
        let mut rng = Rng::for_case(run.opts.seed, idx);
        let text = gen_text(&mut rng, w, 10);
        let dic = &w.dic;
        // two cases in three run on a tokenizer whose lattice was used before by 1..4 texts of other lengths (longer and
        // shorter): the lattice that is searched has to be the lattice of THIS text
        let mut warm: Vec<String> = vec![];
        if idx % 3 != 0 {
            for _ in 0..1 + rng.below(4) {
                warm.push(match rng.below(3) { 0 => gen_text(&mut rng, w, 24), 1 => gen_text(&mut rng, w, 3), _ => gen_text(&mut rng, w, 10) });
            }
        }
        run.bump(&format!("history:{}-earlier-texts", warm.len()));
        let res = catch(|| {
            let mut tok = StatefulTokenizer::new(dic, Mode::C);
            let mut wl = MorphemeList::empty(dic);
            for wt in &warm {
                tok.reset().push_str(wt);
                if tok.do_tokenize().is_ok() && rng_bit(wt) { let _ = wl.collect_results(&mut tok); }
            }
            tok.reset().push_str(&text);
            let r = tok.do_tokenize();
            let lat = tok.verif_lattice();
            let size = lat.verif_size();
            let rows = lat.verif_rows();
            let eos = lat.verif_eos();
            let nchars = tok.verif_input().verif_tables().mod_chars.len();
            let outcome = match &r { Ok(()) => "ok".to_string(), Err(e) => err_class(e) };
            let mut morph_costs = vec![];
            if r.is_ok() && nchars > 0 {
                let mut ml = MorphemeList::empty(dic);
                if ml.collect_results(&mut tok).is_ok() {
                    for m in ml.iter() {
                        morph_costs.push((m.total_cost(), m.word_id().as_raw()));
                    }
                }
            }
            (outcome, size, rows, eos, nchars, morph_costs)
        });
        let (outcome, size, rows, eos, nchars, morph_costs) = match res {
            Err(p) => { run.bump("outcome:panic"); run.bump(&format!("panic:{}", p.chars().take(50).collect::<String>())); continue; }
            Ok(x) => x,
        };
        run.bump(&format!("outcome:{}", outcome));
        if nchars == 0 { run.bump("empty-normalised-text"); continue; }
        if outcome != "ok" && outcome != "Disconnect" { continue; }
        // flatten the valid rows
        let mut nodes: Vec<N> = vec![];
        for (e, row) in rows.iter().enumerate().take(size) {
            for (i, x) in row.iter().enumerate() {
                nodes.push(N { b: x.0, e: x.1, l: x.2 as usize, r: x.3 as usize, c: x.4 as i64, wid: x.5, total: x.6, pe: x.7, pi: x.8, row_idx: i });
                let _ = e;
            }
        }
        // insertion-compatible order: by begin; within a begin keep (end,row index)
        nodes.sort_by_key(|x| (x.b, x.e, x.row_idx));
        // the connection costs come from the matrix TEXT the dictionary was compiled from (no cost-editing
        // plugin is configured in these worlds), not from the code under test
        let (nl, nr) = (w.matrix.nl, w.matrix.nr);
        let mut cells = vec![];
        for b in 0..nr { for a in 0..nl { cells.push(w.matrix.cost(a, b) as i64); } }
        let conn = |a: usize, b: usize| -> i64 { cells[b * nl + a] };
        let full = outcome == "ok" || eos.is_some();
        let payload = format!(
            "full={} len={} conn={}:{}:{} nodes={}",
            if full { 1 } else { 0 }, nchars, nl, nr, join(cells.iter(), ","),
            nodes.iter().map(|x| format!("{}:{}:{}:{}:{}", x.b, x.e, x.l, x.r, x.c)).collect::<Vec<_>>().join(";")
        );
        // chosen path through the back-pointers of the implementation
        let mut path_cost: Option<i64> = None;
        let mut path_nodes: Vec<N> = vec![];
        if let Some((ee, ei, _)) = eos {
            let find = |e: u16, i: u16| nodes.iter().find(|x| x.e == e as usize && x.row_idx == i as usize).cloned();
            let mut cur = find(ee, ei);
            let mut guard = 0;
            while let Some(nd) = cur {
                path_nodes.push(nd.clone());
                guard += 1;
                if nd.pe == 0 || guard > 10000 { break; }
                cur = find(nd.pe, nd.pi);
            }
            path_nodes.reverse();
            let mut c = 0i64;
            let mut prev_r = 0usize;
            for nd in &path_nodes { c += conn(prev_r, nd.l) + nd.c; prev_r = nd.r; }
            c += conn(prev_r, 0);
            path_cost = Some(c);
        }
        let totals_s = nodes.iter().map(|x| if x.total == i32::MAX { "x".to_string() } else { x.total.to_string() }).collect::<Vec<_>>().join(",");
        let ans = if full {
            // the node list of the returned path pins the tie rule (first minimum in row order) against the model's argmin
            let path_s = if path_cost.is_some() {
                path_nodes.iter().map(|x| format!("{}:{}:{}:{}:{}", x.b, x.e, x.l, x.r, x.c)).collect::<Vec<_>>().join(";")
            } else { "x".to_string() };
            format!("ok totals={} eos={} path={} nodes={}", totals_s, eos.map_or("x".to_string(), |e| e.2.to_string()), path_cost.map_or("x".to_string(), |c| c.to_string()), path_s)
        } else {
            format!("ok totals={}", totals_s)
        };
        // ---- independent oracle: DP over the dumped candidates + brute force on small lattices ----
        let mut best: Vec<Option<i64>> = vec![None; nodes.len()];
        let mut order: Vec<usize> = (0..nodes.len()).collect();
        order.sort_by_key(|&i| (nodes[i].b, nodes[i].e));
        for &i in &order {
            let nd = &nodes[i];
            let mut m: Option<i64> = if nd.b == 0 { Some(conn(0, nd.l) + nd.c) } else { None };
            for &j in &order {
                if nodes[j].e == nd.b {
                    if let Some(t) = best[j] {
                        let v = t + conn(nodes[j].r, nd.l) + nd.c;
                        if m.map_or(true, |x| v < x) { m = Some(v); }
                    }
                }
            }
            best[i] = m;
        }
        let mut dp_eos: Option<i64> = None;
        let mut alternatives = 0;
        for (i, nd) in nodes.iter().enumerate() {
            if nd.e == nchars {
                if let Some(t) = best[i] {
                    alternatives += 1;
                    let v = t + conn(nd.r, 0);
                    if dp_eos.map_or(true, |x| v < x) { dp_eos = Some(v); }
                }
            }
        }
        let multi = (0..=nchars).any(|e| nodes.iter().enumerate().filter(|(i, x)| x.e == e && best[*i].is_some()).count() >= 2);
        run.bump(&format!("candidates:{}", (nodes.len() / 5 * 5).min(60)));
        if multi { run.bump("rows-with-alternatives"); }
        run.case(idx, "lattice", &payload, &ans, multi && alternatives >= 1);
        let mut fail: Option<(String, String)> = None;
        for (i, nd) in nodes.iter().enumerate() {
            let got = if nd.total == i32::MAX { None } else { Some(nd.total as i64) };
            if got != best[i] {
                fail = Some(("total".into(), format!("node {}..{} (l={},r={},c={}) stores total {:?}, minimum over chains is {:?}", nd.b, nd.e, nd.l, nd.r, nd.c, got, best[i])));
                break;
            }
        }
        if fail.is_none() && full {
            match (eos, dp_eos) {
                (Some(e), Some(d)) => {
                    if e.2 as i64 != d { fail = Some(("eos".into(), format!("final path cost {} but the cheapest covering sequence costs {}", e.2, d))); }
                    else if path_cost != Some(d) { fail = Some(("path".into(), format!("cost recomputed along the returned path {:?} != minimum {}", path_cost, d))); }
                }
                (None, None) => {}
                (a, b) => fail = Some(("connected".into(), format!("implementation eos {:?}, reference {:?}", a.map(|x| x.2), b))),
            }
        }
        // brute force for small lattices
        if fail.is_none() && full && nodes.len() <= 14 {
            fn rec(nodes: &[N], pos: usize, prev_r: usize, acc: i64, len: usize, conn: &dyn Fn(usize, usize) -> i64, best: &mut Option<i64>) {
                if pos == len {
                    let v = acc + conn(prev_r, 0);
                    if best.map_or(true, |x| v < x) { *best = Some(v); }
                    return;
                }
                for nd in nodes.iter().filter(|x| x.b == pos) {
                    rec(nodes, nd.e, nd.r, acc + conn(prev_r, nd.l) + nd.c, len, conn, best);
                }
            }
            let mut bf = None;
            rec(&nodes, 0, 0, 0, nchars, &conn, &mut bf);
            if bf != eos.map(|e| e.2 as i64) {
                fail = Some(("brute".into(), format!("exhaustive enumeration gives {:?}, implementation {:?}", bf, eos.map(|e| e.2))));
            }
            run.bump("brute-forced");
        }
        // per-morpheme cumulative costs in mode C = prefix sums along the returned path
        if fail.is_none() && outcome == "ok" {
            if morph_costs.len() != path_nodes.len() {
                fail = Some(("morphs".into(), format!("{} morphemes for a path of {} nodes", morph_costs.len(), path_nodes.len())));
            } else {
                let mut c = 0i64;
                let mut prev_r = 0usize;
                for (k, nd) in path_nodes.iter().enumerate() {
                    c += conn(prev_r, nd.l) + nd.c;
                    prev_r = nd.r;
                    if morph_costs[k].0 as i64 != c {
                        fail = Some(("cumulative".into(), format!("morpheme {} reports total cost {} but the recomputed prefix sum is {}", k, morph_costs[k].0, c)));
                        break;
                    }
                    let wid = WordId::from_raw(nd.wid);
                    if !wid.is_oov() && !wid.is_special() {
                        let (pl, pr, pc) = dic.lexicon().get_word_param(wid);
                        if (pl as u16 as usize, pr as u16 as usize, pc as i64) != (nd.l, nd.r, nd.c) {
                            fail = Some(("params".into(), format!("lattice node of word {:?} carries ({},{},{}) but the dictionary says ({},{},{})", wid, nd.l, nd.r, nd.c, pl, pr, pc)));
                            break;
                        }
                    }
                }
            }
        }
        if let Some((k, what)) = fail {
            run.fail(idx, &format!("c02:{}", k), &format!("{} | text={:?} earlier texts on the same tokenizer={:?} world={}", what, text, warm, w.desc.join(" ")));
        }
    }
}
