//! C02: Viterbi optimality of the lattice search.
use crate::c01::world_for;
use crate::common::*;
use crate::dict::*;
use crate::world::*;
use sudachi::analysis::stateful_tokenizer::StatefulTokenizer;
use sudachi::analysis::Mode;
use sudachi::dic::word_id::WordId;
use sudachi::prelude::*;

const CASES_PER_WORLD: usize = 20;

#[derive(Clone, Debug)]
struct N {
    b: usize,
    e: usize,
    l: usize,
    r: usize,
    c: i64,
    wid: u32,
    total: i32,
    pe: u16,
    pi: u16,
    row_idx: usize,
}

thread_local! { static LEXCANDS: std::cell::RefCell<Vec<(usize, usize, u32)>> = std::cell::RefCell::new(vec![]); }

/// whether the warm-up result is collected (deterministic in the text; both ways occur)
fn rng_bit(t: &str) -> bool { t.len() % 2 == 0 }

pub fn run(run: &mut Run) {
    run.rule = "random worlds without path-rewrite plugins (random lexicon incl. homographs, overlapping words, negative and \
i16-extreme costs, random connection matrix, user dictionaries, every OOV provider mix) x random texts x history (new tokenizer, or one whose lattice held 1-4 longer/shorter texts before); the real lattice is dumped \
through the verif hook before (complete previous state: all allocated rows, size, eos) and after the text; the model executes reset on the previous state and inserts the candidates a NEW tokenizer finds; non-trivial = at least 2 alternative complete paths (some row has >= 2 connected candidates); distinct by line".into();
    let n = run.opts.count;
    let mut cur_world: Option<(usize, Result<World, String>)> = None;
    for idx in 0..n {
        if !run.wants(idx) { continue; }
        let widx = idx / CASES_PER_WORLD;
        if cur_world.as_ref().map(|w| w.0) != Some(widx) {
            cur_world = None;
            let mut o = WorldOpts::default();
            o.path_rewrite = false;
            o.extreme = widx % 3 == 1;
            o.always_fallback = widx % 4 != 3;
            cur_world = Some((widx, world_for(run.opts.seed, &run.prop.clone(), widx, &o)));
        }
        let w = match &cur_world.as_ref().unwrap().1 {
            Ok(w) => w,
            Err(e) => { run.bump(&format!("world-error:{}", e.chars().take(50).collect::<String>())); continue; }
        };
        let mut rng = Rng::for_case(run.opts.seed, idx);
        let text = gen_text(&mut rng, w, 10);
        let dic = &w.dic;
        // two cases in three run on a tokenizer whose lattice was used before by 1..4 texts of other lengths (longer and
        // shorter): the lattice that is searched has to be the lattice of THIS text
        let mut warm: Vec<String> = vec![];
        if idx % 3 != 0 {
            for _ in 0..1 + rng.below(4) {
                warm.push(match rng.below(3) { 0 => gen_text(&mut rng, w, 24), 1 => gen_text(&mut rng, w, 3), _ => gen_text(&mut rng, w, 10) });
            }
        }
        run.bump(&format!("history:{}-earlier-texts", warm.len()));
        let res = catch(|| {
            let mut tok = StatefulTokenizer::new(dic, Mode::C);
            let mut wl = MorphemeList::empty(dic);
            for wt in &warm {
                tok.reset().push_str(wt);
                if tok.do_tokenize().is_ok() && rng_bit(wt) { let _ = wl.collect_results(&mut tok); }
            }
            // the complete state of the lattice BEFORE this text (all allocated rows, also those past `size`)
            let prev = {
                let lat = tok.verif_lattice();
                (lat.verif_size(), lat.verif_eos(), lat.verif_row_lens(), lat.verif_rows())
            };
            tok.reset().push_str(&text);
            let r = tok.do_tokenize();
            let lat = tok.verif_lattice();
            let size = lat.verif_size();
            let lens = lat.verif_row_lens();
            let rows = lat.verif_rows();
            let eos = lat.verif_eos();
            let tabs = tok.verif_input().verif_tables();
            let nchars = tabs.mod_chars.len();
            // the dictionary candidates as the LEXICON gives them (not as the lattice holds them): every indexed entry that is
            // a prefix of the normalised text at a character position and ends where a word may begin (or at the end)
            let mut lexcands: Vec<(usize, usize, u32)> = vec![];
            {
                let bytes = tabs.modified.as_bytes();
                for cb in 0..nchars {
                    let bo = tabs.mod_c2b[cb];
                    for e in dic.lexicon().lookup(bytes, bo) {
                        let ok_end = e.end >= bytes.len() || tabs.mod_bow.get(e.end).copied().unwrap_or(true);
                        if ok_end && e.end <= bytes.len() { lexcands.push((cb, tabs.mod_b2c[e.end.min(bytes.len())], e.word_id.as_raw())); }
                    }
                }
            }
            LEXCANDS.with(|c| *c.borrow_mut() = lexcands);
            let outcome = match &r { Ok(()) => "ok".to_string(), Err(e) => err_class(e) };
            let mut morph_costs = vec![];
            if r.is_ok() && nchars > 0 {
                let mut ml = MorphemeList::empty(dic);
                if ml.collect_results(&mut tok).is_ok() {
                    for m in ml.iter() {
                        morph_costs.push((m.total_cost(), m.word_id().as_raw()));
                    }
                }
            }
            (outcome, size, rows, eos, nchars, morph_costs, prev, lens)
        });
        let (outcome, size, rows, eos, nchars, morph_costs, prev, lens) = match res {
            Err(p) => {
                run.bump("outcome:panic"); run.bump(&format!("panic:{}", p.chars().take(50).collect::<String>()));
                // a panic that only a RECYCLED lattice produces is a failure of this property (a panic that a new
                // tokenizer produces as well is C03's subject)
                if !warm.is_empty() {
                    let fresh_ok = catch(|| { let mut t = StatefulTokenizer::new(dic, Mode::C); t.reset().push_str(&text); let _ = t.do_tokenize(); }).is_ok();
                    if fresh_ok {
                        run.fail(idx, "c02:recycled-panic", &format!("panic {:?} on a tokenizer that analysed {:?} before, none on a new tokenizer | text={:?} world={}", p, warm, text, w.desc.join(" ")));
                    }
                }
                continue;
            }
            Ok(x) => x,
        };
        run.bump(&format!("outcome:{}", outcome));
        if nchars == 0 { run.bump("empty-normalised-text"); continue; }
        if outcome != "ok" && outcome != "Disconnect" { continue; }
        // the candidates of THIS text, independent of the history: the lattice of a new tokenizer
        let fresh_rows = if warm.is_empty() { Some((size, rows.clone())) } else {
            catch(|| {
                let mut t = StatefulTokenizer::new(dic, Mode::C);
                t.reset().push_str(&text);
                let _ = t.do_tokenize();
                (t.verif_lattice().verif_size(), t.verif_lattice().verif_rows())
            }).ok()
        };
        let (fsize, frows) = match fresh_rows { Some(x) => x, None => { run.bump("fresh-panic"); continue; } };
        // flatten the valid rows
        let flat = |rows: &Vec<Vec<(usize, usize, u16, u16, i16, u32, i32, u16, u16)>>, size: usize| -> Vec<N> {
            let mut nodes: Vec<N> = vec![];
            for row in rows.iter().take(size) {
                for (i, x) in row.iter().enumerate() {
                    nodes.push(N { b: x.0, e: x.1, l: x.2 as usize, r: x.3 as usize, c: x.4 as i64, wid: x.5, total: x.6, pe: x.7, pi: x.8, row_idx: i });
                }
            }
            // insertion-compatible order: by begin; within a begin keep (end,row index)
            nodes.sort_by_key(|x| (x.b, x.e, x.row_idx));
            nodes
        };
        let nodes = flat(&rows, size);
        // what the model inserts: the candidates found by a NEW tokenizer for this text
        let cand = flat(&frows, fsize);
        // the connection costs come from the matrix TEXT the dictionary was compiled from (no cost-editing
        // plugin is configured in these worlds), not from the code under test
        let (nl, nr) = (w.matrix.nl, w.matrix.nr);
        let mut cells = vec![];
        for b in 0..nr { for a in 0..nl { cells.push(w.matrix.cost(a, b) as i64); } }
        let conn = |a: usize, b: usize| -> i64 { cells[b * nl + a] };
        let full = outcome == "ok" || eos.is_some();
        let show_total = |t: i32| if t == i32::MAX { "x".to_string() } else { t.to_string() };
        // the state before this text as the three row vectors of `struct Lattice` (the BOS entry of `ends[0]` is not
        // part of `ends_full`/`indices`; its presence is read off the row lengths)
        let (psize, peos, plens, prows) = &prev;
        let rows3 = |v: Vec<String>| if v.is_empty() { "-".to_string() } else { v.join("/") };
        let pe = rows3(prows.iter().enumerate().map(|(e, row)| {
            let mut cellsv: Vec<String> = vec![];
            if e == 0 && plens.get(0).map_or(false, |l| l.0 == l.1 + 1) { cellsv.push("0:0".to_string()); }
            for x in row { cellsv.push(format!("{}:{}", x.3, show_total(x.6))); }
            cellsv.join(";")
        }).collect());
        let pf = rows3(prows.iter().map(|row| row.iter().map(|x| format!("{}:{}:{}:{}:{}", x.0, x.1, x.2, x.3, x.4)).collect::<Vec<_>>().join(";")).collect());
        let pi = rows3(prows.iter().map(|row| row.iter().map(|x| format!("{}:{}", x.7, x.8)).collect::<Vec<_>>().join(";")).collect());
        run.bump(&format!("previous-state:{}", if prows.is_empty() { "no-rows".to_string() } else if *psize > nchars + 1 { "larger".to_string() } else if *psize < nchars + 1 { "smaller".to_string() } else { "same-size".to_string() }));
        if prows.len() > nchars + 1 { run.bump("previous-state:more-rows-allocated-than-needed"); }
        let payload = format!(
            "full={} ok={} len={} conn={}:{}:{} nodes={} ps={} po={} pe={} pf={} pi={}",
            if full { 1 } else { 0 }, if outcome == "ok" { 1 } else { 0 }, nchars, nl, nr, join(cells.iter(), ","),
            cand.iter().map(|x| format!("{}:{}:{}:{}:{}", x.b, x.e, x.l, x.r, x.c)).collect::<Vec<_>>().join(";"),
            psize, peos.map_or("x".to_string(), |e| format!("{}:{}:{}", e.0, e.1, e.2)), pe, pf, pi
        );
        // chosen path through the back-pointers of the implementation
        let mut path_cost: Option<i64> = None;
        let mut path_nodes: Vec<N> = vec![];
        if let Some((ee, ei, _)) = eos {
            let find = |e: u16, i: u16| nodes.iter().find(|x| x.e == e as usize && x.row_idx == i as usize).cloned();
            let mut cur = find(ee, ei);
            let mut guard = 0;
            while let Some(nd) = cur {
                path_nodes.push(nd.clone());
                guard += 1;
                if nd.pe == 0 || guard > 10000 { break; }
                cur = find(nd.pe, nd.pi);
            }
            path_nodes.reverse();
            let mut c = 0i64;
            let mut prev_r = 0usize;
            for nd in &path_nodes { c += conn(prev_r, nd.l) + nd.c; prev_r = nd.r; }
            c += conn(prev_r, 0);
            path_cost = Some(c);
        }
        // the state after this text: lengths of ALL allocated rows, the valid rows with totals and back-pointers
        let lens_s = lens.iter().map(|l| format!("{}:{}:{}", l.0, l.1, l.2)).collect::<Vec<_>>().join(",");
        let rows_s = rows.iter().take(size).map(|row| row.iter().map(|x| format!("{}:{}:{}:{}:{}:{}:{}:{}", x.0, x.1, x.2, x.3, x.4, show_total(x.6), x.7, x.8)).collect::<Vec<_>>().join(";")).collect::<Vec<_>>().join("/");
        let head = format!("ok size={} lens={} rows={}", size, lens_s, rows_s);
        let ans = if full {
            // the node list of the returned path pins the tie rule (first minimum in row order) and the stored totals
            match eos {
                // `mc`: what the REAL fill_top_path + Lattice::node + resolve_best_path delivered (mode C, no path rewriting):
                // the cumulative cost of every morpheme, against the model's walk over the stored back-pointers
                Some(e) => format!("{} eos={}:{}:{} path={} nodes={} mc={}", head, e.0, e.1, e.2, path_cost.map_or("x".to_string(), |c| c.to_string()),
                    path_nodes.iter().map(|x| format!("{}:{}:{}:{}:{}:{}", x.b, x.e, x.l, x.r, x.c, show_total(x.total))).collect::<Vec<_>>().join(";"),
                    if outcome == "ok" { morph_costs.iter().map(|m| show_total(m.0)).collect::<Vec<_>>().join(",") } else { "x".to_string() }),
                None => format!("{} eos=x path=x nodes=x mc=x", head),
            }
        } else {
            head
        };
        // ---- independent oracle: DP over the dumped candidates + brute force on small lattices ----
        let mut best: Vec<Option<i64>> = vec![None; nodes.len()];
        let mut order: Vec<usize> = (0..nodes.len()).collect();
        order.sort_by_key(|&i| (nodes[i].b, nodes[i].e));
        for &i in &order {
            let nd = &nodes[i];
            let mut m: Option<i64> = if nd.b == 0 { Some(conn(0, nd.l) + nd.c) } else { None };
            for &j in &order {
                if nodes[j].e == nd.b {
                    if let Some(t) = best[j] {
                        let v = t + conn(nodes[j].r, nd.l) + nd.c;
                        if m.map_or(true, |x| v < x) { m = Some(v); }
                    }
                }
            }
            best[i] = m;
        }
        let mut dp_eos: Option<i64> = None;
        let mut alternatives = 0;
        for (i, nd) in nodes.iter().enumerate() {
            if nd.e == nchars {
                if let Some(t) = best[i] {
                    alternatives += 1;
                    let v = t + conn(nd.r, 0);
                    if dp_eos.map_or(true, |x| v < x) { dp_eos = Some(v); }
                }
            }
        }
        let multi = (0..=nchars).any(|e| nodes.iter().enumerate().filter(|(i, x)| x.e == e && best[*i].is_some()).count() >= 2);
        run.bump(&format!("candidates:{}", (nodes.len() / 5 * 5).min(60)));
        if multi { run.bump("rows-with-alternatives"); }
        run.case(idx, "lattice", &payload, &ans, multi && alternatives >= 1);
        let mut fail: Option<(String, String)> = None;
        // the lattice that is searched is the lattice of THIS text: row 0 starts with the sentence-start entry, the three
        // row vectors agree in length, and the valid rows hold exactly the candidates a new tokenizer finds
        if size != nchars + 1 {
            fail = Some(("size".into(), format!("lattice size {} for a text of {} characters", size, nchars)));
        } else if lens.len() < size {
            fail = Some(("alloc".into(), format!("{} rows allocated, {} needed", lens.len(), size)));
        } else if lens[0].0 != lens[0].1 + 1 {
            fail = Some(("bos".into(), format!("row 0 holds {} cost entries for {} nodes: no sentence-start entry", lens[0].0, lens[0].1)));
        } else if let Some((e, l)) = lens.iter().enumerate().take(size).find(|(e, l)| l.1 != l.2 || l.0 != l.1 + if *e == 0 { 1 } else { 0 }) {
            fail = Some(("parallel".into(), format!("row {}: {} cost entries, {} nodes, {} back-pointers", e, l.0, l.1, l.2)));
        } else {
            let key = |x: &N| (x.b, x.e, x.l, x.r, x.c, x.wid);
            let mut a: Vec<_> = nodes.iter().map(key).collect();
            let mut b: Vec<_> = cand.iter().map(key).collect();
            a.sort(); b.sort();
            if a != b {
                let extra: Vec<_> = a.iter().filter(|x| !b.contains(x)).take(3).collect();
                fail = Some(("stale".into(), format!("the lattice holds {} nodes, a new tokenizer finds {} candidates for this text; e.g. not candidates: {:?}", a.len(), b.len(), extra)));
            }
        }
        for (i, nd) in nodes.iter().enumerate() {
            if fail.is_some() { break; }
            let got = if nd.total == i32::MAX { None } else { Some(nd.total as i64) };
            if got != best[i] {
                fail = Some(("total".into(), format!("node {}..{} (l={},r={},c={}) stores total {:?}, minimum over chains is {:?}", nd.b, nd.e, nd.l, nd.r, nd.c, got, best[i])));
                break;
            }
        }
        if fail.is_none() && full {
            match (eos, dp_eos) {
                (Some(e), Some(d)) => {
                    if e.2 as i64 != d { fail = Some(("eos".into(), format!("final path cost {} but the cheapest covering sequence costs {}", e.2, d))); }
                    else if path_cost != Some(d) { fail = Some(("path".into(), format!("cost recomputed along the returned path {:?} != minimum {}", path_cost, d))); }
                }
                (None, None) => {}
                (a, b) => fail = Some(("connected".into(), format!("implementation eos {:?}, reference {:?}", a.map(|x| x.2), b))),
            }
        }
        // the search must also be optimal over the candidates the LEXICON offers (a candidate dropped before the search never
        // shows in the lattice rows): dictionary words from a lookup of our own + the OOV nodes of the lattice
        if fail.is_none() && full {
            let lexc: Vec<(usize, usize, u32)> = LEXCANDS.with(|c| c.borrow().clone());
            let mut all: Vec<(usize, usize, usize, usize, i64)> = vec![]; // b, e, l, r, cost
            for nd in nodes.iter() { let wid = WordId::from_raw(nd.wid); if wid.is_oov() || wid.is_special() { all.push((nd.b, nd.e, nd.l, nd.r, nd.c)); } }
            for (b, e, wid) in &lexc {
                let (pl, pr, pc) = dic.lexicon().get_word_param(WordId::from_raw(*wid));
                all.push((*b, *e, pl as u16 as usize, pr as u16 as usize, pc as i64));
            }
            run.bump_by("lexicon-candidates", lexc.len() as u64);
            // reachability as the builder sees it: a position is processed only if some node ends there
            let mut bestl: Vec<Option<i64>> = vec![None; all.len()];
            let mut ord: Vec<usize> = (0..all.len()).collect();
            ord.sort_by_key(|&i| (all[i].0, all[i].1));
            for &i in &ord {
                let (b, _e, l, _r, c) = all[i];
                let mut m: Option<i64> = if b == 0 { Some(conn(0, l) + c) } else { None };
                for &j in &ord { if all[j].1 == b { if let Some(t) = bestl[j] { let v = t + conn(all[j].3, l) + c; if m.map_or(true, |x| v < x) { m = Some(v); } } } }
                bestl[i] = m;
            }
            let mut lex_eos: Option<i64> = None;
            for (i, x) in all.iter().enumerate() { if x.1 == nchars { if let Some(t) = bestl[i] { let v = t + conn(x.3, 0); if lex_eos.map_or(true, |y| v < y) { lex_eos = Some(v); } } } }
            if let (Some(e), Some(d)) = (eos, lex_eos) {
                if d < e.2 as i64 {
                    fail = Some(("lexicon-candidates".into(), format!("final path cost {} but a sequence of DICTIONARY candidates (own lexicon look-up) + OOV candidates costs {}: a candidate never reached the lattice", e.2, d)));
                }
            }
        }
        // brute force for small lattices
        if fail.is_none() && full && nodes.len() <= 14 {
            fn rec(nodes: &[N], pos: usize, prev_r: usize, acc: i64, len: usize, conn: &dyn Fn(usize, usize) -> i64, best: &mut Option<i64>) {
                if pos == len {
                    let v = acc + conn(prev_r, 0);
                    if best.map_or(true, |x| v < x) { *best = Some(v); }
                    return;
                }
                for nd in nodes.iter().filter(|x| x.b == pos) {
                    rec(nodes, nd.e, nd.r, acc + conn(prev_r, nd.l) + nd.c, len, conn, best);
                }
            }
            let mut bf = None;
            rec(&nodes, 0, 0, 0, nchars, &conn, &mut bf);
            if bf != eos.map(|e| e.2 as i64) {
                fail = Some(("brute".into(), format!("exhaustive enumeration gives {:?}, implementation {:?}", bf, eos.map(|e| e.2))));
            }
            run.bump("brute-forced");
        }
        // per-morpheme cumulative costs in mode C = prefix sums along the returned path
        if fail.is_none() && outcome == "ok" {
            if morph_costs.len() != path_nodes.len() {
                fail = Some(("morphs".into(), format!("{} morphemes for a path of {} nodes", morph_costs.len(), path_nodes.len())));
            } else {
                let mut c = 0i64;
                let mut prev_r = 0usize;
                for (k, nd) in path_nodes.iter().enumerate() {
                    c += conn(prev_r, nd.l) + nd.c;
                    prev_r = nd.r;
                    if morph_costs[k].0 as i64 != c {
                        fail = Some(("cumulative".into(), format!("morpheme {} reports total cost {} but the recomputed prefix sum is {}", k, morph_costs[k].0, c)));
                        break;
                    }
                    let wid = WordId::from_raw(nd.wid);
                    if !wid.is_oov() && !wid.is_special() {
                        let (pl, pr, pc) = dic.lexicon().get_word_param(wid);
                        if (pl as u16 as usize, pr as u16 as usize, pc as i64) != (nd.l, nd.r, nd.c) {
                            fail = Some(("params".into(), format!("lattice node of word {:?} carries ({},{},{}) but the dictionary says ({},{},{})", wid, nd.l, nd.r, nd.c, pl, pr, pc)));
                            break;
                        }
                    }
                }
            }
        }
        if let Some((k, what)) = fail {
            run.fail(idx, &format!("c02:{}", k), &format!("{} | text={:?} earlier texts on the same tokenizer={:?} world={}", what, text, warm, w.desc.join(" ")));
        }
    }
}
