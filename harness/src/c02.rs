//! C02: Viterbi optimality of the lattice search.
use crate::common::*;
use crate::dict::*;
use crate::world::*;
use sudachi::analysis::stateful_tokenizer::StatefulTokenizer;
use sudachi::analysis::Mode;
use sudachi::dic::word_id::WordId;
use sudachi::prelude::*;

const CASES_PER_WORLD: usize = 20;

#[derive(Clone, Debug)]
struct N {
    b: usize,
    e: usize,
    l: usize,
    r: usize,
    c: i64,
    wid: u32,
    total: i32,
    pe: u16,
    pi: u32,
    row_idx: usize,
}

thread_local! { static LEXCANDS: std::cell::RefCell<Vec<(usize, usize, u32)>> = std::cell::RefCell::new(vec![]); }
thread_local! { static WARM_FAILED: std::cell::Cell<bool> = std::cell::Cell::new(false); }
thread_local! { static TABLES: std::cell::RefCell<(Vec<u8>, Vec<usize>, Vec<usize>, Vec<bool>)> = std::cell::RefCell::new((vec![], vec![], vec![], vec![])); }

/// whether the warm-up result is collected (deterministic in the text; both ways occur)
fn rng_bit(t: &str) -> bool { t.len() % 2 == 0 }

pub fn run(run: &mut Run) {
    run.rule = "random worlds without path-rewrite plugins (gen_world_c02: random lexicon incl. prefix families, non-indexed rows, directed homographs with the same surface and RIGHT id and another LEFT id in both cost orders, exact duplicate rows, negative and \
i16-extreme word costs; connection matrix square / more left ids / more right ids, i16 extremes; 0-2 InhibitConnection plugins with 0-5 pairs incl. duplicates and the sentence-start/-end id; 0, 1, 2 or 14 user dictionaries with homographs of system words and rows whose cost is estimated at load; every OOV provider mix; input-text plugins) \
x random texts of 1-4-byte characters x history (new tokenizer, or one whose lattice held 1-4 longer/shorter texts before, some of them ending with an error); the real lattice is dumped \
through the verif hook before (complete previous state: all allocated rows, size, eos) and after the text; the model is given the normalised text with its index tables, the CSV rows of every dictionary, the matrix TEXT, the inhibit pairs and the OOV nodes, and executes build_lattice itself (reset on the previous state, look-up, can_bow filter, word parameters, inserts, connect_eos, path); non-trivial = at least 2 alternative complete paths (some row has >= 2 connected candidates); distinct by line".into();
    let n = run.opts.count;
    let mut cur_world: Option<(usize, Result<C2World, String>)> = None;
    for idx in 0..n {
        if !run.wants(idx) { continue; }
        let widx = idx / CASES_PER_WORLD;
        if cur_world.as_ref().map(|w| w.0) != Some(widx) {
            cur_world = None;
            let mut wr = Rng::for_case(run.opts.seed ^ 0x5151_5151, widx);
            let made = gen_world_c02(&mut wr, &format!("{}-w{}", run.prop, widx), widx);
            if let Ok(cw) = &made { for k in &cw.shape { run.bump(&format!("world:{}", k)); } }
            cur_world = Some((widx, made));
        }
        let cw = match &cur_world.as_ref().unwrap().1 {
            Ok(w) => w,
            Err(e) => { run.bump(&format!("world-error:{}", e.chars().take(50).collect::<String>())); continue; }
        };
        let w = &cw.w;
        let mut rng = Rng::for_case(run.opts.seed, idx);
        let text = gen_text(&mut rng, w, 10);
        let dic = &w.dic;
        // two cases in three run on a tokenizer whose lattice was used before by 1..4 texts of other lengths (longer and
        // shorter): the lattice that is searched has to be the lattice of THIS text
        let mut warm: Vec<String> = vec![];
        if idx % 3 != 0 {
            for _ in 0..1 + rng.below(4) {
                warm.push(match rng.below(3) { 0 => gen_text(&mut rng, w, 24), 1 => gen_text(&mut rng, w, 3), _ => gen_text(&mut rng, w, 10) });
            }
        }
        run.bump(&format!("history:{}-earlier-texts", warm.len()));
        WARM_FAILED.with(|c| c.set(false));
        let res = catch(|| {
            let mut tok = StatefulTokenizer::new(dic, Mode::C);
            let mut wl = MorphemeList::empty(dic);
            for wt in &warm {
                tok.reset().push_str(wt);
                let wr = tok.do_tokenize();
                if wr.is_err() { WARM_FAILED.with(|c| c.set(true)); }
                if wr.is_ok() && rng_bit(wt) { let _ = wl.collect_results(&mut tok); }
            }
            // the complete state of the lattice BEFORE this text (all allocated rows, also those past `size`)
            let prev = {
                let lat = tok.verif_lattice();
                (lat.verif_size(), lat.verif_eos(), lat.verif_row_lens(), lat.verif_rows())
            };
            tok.reset().push_str(&text);
            let r = tok.do_tokenize();
            let lat = tok.verif_lattice();
            let size = lat.verif_size();
            let lens = lat.verif_row_lens();
            let rows = lat.verif_rows();
            let eos = lat.verif_eos();
            let tabs = tok.verif_input().verif_tables();
            let nchars = tabs.mod_chars.len();
            // the dictionary candidates as the LEXICON gives them (not as the lattice holds them): every indexed entry that is
            // a prefix of the normalised text at a character position and ends where a word may begin (or at the end)
            let mut lexcands: Vec<(usize, usize, u32)> = vec![];
            {
                let bytes = tabs.modified.as_bytes();
                for cb in 0..nchars {
                    let bo = tabs.mod_c2b[cb];
                    for e in dic.lexicon().lookup(bytes, bo) {
                        let ok_end = e.end >= bytes.len() || tabs.mod_bow.get(e.end).copied().unwrap_or(true);
                        if ok_end && e.end <= bytes.len() { lexcands.push((cb, tabs.mod_b2c[e.end.min(bytes.len())], e.word_id.as_raw())); }
                    }
                }
            }
            LEXCANDS.with(|c| *c.borrow_mut() = lexcands);
            TABLES.with(|c| *c.borrow_mut() = (tabs.modified.as_bytes().to_vec(), tabs.mod_c2b.clone(), tabs.mod_b2c.clone(), tabs.mod_bow.clone()));
            let outcome = match &r { Ok(()) => "ok".to_string(), Err(e) => err_class(e) };
            let mut morph_costs = vec![];
            if r.is_ok() && nchars > 0 {
                let mut ml = MorphemeList::empty(dic);
                if ml.collect_results(&mut tok).is_ok() {
                    for m in ml.iter() {
                        morph_costs.push((m.total_cost(), m.word_id().as_raw()));
                    }
                }
            }
            (outcome, size, rows, eos, nchars, morph_costs, prev, lens)
        });
        let (outcome, size, rows, eos, nchars, morph_costs, prev, lens) = match res {
            Err(p) => {
                run.bump("outcome:panic"); run.bump(&format!("panic:{}", p.chars().take(50).collect::<String>()));
                // a panic that only a RECYCLED lattice produces is a failure of this property (a panic that a new
                // tokenizer produces as well is C03's subject)
                if !warm.is_empty() {
                    let fresh_ok = catch(|| { let mut t = StatefulTokenizer::new(dic, Mode::C); t.reset().push_str(&text); let _ = t.do_tokenize(); }).is_ok();
                    if fresh_ok {
                        run.fail(idx, "c02:recycled-panic", &format!("panic {:?} on a tokenizer that analysed {:?} before, none on a new tokenizer | text={:?} world={}", p, warm, text, w.desc.join(" ")));
                    }
                }
                continue;
            }
            Ok(x) => x,
        };
        run.bump(&format!("outcome:{}", outcome));
        if WARM_FAILED.with(|c| c.get()) { run.bump("history:an-earlier-text-ended-with-an-error"); }
        { let mx = text.chars().map(|c| c.len_utf8()).max().unwrap_or(0); run.bump(&format!("text:widest-character-{}-bytes", mx)); }
        if nchars == 0 { run.bump("empty-normalised-text"); continue; }
        if outcome != "ok" && outcome != "Disconnect" { continue; }
        // the candidates of THIS text, independent of the history: the lattice of a new tokenizer
        let fresh_rows = if warm.is_empty() { Some((size, rows.clone())) } else {
            catch(|| {
                let mut t = StatefulTokenizer::new(dic, Mode::C);
                t.reset().push_str(&text);
                let _ = t.do_tokenize();
                (t.verif_lattice().verif_size(), t.verif_lattice().verif_rows())
            }).ok()
        };
        let (fsize, frows) = match fresh_rows { Some(x) => x, None => { run.bump("fresh-panic"); continue; } };
        // flatten the valid rows
        let flat = |rows: &Vec<Vec<(usize, usize, u16, u16, i16, u32, i32, u16, u32)>>, size: usize| -> Vec<N> {
            let mut nodes: Vec<N> = vec![];
            for row in rows.iter().take(size) {
                for (i, x) in row.iter().enumerate() {
                    nodes.push(N { b: x.0, e: x.1, l: x.2 as usize, r: x.3 as usize, c: x.4 as i64, wid: x.5, total: x.6, pe: x.7, pi: x.8, row_idx: i });
                }
            }
            // insertion-compatible order: by begin; within a begin keep (end,row index)
            nodes.sort_by_key(|x| (x.b, x.e, x.row_idx));
            nodes
        };
        let nodes = flat(&rows, size);
        // what the model inserts: the candidates found by a NEW tokenizer for this text
        let cand = flat(&frows, fsize);
        // the connection costs come from the matrix TEXT the dictionary was compiled from (no cost-editing
        // plugin is configured in these worlds), not from the code under test
        let (nl, nr) = (w.matrix.nl, w.matrix.nr);
        // `text_cells`: the cells of the matrix TEXT; `cells`: the same after the configured inhibit pairs were written into
        // them (pair (a, b): right id a of the left word, left id b of the right word -> 32767), applied HERE, not read back
        let mut text_cells = vec![];
        for b in 0..nr { for a in 0..nl { text_cells.push(w.matrix.cost(a, b) as i64); } }
        let mut cells = text_cells.clone();
        for &(a, b) in &cw.inh { cells[b * nl + a] = 32767; }
        let conn = |a: usize, b: usize| -> i64 { cells[b * nl + a] };
        let full = outcome == "ok" || eos.is_some();
        let show_total = |t: i32| if t == i32::MAX { "x".to_string() } else { t.to_string() };
        // the state before this text as the three row vectors of `struct Lattice` (the BOS entry of `ends[0]` is not
        // part of `ends_full`/`indices`; its presence is read off the row lengths)
        let (psize, peos, plens, prows) = &prev;
        let rows3 = |v: Vec<String>| if v.is_empty() { "-".to_string() } else { v.join("/") };
        let pe = rows3(prows.iter().enumerate().map(|(e, row)| {
            let mut cellsv: Vec<String> = vec![];
            if e == 0 && plens.get(0).map_or(false, |l| l.0 == l.1 + 1) { cellsv.push("0:0".to_string()); }
            for x in row { cellsv.push(format!("{}:{}", x.3, show_total(x.6))); }
            cellsv.join(";")
        }).collect());
        let pf = rows3(prows.iter().map(|row| row.iter().map(|x| format!("{}:{}:{}:{}:{}", x.0, x.1, x.2, x.3, x.4)).collect::<Vec<_>>().join(";")).collect());
        let pi = rows3(prows.iter().map(|row| row.iter().map(|x| format!("{}:{}", x.7, x.8)).collect::<Vec<_>>().join(";")).collect());
        run.bump(&format!("previous-state:{}", if prows.is_empty() { "no-rows".to_string() } else if *psize > nchars + 1 { "larger".to_string() } else if *psize < nchars + 1 { "smaller".to_string() } else { "same-size".to_string() }));
        if prows.len() > nchars + 1 { run.bump("previous-state:more-rows-allocated-than-needed"); }
        // ---- what the MODEL is given: the text with its index tables, the dictionaries as their CSV rows (key bytes and the
        // three parameter columns, system first), the nodes the OOV providers pushed (C13's subject), the matrix TEXT and the
        // inhibit pairs; it does the look-up, the can_bow filter, get_word_param, ch_idx and every insert itself
        let (tbytes, c2b, b2c, bow) = TABLES.with(|c| c.borrow().clone());
        let mut dict_rows: Vec<Vec<(Vec<u8>, i64, i64, i64)>> = vec![];
        let mut estimated = 0;
        for (d, rows) in std::iter::once(&w.lex.rows).chain(w.users.iter()).enumerate() {
            let mut v = vec![];
            for (i, r) in rows.iter().enumerate() {
                let mut c = r.cost as i64;
                if d > 0 && r.cost == -32768 {
                    // a user row stored with i16::MIN is re-estimated when the dictionary is loaded (Lexicon::update_cost, C12):
                    // its cost is read back, its connection ids are not
                    c = dic.lexicon().get_word_param(WordId::new(d as u8, i as u32)).2 as i64;
                    estimated += 1;
                }
                v.push((r.surface.as_bytes().to_vec(), r.left as i64, r.right as i64, c));
            }
            dict_rows.push(v);
        }
        if estimated > 0 { run.bump("world-has-user-rows-with-estimated-cost"); }
        let is_oov = |wid: u32| (wid >> 28) == 15;
        let oov_nodes: Vec<&N> = cand.iter().filter(|x| is_oov(x.wid)).collect();
        let payload = format!(
            "ok={} len={} conn={}:{}:{} inh={} txt={} c2b={} b2c={} bow={} dic={} oov={} ps={} po={} pe={} pf={} pi={}",
            if outcome == "ok" { 1 } else { 0 }, nchars, nl, nr, join(text_cells.iter(), ","),
            cw.inh.iter().map(|p| format!("{}:{}", p.0, p.1)).collect::<Vec<_>>().join(";"),
            hex(&tbytes), join(c2b.iter(), ","), join(b2c.iter(), ","), bow.iter().map(|&b| if b { '1' } else { '0' }).collect::<String>(),
            dict_rows.iter().map(|d| d.iter().map(|r| format!("{}:{}:{}:{}", hex(&r.0), r.1, r.2, r.3)).collect::<Vec<_>>().join(";")).collect::<Vec<_>>().join("|"),
            oov_nodes.iter().map(|x| format!("{}:{}:{}:{}:{}", x.b, x.e, x.l, x.r, x.c)).collect::<Vec<_>>().join(";"),
            psize, peos.map_or("x".to_string(), |e| format!("{}:{}:{}", e.0, e.1, e.2)), pe, pf, pi
        );
        // chosen path through the back-pointers of the implementation
        let mut path_cost: Option<i64> = None;
        let mut path_nodes: Vec<N> = vec![];
        if let Some((ee, ei, _)) = eos {
            let find = |e: u16, i: u32| nodes.iter().find(|x| x.e == e as usize && x.row_idx == i as usize).cloned();
            let mut cur = find(ee, ei);
            let mut guard = 0;
            while let Some(nd) = cur {
                path_nodes.push(nd.clone());
                guard += 1;
                if nd.pe == 0 || guard > 10000 { break; }
                cur = find(nd.pe, nd.pi);
            }
            path_nodes.reverse();
            let mut c = 0i64;
            let mut prev_r = 0usize;
            for nd in &path_nodes { c += conn(prev_r, nd.l) + nd.c; prev_r = nd.r; }
            c += conn(prev_r, 0);
            path_cost = Some(c);
        }
        // the state after this text: lengths of ALL allocated rows, the valid rows with totals and back-pointers
        let lens_s = lens.iter().map(|l| format!("{}:{}:{}", l.0, l.1, l.2)).collect::<Vec<_>>().join(",");
        let rows_s = rows.iter().take(size).map(|row| row.iter().map(|x| format!("{}:{}:{}:{}:{}:{}:{}:{}", x.0, x.1, x.2, x.3, x.4, show_total(x.6), x.7, x.8)).collect::<Vec<_>>().join(";")).collect::<Vec<_>>().join("/");
        // the dictionary words of the lattice per begin position, by end and row index: `o:wid.e,...`
        let mut lex_s: Vec<String> = vec![];
        for o in 0..nchars {
            let mut here: Vec<&N> = nodes.iter().filter(|x| x.b == o && !is_oov(x.wid)).collect();
            here.sort_by_key(|x| (x.e, x.row_idx));
            if !here.is_empty() { lex_s.push(format!("{}:{}", o, here.iter().map(|x| format!("{}.{}", x.wid, x.e)).collect::<Vec<_>>().join(","))); }
        }
        let head = format!("{} size={} lens={} rows={} lex={}", if outcome == "ok" { "ok" } else { "Disconnect" }, size, lens_s, rows_s, lex_s.join(";"));
        let ans = match eos {
            // the node list of the returned path pins the tie rule (first minimum in row order) and the stored totals;
            // `mc`: what the REAL fill_top_path + Lattice::node + resolve_best_path delivered (mode C, no path rewriting):
            // the cumulative cost of every morpheme, against the model's walk over the stored back-pointers
            Some(e) => format!("{} eos={}:{}:{} path={} nodes={} mc={}", head, e.0, e.1, e.2, path_cost.map_or("x".to_string(), |c| c.to_string()),
                path_nodes.iter().map(|x| format!("{}:{}:{}:{}:{}:{}", x.b, x.e, x.l, x.r, x.c, show_total(x.total))).collect::<Vec<_>>().join(";"),
                if outcome == "ok" { morph_costs.iter().map(|m| show_total(m.0)).collect::<Vec<_>>().join(",") } else { "x".to_string() }),
            None => format!("{} eos=x path=x nodes=x mc=x", head),
        };
        // ---- independent oracle: DP over the dumped candidates + brute force on small lattices ----
        let mut best: Vec<Option<i64>> = vec![None; nodes.len()];
        let mut order: Vec<usize> = (0..nodes.len()).collect();
        order.sort_by_key(|&i| (nodes[i].b, nodes[i].e));
        for &i in &order {
            let nd = &nodes[i];
            let mut m: Option<i64> = if nd.b == 0 { Some(conn(0, nd.l) + nd.c) } else { None };
            for &j in &order {
                if nodes[j].e == nd.b {
                    if let Some(t) = best[j] {
                        let v = t + conn(nodes[j].r, nd.l) + nd.c;
                        if m.map_or(true, |x| v < x) { m = Some(v); }
                    }
                }
            }
            best[i] = m;
        }
        let mut dp_eos: Option<i64> = None;
        let mut alternatives = 0;
        for (i, nd) in nodes.iter().enumerate() {
            if nd.e == nchars {
                if let Some(t) = best[i] {
                    alternatives += 1;
                    let v = t + conn(nd.r, 0);
                    if dp_eos.map_or(true, |x| v < x) { dp_eos = Some(v); }
                }
            }
        }
        let multi = (0..=nchars).any(|e| nodes.iter().enumerate().filter(|(i, x)| x.e == e && best[*i].is_some()).count() >= 2);
        run.bump(&format!("candidates:{}", (nodes.len() / 5 * 5).min(60)));
        if multi { run.bump("rows-with-alternatives"); }
        run.case(idx, "build", &payload, &ans, multi && alternatives >= 1);
        let mut fail: Option<(String, String)> = None;
        // the lattice that is searched is the lattice of THIS text: row 0 starts with the sentence-start entry, the three
        // row vectors agree in length, and the valid rows hold exactly the candidates a new tokenizer finds
        if size != nchars + 1 {
            fail = Some(("size".into(), format!("lattice size {} for a text of {} characters", size, nchars)));
        } else if lens.len() < size {
            fail = Some(("alloc".into(), format!("{} rows allocated, {} needed", lens.len(), size)));
        } else if lens[0].0 != lens[0].1 + 1 {
            fail = Some(("bos".into(), format!("row 0 holds {} cost entries for {} nodes: no sentence-start entry", lens[0].0, lens[0].1)));
        } else if let Some((e, l)) = lens.iter().enumerate().take(size).find(|(e, l)| l.1 != l.2 || l.0 != l.1 + if *e == 0 { 1 } else { 0 }) {
            fail = Some(("parallel".into(), format!("row {}: {} cost entries, {} nodes, {} back-pointers", e, l.0, l.1, l.2)));
        } else {
            let key = |x: &N| (x.b, x.e, x.l, x.r, x.c, x.wid);
            let mut a: Vec<_> = nodes.iter().map(key).collect();
            let mut b: Vec<_> = cand.iter().map(key).collect();
            a.sort(); b.sort();
            if a != b {
                let extra: Vec<_> = a.iter().filter(|x| !b.contains(x)).take(3).collect();
                fail = Some(("stale".into(), format!("the lattice holds {} nodes, a new tokenizer finds {} candidates for this text; e.g. not candidates: {:?}", a.len(), b.len(), extra)));
            }
        }
        for (i, nd) in nodes.iter().enumerate() {
            if fail.is_some() { break; }
            let got = if nd.total == i32::MAX { None } else { Some(nd.total as i64) };
            if got != best[i] {
                fail = Some(("total".into(), format!("node {}..{} (l={},r={},c={}) stores total {:?}, minimum over chains is {:?}", nd.b, nd.e, nd.l, nd.r, nd.c, got, best[i])));
                break;
            }
        }
        if fail.is_none() && full {
            match (eos, dp_eos) {
                (Some(e), Some(d)) => {
                    if e.2 as i64 != d { fail = Some(("eos".into(), format!("final path cost {} but the cheapest covering sequence costs {}", e.2, d))); }
                    else if path_cost != Some(d) { fail = Some(("path".into(), format!("cost recomputed along the returned path {:?} != minimum {}", path_cost, d))); }
                }
                (None, None) => {}
                (a, b) => fail = Some(("connected".into(), format!("implementation eos {:?}, reference {:?}", a.map(|x| x.2), b))),
            }
        }
        // the search must also be optimal over the candidates the LEXICON offers (a candidate dropped before the search never
        // shows in the lattice rows): dictionary words from a lookup of our own + the OOV nodes of the lattice
        if fail.is_none() && full {
            let lexc: Vec<(usize, usize, u32)> = LEXCANDS.with(|c| c.borrow().clone());
            let mut all: Vec<(usize, usize, usize, usize, i64)> = vec![]; // b, e, l, r, cost
            for nd in nodes.iter() { let wid = WordId::from_raw(nd.wid); if wid.is_oov() || wid.is_special() { all.push((nd.b, nd.e, nd.l, nd.r, nd.c)); } }
            for (b, e, wid) in &lexc {
                let (pl, pr, pc) = dic.lexicon().get_word_param(WordId::from_raw(*wid));
                all.push((*b, *e, pl as u16 as usize, pr as u16 as usize, pc as i64));
            }
            run.bump_by("lexicon-candidates", lexc.len() as u64);
            // reachability as the builder sees it: a position is processed only if some node ends there
            let mut bestl: Vec<Option<i64>> = vec![None; all.len()];
            let mut ord: Vec<usize> = (0..all.len()).collect();
            ord.sort_by_key(|&i| (all[i].0, all[i].1));
            for &i in &ord {
                let (b, _e, l, _r, c) = all[i];
                let mut m: Option<i64> = if b == 0 { Some(conn(0, l) + c) } else { None };
                for &j in &ord { if all[j].1 == b { if let Some(t) = bestl[j] { let v = t + conn(all[j].3, l) + c; if m.map_or(true, |x| v < x) { m = Some(v); } } } }
                bestl[i] = m;
            }
            let mut lex_eos: Option<i64> = None;
            for (i, x) in all.iter().enumerate() { if x.1 == nchars { if let Some(t) = bestl[i] { let v = t + conn(x.3, 0); if lex_eos.map_or(true, |y| v < y) { lex_eos = Some(v); } } } }
            if let (Some(e), Some(d)) = (eos, lex_eos) {
                if d < e.2 as i64 {
                    fail = Some(("lexicon-candidates".into(), format!("final path cost {} but a sequence of DICTIONARY candidates (own lexicon look-up) + OOV candidates costs {}: a candidate never reached the lattice", e.2, d)));
                }
            }
        }
        // the same with candidates taken from the dictionary SOURCES (the CSV rows of the system and user dictionaries), by a
        // scan of our own over the normalised text - neither LexiconSet::lookup nor get_word_param nor the lattice rows are
        // consulted for the dictionary words; an end inside the text must be a permissible word start (mod_bow of the buffer)
        if fail.is_none() && full {
            let mut all: Vec<(usize, usize, usize, usize, i64)> = vec![];
            for nd in nodes.iter() { if is_oov(nd.wid) { all.push((nd.b, nd.e, nd.l, nd.r, nd.c)); } }
            let mut ncsv = 0u64;
            let mut homo_pairs = 0u64;
            for cb in 0..nchars {
                let bo = c2b[cb];
                let at = all.len();
                for rows in dict_rows.iter() {
                    for r in rows.iter() {
                        if r.1 < 0 || r.0.is_empty() || !tbytes[bo..].starts_with(&r.0) { continue; }
                        let eb = bo + r.0.len();
                        if eb < tbytes.len() && !bow[eb] { continue; }
                        all.push((cb, b2c[eb], r.1 as usize, r.2 as usize, r.3));
                        ncsv += 1;
                    }
                }
                // homographs at this position: same span and right id, different left ids
                for i in at..all.len() { for j in at..i { if all[i].1 == all[j].1 && all[i].3 == all[j].3 && all[i].2 != all[j].2 { homo_pairs += 1; } } }
            }
            run.bump_by("csv-candidates", ncsv);
            if homo_pairs > 0 { run.bump("texts-with-homographs:same-span-same-right-other-left"); }
            if cells.iter().any(|&c| c == 32767) && all.iter().any(|x| x.4 == 32767 || x.4 <= -32767) { run.bump("texts-with-extreme-word-cost-and-inhibited-or-32767-cell"); }
            let mut bestl: Vec<Option<i64>> = vec![None; all.len()];
            let mut ord: Vec<usize> = (0..all.len()).collect();
            ord.sort_by_key(|&i| (all[i].0, all[i].1));
            for &i in &ord {
                let (b, _e, l, _r, c) = all[i];
                let mut m: Option<i64> = if b == 0 { Some(conn(0, l) + c) } else { None };
                for &j in &ord { if all[j].1 == b { if let Some(t) = bestl[j] { let v = t + conn(all[j].3, l) + c; if m.map_or(true, |x| v < x) { m = Some(v); } } } }
                bestl[i] = m;
            }
            let mut csv_eos: Option<i64> = None;
            for (i, x) in all.iter().enumerate() { if x.1 == nchars { if let Some(t) = bestl[i] { let v = t + conn(x.3, 0); if csv_eos.map_or(true, |y| v < y) { csv_eos = Some(v); } } } }
            if let (Some(e), Some(d)) = (eos, csv_eos) {
                if d < e.2 as i64 {
                    fail = Some(("csv-candidates".into(), format!("final path cost {} but a sequence of words of the dictionary SOURCES (own scan of the CSV rows) + OOV candidates costs {}", e.2, d)));
                }
            }
            // every dictionary word of the returned path is a candidate by the sources: an indexed row whose surface stands at
            // that position of the normalised text, ending at a permissible word start, with the row's parameters
            if fail.is_none() {
                for nd in &path_nodes {
                    if !is_oov(nd.wid) && !all.contains(&(nd.b, nd.e, nd.l, nd.r, nd.c)) {
                        fail = Some(("not-a-candidate".into(), format!("the returned path contains the dictionary word {}..{} (l={},r={},c={},id={}) which the dictionary sources do not offer at that position (surface / permissible end / parameters)", nd.b, nd.e, nd.l, nd.r, nd.c, nd.wid)));
                        break;
                    }
                }
            }
            // the returned path takes a word although an EARLIER candidate of the same span and right id is not dearer
            // (legitimate when the left ids differ: the incoming connection decides)
            for nd in &path_nodes {
                if nodes.iter().any(|o| o.b == nd.b && o.e == nd.e && o.r == nd.r && o.l != nd.l && o.c <= nd.c && o.row_idx < nd.row_idx) { run.bump("path-takes-later-dearer-homograph"); break; }
            }
            if !cw.inh.is_empty() {
                let mut prev_r = 0usize;
                let mut over = false;
                for nd in &path_nodes { if cw.inh.contains(&(prev_r, nd.l)) { over = true; } prev_r = nd.r; }
                if cw.inh.contains(&(prev_r, 0)) { over = true; }
                if over { run.bump("path-crosses-inhibited-connection"); }
                if text_cells != cells { run.bump("texts-on-edited-matrix"); }
            }
        }
        // brute force for small lattices
        if fail.is_none() && full && nodes.len() <= 14 {
            fn rec(nodes: &[N], pos: usize, prev_r: usize, acc: i64, len: usize, conn: &dyn Fn(usize, usize) -> i64, best: &mut Option<i64>) {
                if pos == len {
                    let v = acc + conn(prev_r, 0);
                    if best.map_or(true, |x| v < x) { *best = Some(v); }
                    return;
                }
                for nd in nodes.iter().filter(|x| x.b == pos) {
                    rec(nodes, nd.e, nd.r, acc + conn(prev_r, nd.l) + nd.c, len, conn, best);
                }
            }
            let mut bf = None;
            rec(&nodes, 0, 0, 0, nchars, &conn, &mut bf);
            if bf != eos.map(|e| e.2 as i64) {
                fail = Some(("brute".into(), format!("exhaustive enumeration gives {:?}, implementation {:?}", bf, eos.map(|e| e.2))));
            }
            run.bump("brute-forced");
        }
        // per-morpheme cumulative costs in mode C = prefix sums along the returned path
        if fail.is_none() && outcome == "ok" {
            if morph_costs.len() != path_nodes.len() {
                fail = Some(("morphs".into(), format!("{} morphemes for a path of {} nodes", morph_costs.len(), path_nodes.len())));
            } else {
                let mut c = 0i64;
                let mut prev_r = 0usize;
                for (k, nd) in path_nodes.iter().enumerate() {
                    c += conn(prev_r, nd.l) + nd.c;
                    prev_r = nd.r;
                    if morph_costs[k].0 as i64 != c {
                        fail = Some(("cumulative".into(), format!("morpheme {} reports total cost {} but the recomputed prefix sum is {}", k, morph_costs[k].0, c)));
                        break;
                    }
                    let wid = WordId::from_raw(nd.wid);
                    if !wid.is_oov() && !wid.is_special() {
                        let (pl, pr, pc) = dic.lexicon().get_word_param(wid);
                        if (pl as u16 as usize, pr as u16 as usize, pc as i64) != (nd.l, nd.r, nd.c) {
                            fail = Some(("params".into(), format!("lattice node of word {:?} carries ({},{},{}) but the dictionary says ({},{},{})", wid, nd.l, nd.r, nd.c, pl, pr, pc)));
                            break;
                        }
                    }
                }
            }
        }
        if let Some((k, what)) = fail {
            run.fail(idx, &format!("c02:{}", k), &format!("{} | text={:?} earlier texts on the same tokenizer={:?} world={}", what, text, warm, w.desc.join(" ")));
        }
    }
    // DIRECTED, oracle only (the case line would carry a 65 600-entry row): more than 65 535 candidates END AT ONE BOUNDARY.
    // A grouped class (ALPHA 1 1 1) with 4 unk.def lines over a run of 16 400 letters puts 4 x 16 400 grouped candidates into
    // the row of the run's end.  With the u16 row index of the pinned tree the back-pointer of the candidates that begin in
    // the last 16 positions wrapped and fill_top_path followed a dearer chain (16 tokens of cost -160 instead of 16 400 of
    // cost -164 000); repaired in /repo by 9fb3dd8 (u32 index; Lean: Total.asU32, C03.row_index_u16_wraps_counterexample,
    // C03.tokenize_total_bundled_u32).  The cheapest chain is known in closed form: every letter alone, cost -10 each.
    if run.wants(n) {
        let wd = Workdir::new("C02-d-rowwrap");
        wd.write("char.def", "DEFAULT 0 1 0\nALPHA 1 1 1\n0x0061..0x007A ALPHA\n");
        let pos = POS[0].join(",");
        wd.write("unk.def", &format!("DEFAULT,0,0,100,{p}\nALPHA,0,0,-10,{p}\nALPHA,0,0,-9,{p}\nALPHA,0,0,-8,{p}\nALPHA,0,0,-7,{p}\n", p = pos));
        let rows = vec![Row::simple("あ", 0, 0, 100, NOUN)];
        let built = build_system(csv_of(&rows, &default_pos()).as_bytes(), "1 1\n0 0 0\n".as_bytes())
            .and_then(|sys| load(&config_json(&wd, &[], &[crate::c13::mecab_json(), simple_oov_json(0, 0, 3000)], &[], &[]), sys, vec![]));
        match built {
            Ok(dic) => {
                for (name, len) in [("row-wrap-below", 16000usize), ("row-wrap", 16400usize)] {
                    let text = "a".repeat(len);
                    let res = catch(|| {
                        let mut tok = StatefulTokenizer::new(&dic, Mode::C);
                        tok.reset().push_str(&text);
                        tok.do_tokenize().map_err(|e| format!("{:?}", e))?;
                        let maxrow = tok.verif_lattice().verif_rows().iter().map(|r| r.len()).max().unwrap_or(0);
                        let mut ml = MorphemeList::empty(&dic);
                        ml.collect_results(&mut tok).map_err(|e| format!("{:?}", e))?;
                        Ok::<(usize, usize, i32), String>((maxrow, ml.len(), ml.iter().last().map(|m| m.total_cost()).unwrap_or(0)))
                    });
                    run.bump(&format!("directed:{}", name));
                    match res {
                        Ok(Ok((maxrow, toks, cost))) => {
                            run.bump(&format!("directed:{}:longest-row-{}", name, if maxrow > 65535 { ">65535" } else { "<=65535" }));
                            run.extra.insert(format!("observation_{}", name.replace('-', "_")),
                                serde_json::json!(format!("{} x 'a': longest row {}, {} morphemes, path cost {} (cheapest: {} morphemes, {})", len, maxrow, toks, cost, len, -10 * len as i64)));
                            if toks != len || cost as i64 != -10 * len as i64 {
                                run.fail_with_line(n, "", "c02:row-wrap:not-cheapest", &format!("{} letters (longest lattice row {}): the returned path has {} morphemes and cost {}, the cheapest chain has {} one-letter morphemes and costs {}", len, maxrow, toks, cost, len, -10 * len as i64));
                            }
                        }
                        Ok(Err(e)) => run.fail_with_line(n, "", "c02:row-wrap:error", &format!("{} letters: {}", len, e)),
                        Err(p) => run.fail_with_line(n, "", "c02:row-wrap:panic", &format!("{} letters: {}", len, p)),
                    }
                }
            }
            Err(e) => run.fail_with_line(n, "", "c02:row-wrap:dictionary", &format!("the directed dictionary does not build/load: {}", e)),
        }
    }
    // DIRECTED, oracle only: candidates of a character that has TWO classes which both offer unknown words.  Every candidate
    // the provider produces has to reach the lattice: the cheapest chain is known in closed form (the one grouped word of the
    // cheaper class over the whole run), whichever of the two classes is enumerated first.
    if run.wants(n + 1) {
        let pos = POS[0].join(",");
        for (name, ck, cn) in [("two-classes:first-cheap", 100i32, 9000i32), ("two-classes:second-cheap", 9000, 100)] {
            let wd = Workdir::new(&format!("C02-d-{}", name.replace(':', "-")));
            wd.write("char.def", "DEFAULT 0 1 0\nKANJI 1 1 0\nKANJINUMERIC 1 1 0\n0x58F1 KANJI\n0x5F10 KANJI\n0x58F1 KANJINUMERIC\n0x5F10 KANJINUMERIC\n");
            wd.write("unk.def", &format!("DEFAULT,0,0,20000,{p}\nKANJI,0,0,{ck},{p}\nKANJINUMERIC,0,0,{cn},{p}\n", p = pos, ck = ck, cn = cn));
            let rows = vec![Row::simple("あ", 0, 0, 100, NOUN)];
            let built = build_system(csv_of(&rows, &default_pos()).as_bytes(), "1 1\n0 0 0\n".as_bytes())
                .and_then(|sys| load(&config_json(&wd, &[], &[crate::c13::mecab_json(), simple_oov_json(0, 0, 30000)], &[], &[]), sys, vec![]));
            run.bump(&format!("directed:{}", name));
            match built {
                Ok(dic) => {
                    for text in ["壱弐", "壱", "弐壱弐"] {
                        let res = catch(|| {
                            let mut tok = StatefulTokenizer::new(&dic, Mode::C);
                            tok.reset().push_str(text);
                            tok.do_tokenize().map_err(|e| format!("{:?}", e))?;
                            let mut ml = MorphemeList::empty(&dic);
                            ml.collect_results(&mut tok).map_err(|e| format!("{:?}", e))?;
                            Ok::<(usize, i32), String>((ml.len(), ml.iter().last().map(|m| m.total_cost()).unwrap_or(0)))
                        });
                        let best = ck.min(cn);
                        match res {
                            Ok(Ok((toks, cost))) => {
                                if toks != 1 || cost != best {
                                    run.fail_with_line(n + 1, "", &format!("c02:{}:not-cheapest", name), &format!("text {:?}, every character in the classes KANJI (grouped word cost {}) and KANJINUMERIC (grouped word cost {}): the returned path has {} morphemes and cost {}, the grouped word of the cheaper class covers the text at cost {}", text, ck, cn, toks, cost, best));
                                }
                            }
                            Ok(Err(e)) => run.fail_with_line(n + 1, "", &format!("c02:{}:error", name), &format!("text {:?}: {}", text, e)),
                            Err(p) => run.fail_with_line(n + 1, "", &format!("c02:{}:panic", name), &format!("text {:?}: {}", text, p)),
                        }
                    }
                }
                Err(e) => run.fail_with_line(n + 1, "", &format!("c02:{}:dictionary", name), &format!("the directed dictionary does not build/load: {}", e)),
            }
        }
    }
}

/// a world of C02: `World` + what the connection-cost plugins were told + the shape counters
pub struct C2World {
    pub w: World,
    /// `inhibitPair`s of all configured InhibitConnectionPlugins, in order: (right id of the left word, left id of the right word)
    pub inh: Vec<(usize, usize)>,
    pub shape: Vec<String>,
}

/// The worlds of C02 (third round).  On top of what `gen_world` varies (lexicon with prefix families, homographs, non-indexed
/// rows; matrix square or not; every OOV provider mix; input-text plugins; user dictionaries):
/// * directed homograph rows: same surface and same RIGHT id as an existing row, a different LEFT id, cheaper or dearer than
///   it (both cost orders in row order), in the system dictionary and in user dictionaries (user words are looked up first);
/// * 0, 1, 2 or 14 user dictionaries (15 lexicons is the maximum); user rows with cost -32768 (re-estimated at load);
/// * 0-2 InhibitConnectionPlugins (empty list, duplicates, pairs with id 0 = the sentence-start/-end connection);
/// * costs at the i16 limits in words AND matrix together with inhibited cells.
/// No path-rewrite plugin (the property speaks about the path before rewriting).
pub fn gen_world_c02(rng: &mut Rng, tag: &str, widx: usize) -> Result<C2World, String> {
    let wd = Workdir::new(tag);
    let mut shape: Vec<String> = vec![];
    let n = rng.range(2, 6);
    let extreme = widx % 3 == 1;
    let always_fallback = widx % 4 != 3;
    // every third world has a matrix that is not square, in both orientations; all ids stay below BOTH dimensions
    let (xl, xr) = match widx % 6 { 2 => (1 + rng.below(3), 0), 5 => (0, 1 + rng.below(3)), _ => (0, 0) };
    let matrix = Matrix::random(rng, n + xl, n + xr, extreme);
    shape.push(format!("matrix:{}", if xl > 0 { "more-left" } else if xr > 0 { "more-right" } else { "square" }));
    let lsize = rng.range(8, 24);
    let mut lex = gen_lexicon(rng, n, lsize, extreme, true);
    for (k, s) in ["1", "2", "一", "十"].iter().enumerate() {
        if !lex.rows.iter().any(|r| r.surface == *s) { lex.rows.push(Row::simple(s, (k % n) as i32, ((k + 1) % n) as i32, 700 + 37 * k as i32, NUMERAL)); }
    }
    // directed homographs (appended: row numbers referenced by split declarations stay valid)
    let nh = rng.range(1, 4);
    for _ in 0..nh {
        let base = { let idxs: Vec<usize> = (0..lex.rows.len()).filter(|&i| lex.rows[i].indexed()).collect(); lex.rows[*rng.pick(&idxs)].clone() };
        let l2 = if n > 1 { (base.left as usize + 1 + rng.below(n - 1)) % n } else { 0 };
        let dearer = rng.chance(1, 2);
        let c2 = if dearer { (base.cost + 1 + rng.below(900) as i32).min(32767) } else { (base.cost - rng.below(900) as i32).max(-32767) };
        if rng.chance(1, 6) {
            // an exact DUPLICATE of the row (same surface, ids and cost): two candidates that tie everywhere
            lex.rows.push(Row::simple(&base.surface, base.left, base.right, base.cost, base.pos));
            shape.push("system-row:exact-duplicate".into());
        }
        lex.rows.push(Row::simple(&base.surface, l2 as i32, base.right, c2, base.pos));
        shape.push(format!("system-homograph:same-right-other-left:{}", if c2 > base.cost { "dearer-later" } else if c2 < base.cost { "cheaper-later" } else { "equal-cost" }));
    }
    let csv = csv_of(&lex.rows, &lex.pos);
    let system = build_system(csv.as_bytes(), matrix.text().as_bytes())?;
    let mut desc = vec![];
    // input-text plugins
    let mut input: Vec<String> = vec![];
    let mut input_kinds = vec![];
    {
        let mut kinds = vec![];
        if rng.chance(3, 4) { kinds.push("default"); }
        if rng.chance(1, 2) { kinds.push("psm"); }
        if rng.chance(1, 2) { kinds.push("yomigana"); }
        for k in &kinds {
            input.push(match *k {
                "default" => r#"{"class":"com.worksap.nlp.sudachi.DefaultInputTextPlugin","rewriteDef":"rewrite.def"}"#.to_string(),
                "psm" => format!(r#"{{"class":"com.worksap.nlp.sudachi.ProlongedSoundMarkPlugin","prolongedSoundMarks":["ー","〜","～"],"replacementSymbol":"{}"}}"#, if n % 4 == 3 { "" } else { "ー" }),
                _ => format!(r#"{{"class":"com.worksap.nlp.sudachi.IgnoreYomiganaPlugin","leftBrackets":["(","（","《"],"rightBrackets":[")","）","》"],"maxYomiganaLength":{}}}"#, rng.range(1, 4)),
            });
        }
        input_kinds = kinds;
    }
    desc.push(format!("input:{}", input_kinds.join("+")));
    // OOV providers
    let mut oov: Vec<String> = vec![];
    let mut oov_kinds = vec![];
    if rng.chance(1, 2) {
        wd.write("unk_gen.def", &unk_def(rng, n));
        oov.push(r#"{"class":"com.worksap.nlp.sudachi.MeCabOovPlugin","charDef":"char_full.def","unkDef":"unk_gen.def"}"#.to_string());
        oov_kinds.push("mecab");
    }
    if rng.chance(1, 3) {
        let re = *rng.pick(&["[0-9a-z]+", "[ア-ン]+", "[a-z0-9]{2,}", "あ+"]);
        oov.push(format!(
            r#"{{"class":"com.worksap.nlp.sudachi.RegexOovProvider","regex":"{}","leftId":{},"rightId":{},"cost":{},"oovPOS":{},"maxLength":{},"boundaries":"{}"}}"#,
            re, rng.below(n), rng.below(n), rng.below(5000), OOV_POS_JSON, rng.range(1, 8), if rng.chance(1, 2) { "strict" } else { "relaxed" }
        ));
        oov_kinds.push("regex");
    }
    let mut has_fallback = false;
    if always_fallback || oov.is_empty() || rng.chance(4, 5) {
        let c = if extreme && rng.chance(1, 3) { *rng.pick(&[32767i64, -32768, 0]) } else { rng.below(12000) as i64 };
        oov.push(simple_oov_json(rng.below(n) as i64, rng.below(n) as i64, c));
        oov_kinds.push("simple");
        has_fallback = true;
        if !always_fallback && rng.chance(1, 6) && oov.len() > 1 {
            let x = oov.pop().unwrap();
            oov.insert(0, x);
            oov_kinds.rotate_right(1);
            has_fallback = false;
        }
    }
    desc.push(format!("oov:{}", oov_kinds.join("+")));
    // connection-cost plugins
    let mut inh: Vec<(usize, usize)> = vec![];
    let mut conn: Vec<String> = vec![];
    let nplug = match widx % 4 { 0 => 0, 1 => 1, 2 => rng.range(1, 2), _ => rng.below(3) };
    for _ in 0..nplug {
        let k = match rng.below(5) { 0 => 0, 1 => 1, _ => rng.range(1, 4) };
        let mut pairs: Vec<(usize, usize)> = vec![];
        for _ in 0..k {
            // (right id of the left word, left id of the right word); one in four involves id 0 (sentence start / end)
            let a = if rng.chance(1, 4) { 0 } else { rng.below(matrix.nl) };
            let b = if rng.chance(1, 4) { 0 } else { rng.below(matrix.nr) };
            pairs.push((a, b));
            if rng.chance(1, 5) { pairs.push((a, b)); }
        }
        if pairs.iter().any(|p| p.0 == 0 || p.1 == 0) { shape.push("inhibit:sentence-start-or-end".into()); }
        conn.push(format!(r#"{{"class":"com.worksap.nlp.sudachi.InhibitConnectionPlugin","inhibitPair":[{}]}}"#, pairs.iter().map(|p| format!("[{},{}]", p.0, p.1)).collect::<Vec<_>>().join(",")));
        shape.push(format!("inhibit-plugin:{}-pairs", pairs.len().min(5)));
        inh.extend(pairs);
    }
    shape.push(format!("inhibit-plugins:{}", nplug));
    desc.push(format!("inhibit:{:?}", inh));
    let cfg = config_json_cd(&wd, "char_full.def", &input, &oov, &[], &conn);
    // user dictionaries
    let nusers = if widx % 40 == 13 { 14 } else { match widx % 5 { 0 => 0, 1 => 1, _ => rng.below(3) } };
    let mut users = vec![];
    let mut user_pos = vec![];
    let mut user_bins = vec![];
    if nusers > 0 {
        let base = load(&cfg, system.clone(), vec![])?;
        for _u in 0..nusers {
            let pos = default_pos();
            let k = rng.range(1, 5);
            let pool: Vec<char> = (0..4).map(|_| *rng.pick(WORD_CHARS)).collect();
            let mut rows = vec![];
            for _ in 0..k {
                let r = match rng.below(4) {
                    0 | 1 => {
                        // homograph of a system word: same right id, another left id, cheaper or dearer
                        let idxs: Vec<usize> = (0..lex.rows.len()).filter(|&i| lex.rows[i].indexed()).collect();
                        let b = lex.rows[*rng.pick(&idxs)].clone();
                        let l2 = if n > 1 { (b.left as usize + 1 + rng.below(n - 1)) % n } else { 0 };
                        let c2 = if rng.chance(1, 2) { (b.cost + 1 + rng.below(900) as i32).min(32767) } else { (b.cost - rng.below(900) as i32).max(-32767) };
                        shape.push(format!("user-homograph-of-system-word:{}", if c2 > b.cost { "dearer-first" } else { "cheaper-or-equal-first" }));
                        Row::simple(&b.surface, l2 as i32, b.right, c2, rng.below(pos.len()))
                    }
                    2 => Row::simple(&rng.pick(&lex.rows).surface.clone(), rng.below(n) as i32, rng.below(n) as i32, rng.below(6000) as i32 - 200, rng.below(pos.len())),
                    _ => Row::simple(&rand_word(rng, &pool, 3), rng.below(n) as i32, rng.below(n) as i32, rng.below(6000) as i32 - 200, rng.below(pos.len())),
                };
                let mut r = r;
                if extreme && rng.chance(1, 6) { r.cost = *rng.pick(&[32767, -32767, 32766]); }
                if rng.chance(1, 12) { r.cost = -32768; shape.push("user-row:cost-estimated-at-load".into()); }
                rows.push(r);
            }
            let ucsv = csv_of(&rows, &pos);
            let ub = build_user(&base, ucsv.as_bytes())?;
            user_bins.push(ub);
            users.push(rows);
            user_pos.push(pos);
        }
    }
    shape.push(format!("user-dictionaries:{}", nusers));
    desc.push(format!("users:{}", nusers));
    let dic = load(&cfg, system.clone(), user_bins.clone())?;
    let w = World { wd, lex, matrix, users, user_pos, dic, cfg, desc, has_fallback, has_path_rewrite: false, input_kinds, system_csv: csv, system_bin: system, user_bins };
    Ok(C2World { w, inh, shape })
}
