//! Correspondence / oracle harness: runs the real sudachi.rs code on generated cases.
//! `vharness <prop> --seed N --count K --out DIR [--only I]`
//! writes DIR/cases.txt (one case per line, fed to the Lean driver), DIR/impl.txt (the
//! implementation's canonicalised answer per line) and DIR/summary.json (oracle verdicts,
//! input distribution).
mod c01;
mod c02;
mod c08;
mod c17;
mod c18;
mod c19;
mod c16;
mod c13;
mod c07;
mod c15;
mod c14;
mod c11;
mod c09;
mod c20;
mod c12;
mod c05;
mod c04;
mod c06;
mod c10;
mod c03;
mod common;
mod dict;
mod world;

use common::*;

fn main() {
    let args: Vec<String> = std::env::args().collect();
    if args.len() < 2 {
        eprintln!("usage: vharness <prop> --seed N --count K --out DIR [--only I]");
        std::process::exit(2);
    }
    let prop = args[1].to_uppercase();
    let mut opts = Opts::default();
    let mut i = 2;
    while i < args.len() {
        match args[i].as_str() {
            "--seed" => { opts.seed = args[i + 1].parse().expect("seed"); i += 2; }
            "--count" => { opts.count = args[i + 1].parse().expect("count"); i += 2; }
            "--out" => { opts.out = args[i + 1].clone(); i += 2; }
            "--only" => { opts.only = Some(args[i + 1].parse().expect("only")); i += 2; }
            "--tier" => { opts.thorough = args[i + 1] == "thorough"; i += 2; }
            x => { eprintln!("unknown arg {}", x); std::process::exit(2); }
        }
    }
    // panics of the implementation are caught per case; keep stderr quiet
    install_panic_hook();
    let mut run = Run::new(&prop, &opts);
    match prop.as_str() {
        "C01" => c01::run(&mut run),
        "C02" => c02::run(&mut run),
        "C08" => c08::run(&mut run),
        "C17" => c17::run(&mut run),
        "C18" => c18::run(&mut run),
        "C18CHILD" => { c18::child(&mut run); return; }
        "C18INVENTORY" => { c18::print_inventory(); return; }
        "C19" => c19::run(&mut run),
        "C16" => c16::run(&mut run),
        "C13" => c13::run(&mut run),
        "C07" => c07::run(&mut run),
        "C15" => c15::run(&mut run),
        "C14" => c14::run(&mut run),
        "C11" => c11::run(&mut run),
        "C09" => c09::run(&mut run),
        "C20" => c20::run(&mut run),
        "C12" => c12::run(&mut run),
        "C05" => c05::run(&mut run),
        "C05CHILD" => { c05::child(&opts.out); return; }
        "C04" => c04::run(&mut run),
        "C06" => c06::run(&mut run),
        "C10" => c10::run(&mut run),
        "C03" => c03::run(&mut run),
        _ => { eprintln!("unknown property {}", prop); std::process::exit(2); }
    }
    run.finish();
}
