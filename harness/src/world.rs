//! A random "world": system dictionary (+ user dictionaries) and a configuration with a random
//! plugin stack, loaded through the real `JapaneseDictionary::from_cfg_storage`.
#![allow(dead_code)]
use crate::common::*;
use crate::dict::*;
use sudachi::dic::dictionary::JapaneseDictionary;

#[derive(Clone, Debug)]
pub struct WorldOpts {
    pub input_plugins: bool,
    pub path_rewrite: bool,
    pub max_users: usize,
    pub splits: bool,
    pub extreme: bool,
    pub always_fallback: bool,
    pub lex_size: usize,
    /// exactly this many user dictionaries (14 = the maximum a dictionary set holds besides the system dictionary)
    pub users_exact: Option<usize>,
    /// add words whose declared A/B units are UNRELATED words (key lengths that neither add up to the word nor fall on its
    /// character starts): the clamp and the snap of `NodeSplitIterator::next` are reached only by such declarations
    pub unrelated_units: bool,
    /// lines appended to the world's `rewrite.def` (keys that are NFKC-stable and lower-case reach `replace_fast`, which the
    /// shipped table never does: every shipped key contains a character that sends the text to the slow path)
    pub rewrite_extra: Option<String>,
    /// user dictionaries get a compound whose A/B units and word structure are `U` references to their own first two rows
    pub user_compounds: bool,
}

impl Default for WorldOpts {
    fn default() -> Self {
        WorldOpts { input_plugins: true, path_rewrite: true, max_users: 2, splits: true, extreme: false, always_fallback: true, lex_size: 24, users_exact: None, unrelated_units: false, rewrite_extra: None, user_compounds: false }
    }
}

pub struct World {
    pub wd: Workdir,
    pub lex: LexGen,
    pub matrix: Matrix,
    pub users: Vec<Vec<Row>>,
    pub user_pos: Vec<Vec<[String; 6]>>,
    pub dic: JapaneseDictionary,
    pub cfg: String,
    pub desc: Vec<String>,
    pub has_fallback: bool,
    pub has_path_rewrite: bool,
    pub input_kinds: Vec<&'static str>,
    pub system_csv: String,
    pub system_bin: Vec<u8>,
    pub user_bins: Vec<Vec<u8>>,
}

pub fn unk_def(rng: &mut Rng, n: usize) -> String {
    let cats = ["DEFAULT", "SPACE", "KANJI", "SYMBOL", "NUMERIC", "ALPHA", "HIRAGANA", "KATAKANA", "KANJINUMERIC", "GREEK", "CYRILLIC"];
    let mut s = String::new();
    for c in cats {
        let k = rng.range(1, 2);
        for _ in 0..k {
            let p = POS[rng.below(POS.len())];
            s.push_str(&format!("{},{},{},{},{}\n", c, rng.below(n), rng.below(n), rng.below(9000) as i32 - 500, p.join(",")));
        }
    }
    s
}

pub fn gen_world(rng: &mut Rng, tag: &str, o: &WorldOpts) -> Result<World, String> {
    let wd = Workdir::new(tag);
    if let Some(extra) = &o.rewrite_extra {
        let shipped = std::fs::read_to_string(wd.path.join("rewrite.def")).map_err(|e| format!("rewrite.def: {}", e))?;
        wd.write("rewrite.def", &format!("{}\n{}", shipped, extra));
    }
    let n = rng.range(2, 6);
    // every third world has a matrix that is not square; all connection ids stay below BOTH dimensions (an id between
    // the two is finding D17 and belongs to C20/C06)
    let (xl, xr) = match tag.bytes().fold(0u32, |a, b| a.wrapping_mul(31).wrapping_add(b as u32)) % 3 { 0 => (1 + (n % 3), 0), _ => (0, 0) };
    let (xl, xr) = if n % 2 == 0 { (xl, xr) } else { (xr, xl) };
    let matrix = Matrix::random(rng, n + xl, n + xr, o.extreme);
    let lsize = rng.range(8, o.lex_size.max(9));
    let mut lex = gen_lexicon(rng, n, lsize, o.extreme, o.splits);
    // every world knows a few numerals (part of speech 名詞,数詞), as every real dictionary does: the texts contain
    // "12,345", "3.14", "一二三", "二千十", which JoinNumericPlugin joins only when the first token has that part of speech
    for (k, s) in ["1", "2", "3", "4", "5", "一", "二", "三", "十", "千"].iter().enumerate() {
        if !lex.rows.iter().any(|r| r.surface == *s) {
            lex.rows.push(Row::simple(s, (k % n) as i32, ((k + 1) % n) as i32, 700 + 37 * k as i32, NUMERAL));
        }
    }
    if o.unrelated_units {
        let base = lex.rows.len();
        for _ in 0..rng.range(2, 5) {
            let nparts = rng.range(2, 4);
            let parts: Vec<usize> = (0..nparts).map(|_| rng.below(base)).collect();
            let pool: Vec<char> = (0..3).map(|_| *rng.pick(WORD_CHARS)).collect();
            let surface = rand_word(rng, &pool, 4);
            // cheap, so that the word is on the best path when the text contains it
            let mut row = Row::simple(&surface, rng.below(n) as i32, rng.below(n) as i32, -(rng.below(3000) as i32), rng.below(lex.pos.len()));
            let ids = join(parts.iter(), "/");
            row.mode = 'C';
            match rng.below(3) { 0 => { row.split_a = ids; } 1 => { row.split_b = ids; } _ => { row.split_a = ids.clone(); row.split_b = ids; } }
            lex.rows.push(row);
        }
    }
    let csv = csv_of(&lex.rows, &lex.pos);
    let system = build_system(csv.as_bytes(), matrix.text().as_bytes())?;
    let mut desc = vec![];

    // plugins
    let mut input: Vec<String> = vec![];
    let mut input_kinds = vec![];
    if o.input_plugins {
        let mut kinds = vec![];
        if rng.chance(3, 4) { kinds.push("default"); }
        if rng.chance(1, 2) { kinds.push("psm"); }
        if rng.chance(1, 2) { kinds.push("yomigana"); }
        if rng.chance(1, 4) && kinds.len() > 1 { let i = rng.below(kinds.len()); let k = kinds.remove(i); kinds.push(k); }
        for k in &kinds {
            input.push(match *k {
                "default" => r#"{"class":"com.worksap.nlp.sudachi.DefaultInputTextPlugin","rewriteDef":"rewrite.def"}"#.to_string(),
                // one world in four DELETES runs of marks (replacementSymbol ""): a text made of marks only becomes empty
                "psm" => format!(r#"{{"class":"com.worksap.nlp.sudachi.ProlongedSoundMarkPlugin","prolongedSoundMarks":["ー","〜","～"],"replacementSymbol":"{}"}}"#, if n % 4 == 3 { "" } else { "ー" }),
                _ => format!(r#"{{"class":"com.worksap.nlp.sudachi.IgnoreYomiganaPlugin","leftBrackets":["(","（","《"],"rightBrackets":[")","）","》"],"maxYomiganaLength":{}}}"#, rng.range(1, 4)),
            });
        }
        input_kinds = kinds;
    }
    desc.push(format!("input:{}", input_kinds.join("+")));

    let mut oov: Vec<String> = vec![];
    let mut oov_kinds = vec![];
    if rng.chance(1, 2) {
        wd.write("unk_gen.def", &unk_def(rng, n));
        oov.push(r#"{"class":"com.worksap.nlp.sudachi.MeCabOovPlugin","charDef":"char_full.def","unkDef":"unk_gen.def"}"#.to_string());
        oov_kinds.push("mecab");
    }
    if rng.chance(1, 3) {
        let re = *rng.pick(&["[0-9a-z]+", "[ア-ン]+", "[a-z0-9]{2,}", "あ+"]);
        oov.push(format!(
            r#"{{"class":"com.worksap.nlp.sudachi.RegexOovProvider","regex":"{}","leftId":{},"rightId":{},"cost":{},"oovPOS":{},"maxLength":{},"boundaries":"{}"}}"#,
            re, rng.below(n), rng.below(n), rng.below(5000), OOV_POS_JSON, rng.range(1, 8), if rng.chance(1, 2) { "strict" } else { "relaxed" }
        ));
        oov_kinds.push("regex");
    }
    let mut has_fallback = false;
    if o.always_fallback || oov.is_empty() || rng.chance(4, 5) {
        oov.push(simple_oov_json(rng.below(n) as i64, rng.below(n) as i64, rng.below(12000) as i64));
        oov_kinds.push("simple");
        has_fallback = true;
        if !o.always_fallback && rng.chance(1, 6) && oov.len() > 1 {
            // fallback not last
            let x = oov.pop().unwrap();
            oov.insert(0, x);
            oov_kinds.rotate_right(1);
            has_fallback = false;
        }
    }
    desc.push(format!("oov:{}", oov_kinds.join("+")));

    let mut pr: Vec<String> = vec![];
    let mut has_path_rewrite = false;
    if o.path_rewrite {
        if rng.chance(1, 2) {
            pr.push(format!(r#"{{"class":"com.worksap.nlp.sudachi.JoinNumericPlugin","enableNormalize":{}}}"#, rng.chance(1, 2)));
        }
        if rng.chance(1, 2) {
            pr.push(format!(r#"{{"class":"com.worksap.nlp.sudachi.JoinKatakanaOovPlugin","oovPOS":{},"minLength":{}}}"#, OOV_POS_JSON, rng.below(5)));
        }
        if pr.len() == 2 && rng.chance(1, 3) { pr.swap(0, 1); }
        has_path_rewrite = !pr.is_empty();
    }
    desc.push(format!("rewrite:{}", pr.len()));

    let cfg = config_json_cd(&wd, "char_full.def", &input, &oov, &pr, &[]);

    // user dictionaries: built against the loaded system dictionary
    let nusers = if let Some(k) = o.users_exact { k } else if o.max_users == 0 { 0 } else { rng.below(o.max_users + 1) };
    let mut users = vec![];
    let mut user_pos = vec![];
    let mut user_bins = vec![];
    if nusers > 0 {
        let base = load(&cfg, system.clone(), vec![])?;
        for u in 0..nusers {
            let mut pos = default_pos();
            if rng.chance(1, 2) {
                pos.push(["名詞".into(), "固有名詞".into(), format!("ユーザ{}", u), "*".into(), "*".into(), "*".into()]);
            }
            let k = rng.range(1, 5);
            let pool: Vec<char> = (0..4).map(|_| *rng.pick(WORD_CHARS)).collect();
            let mut rows = vec![];
            for _ in 0..k {
                let w = if rng.chance(1, 3) { rng.pick(&lex.rows).surface.clone() } else { rand_word(rng, &pool, 3) };
                let mut r = Row::simple(&w, rng.below(n) as i32, rng.below(n) as i32, rng.below(6000) as i32 - 200, rng.below(pos.len()));
                if rng.chance(1, 4) { r.norm = rand_word(rng, &pool, 2); }
                rows.push(r);
            }
            if o.user_compounds && rows.len() >= 2 && rows[0].surface != rows[1].surface && rng.chance(3, 4) {
                // a compound of the first two rows, cheap enough to be chosen; its units are references INTO THIS dictionary
                let mut r = Row::simple(&format!("{}{}", rows[0].surface, rows[1].surface), rng.below(n) as i32, rng.below(n) as i32, -(rng.below(2000) as i32) - 500, rng.below(pos.len()));
                r.mode = 'C';
                r.split_a = "U0/U1".into();
                if rng.chance(1, 2) { r.split_b = "U0/U1".into(); }
                r.wstruct = "U0/U1".into();
                rows.push(r);
            }
            let ucsv = csv_of(&rows, &pos);
            let ub = build_user(&base, ucsv.as_bytes())?;
            user_bins.push(ub);
            users.push(rows);
            user_pos.push(pos);
        }
    }
    desc.push(format!("users:{}", nusers));
    let dic = load(&cfg, system.clone(), user_bins.clone())?;
    Ok(World { wd, lex, matrix, users, user_pos, dic, cfg, desc, has_fallback, has_path_rewrite, input_kinds, system_csv: csv, system_bin: system, user_bins })
}

/// a text over the characters of the world's words plus the general pool
pub fn gen_text(rng: &mut Rng, w: &World, maxlen: usize) -> String {
    let mut s = String::new();
    let n = rng.below(maxlen + 1);
    while s.chars().count() < n {
        match rng.below(10) {
            0..=4 => s.push_str(&rng.pick(&w.lex.rows).surface),
            5 if !w.users.is_empty() => { let u = rng.below(w.users.len()); let r = rng.below(w.users[u].len()); s.push_str(&w.users[u][r].surface) }
            6 => s.push_str(*rng.pick(&["12,345", "3.14", "一二三", "二千十", "アイウ", "ァ", "ｶﾞ", "(あい)", "東（とう）", "ーー", "〜～ー", "👍🏻", "e\u{301}", "\u{200d}あ"])),
            _ => s.push(*rng.pick(TEXT_CHARS)),
        }
    }
    s
}
