//! C15: joined numerals are normalised to their decimal value.
//!
//! op `parse`    : `verif_parse` (the real `NumericParser`) on a string over the numeral alphabet.
//! op `seq`      : `verif_parse_seq`: ONE `NumericParser`, `clear()` between the texts (the way `rewrite_gen` reuses its
//!                 parser for all numeric runs of a sentence); only when the tree under test has that hook
//!                 (`cfg(c15_seq_hook)`, set by build.rs), otherwise the cases are skipped and counted.
//! op `pipeline` : real dictionary + `JoinNumericPlugin`; the model predicts the joined tokens from
//!                 the un-joined path (same text tokenised by a configuration without the plugin).
//!
//! op `modes`    : dictionaries whose numeral WORDS declare A/B split units; the tokenizer in modes C, A, B and
//!                 `Morpheme::split_into` of the mode-C morphemes; model = `RewriteNumericSplit` (the joiner, then C09's
//!                 split model on the rewritten path).
//!
//! The oracle (`reference`, `Dec`) is independent of the Lean model and of the implementation's
//! algorithm: it evaluates a numeral by exact decimal arithmetic on digit vectors (sum of
//! coefficient x power of ten), checks positional non-overlap *by value*, and the separator /
//! unit-order rules by a direct description of the notation.
use crate::common::*;
use crate::dict::*;
use std::collections::BTreeMap;
use sudachi::analysis::node::{LatticeNode, PathCost, ResultNode, RightId};
use sudachi::analysis::stateful_tokenizer::StatefulTokenizer;
use sudachi::analysis::Mode;
use sudachi::dic::dictionary::JapaneseDictionary;
use sudachi::dic::subset::InfoSubset;
use sudachi::input_text::InputBuffer;
use sudachi::plugin::path_rewrite::join_numeric::verif_parse;
#[cfg(c15_seq_hook)]
use sudachi::plugin::path_rewrite::join_numeric::verif_parse_seq;

/// does the tree under test have the hook `verif_parse_seq` (see build.rs)?
pub const SEQ_HOOK_PRESENT: bool = cfg!(c15_seq_hook);

/// Which of the repairs of the findings F1..F6 the tree under test carries, one `0`/`1` per repair.
/// Probed on the BEHAVIOUR of the real parser (`verif_parse` on the smallest witness of each
/// finding), so the answer does not depend on how a repair is worded; the Lean model carries both
/// behaviours of every switch (`Numeric.Variant`) and reads the token `fix=` of each case line.
///   F1 "1.5,000"  the separator after the fraction is rejected (pinned: accepted, "1.5")
///   F2 "1.千5"    the unit after the point is rejected        (pinned: accepted, "1005")
///   F3 "1,千"     the unit after the open group is rejected   (pinned: accepted, "1000")
///   F4 "十万一万"  the second 万 is rejected                   (pinned: accepted, "110000")
///   F5 "0.1万"    normal form "1000"                          (pinned: "01000")
///   F6 "7十九三." done() fails with error NONE                (pinned: POINT)
pub fn probe_fixes() -> String {
    static P: std::sync::OnceLock<String> = std::sync::OnceLock::new();
    P.get_or_init(|| {
        let rejected_at = |s: &str, at: usize| -> bool {
            matches!(catch(|| verif_parse(s)), Ok((n, _, false, _)) if n == at)
        };
        let f1 = rejected_at("1.5,000", 3);
        let f2 = rejected_at("1.千5", 2);
        let f3 = rejected_at("1,千", 2);
        let f4 = rejected_at("十万一万", 3);
        let f5 = matches!(catch(|| verif_parse("0.1万")), Ok((4, 0, true, ref norm)) if norm == "1000");
        let f6 = matches!(catch(|| verif_parse("7十九三.")), Ok((5, 0, false, _)));
        [f1, f2, f3, f4, f5, f6].iter().map(|&b| if b { '1' } else { '0' }).collect()
    })
    .clone()
}

pub const ALPHABET: [char; 28] = [
    '0', '1', '2', '3', '4', '5', '6', '7', '8', '9', '〇', '一', '二', '三', '四', '五', '六', '七', '八', '九', '十', '百',
    '千', '万', '億', '兆', ',', '.',
];
const KANJI_DIGITS: [char; 10] = ['〇', '一', '二', '三', '四', '五', '六', '七', '八', '九'];
const SMALL_UNITS: [char; 4] = ['\0', '十', '百', '千'];
const LARGE_UNITS: [(char, usize); 3] = [('万', 4), ('億', 8), ('兆', 12)];

#[derive(Clone, Copy, Debug, PartialEq)]
pub enum Sym {
    D(u8),
    Small(u8),
    Large(u8),
    Comma,
    Point,
}

pub fn sym_of(c: char) -> Option<Sym> {
    Some(match c {
        '0'..='9' => Sym::D(c as u8 - b'0'),
        '０'..='９' => Sym::D((c as u32 - '０' as u32) as u8),
        '〇' => Sym::D(0),
        '一' => Sym::D(1),
        '二' => Sym::D(2),
        '三' => Sym::D(3),
        '四' => Sym::D(4),
        '五' => Sym::D(5),
        '六' => Sym::D(6),
        '七' => Sym::D(7),
        '八' => Sym::D(8),
        '九' => Sym::D(9),
        '十' => Sym::Small(1),
        '百' => Sym::Small(2),
        '千' => Sym::Small(3),
        '万' => Sym::Large(4),
        '億' => Sym::Large(8),
        '兆' => Sym::Large(12),
        ',' | '，' => Sym::Comma,
        '.' | '．' => Sym::Point,
        _ => return None,
    })
}

pub fn syms_of(s: &str) -> Option<Vec<Sym>> {
    s.chars().map(sym_of).collect()
}

/// shape of a string for finding keys: d digit, s small unit, L large unit
fn shape(s: &[Sym]) -> String {
    s.iter()
        .map(|x| match x {
            Sym::D(_) => 'd',
            Sym::Small(_) => 's',
            Sym::Large(_) => 'L',
            Sym::Comma => ',',
            Sym::Point => '.',
        })
        .collect()
}

// ------------------------------------------------------------------------------------------------
// exact decimals on digit vectors

/// value = (digits as an integer) x 10^-f ; most significant digit first
#[derive(Clone, Debug)]
pub struct Dec {
    d: Vec<u8>,
    f: usize,
}

impl Dec {
    pub fn zero() -> Dec {
        Dec { d: vec![0], f: 0 }
    }
    pub fn from_parts(int: &[u8], frac: &[u8]) -> Dec {
        let mut d = int.to_vec();
        d.extend_from_slice(frac);
        if d.is_empty() {
            d.push(0);
        }
        Dec { d, f: frac.len() }
    }
    pub fn one() -> Dec {
        Dec { d: vec![1], f: 0 }
    }
    /// multiply by 10^k
    pub fn shl(&self, k: usize) -> Dec {
        let mut r = self.clone();
        if r.f >= k {
            r.f -= k;
        } else {
            let z = k - r.f;
            r.f = 0;
            r.d.extend(std::iter::repeat(0).take(z));
        }
        r
    }
    pub fn add(&self, o: &Dec) -> Dec {
        let f = self.f.max(o.f);
        let mut a = self.d.clone();
        a.extend(std::iter::repeat(0).take(f - self.f));
        let mut b = o.d.clone();
        b.extend(std::iter::repeat(0).take(f - o.f));
        let n = a.len().max(b.len()) + 1;
        let mut out = vec![0u8; n];
        let mut carry = 0u8;
        for k in 0..n {
            let x = if k < a.len() { a[a.len() - 1 - k] } else { 0 };
            let y = if k < b.len() { b[b.len() - 1 - k] } else { 0 };
            let s = x + y + carry;
            out[n - 1 - k] = s % 10;
            carry = s / 10;
        }
        Dec { d: out, f }
    }
    pub fn is_zero(&self) -> bool {
        self.d.iter().all(|&x| x == 0)
    }
    /// p with 10^(p-1) <= value < 10^p
    fn magnitude(&self) -> Option<i64> {
        let first = self.d.iter().position(|&x| x != 0)?;
        Some((self.d.len() - first) as i64 - self.f as i64)
    }
    /// value < 10^a
    pub fn lt_pow10(&self, a: i64) -> bool {
        match self.magnitude() {
            None => true,
            Some(p) => p <= a,
        }
    }
    /// canonical rendering: no leading zeros (at least one integer digit), no trailing fractional zeros
    pub fn canon(&self) -> String {
        let n = self.d.len();
        let (int, frac) = if self.f >= n {
            let mut fr = vec![0u8; self.f - n];
            fr.extend_from_slice(&self.d);
            (vec![], fr)
        } else {
            (self.d[..n - self.f].to_vec(), self.d[n - self.f..].to_vec())
        };
        render_int_frac(&int, &frac, false)
    }
    pub fn parse(s: &str) -> Option<Dec> {
        let mut it = s.split('.');
        let a = it.next()?;
        let b = it.next().unwrap_or("");
        if it.next().is_some() || a.is_empty() {
            return None;
        }
        let dig = |x: &str| -> Option<Vec<u8>> { x.chars().map(|c| c.to_digit(10).map(|v| v as u8)).collect() };
        Some(Dec::from_parts(&dig(a)?, &dig(b)?))
    }
    pub fn num_eq(&self, o: &Dec) -> bool {
        self.canon() == o.canon()
    }
}

/// digits -> text; `keep_zeros` keeps the leading zeros of the integer part
fn render_int_frac(int: &[u8], frac: &[u8], keep_zeros: bool) -> String {
    let mut i0 = 0;
    if !keep_zeros {
        while i0 < int.len() && int[i0] == 0 {
            i0 += 1;
        }
    }
    let mut s: String = int[i0..].iter().map(|&x| (b'0' + x) as char).collect();
    if s.is_empty() {
        s.push('0');
    }
    let mut fe = frac.len();
    while fe > 0 && frac[fe - 1] == 0 {
        fe -= 1;
    }
    if fe > 0 {
        s.push('.');
        s.extend(frac[..fe].iter().map(|&x| (b'0' + x) as char));
    }
    s
}

// ------------------------------------------------------------------------------------------------
// the reference reading of the notation

#[derive(Clone, Debug)]
pub enum Class {
    /// well-formed: must be joined, normalised form exactly this
    WF(String),
    /// value is defined but the notation is unusual (leading zeros / zero coefficients next to
    /// units, zero first comma group): joining is optional, a joined value must equal this
    DontCare(Dec),
    /// must never be joined as a whole
    Malformed(&'static str),
}

struct RunInfo {
    int: Vec<u8>,
    frac: Vec<u8>,
    has_comma: bool,
}

/// digits with optional thousands separators and an optional fraction
fn parse_run(s: &[Sym]) -> Result<RunInfo, &'static str> {
    let parts: Vec<&[Sym]> = s.split(|x| *x == Sym::Point).collect();
    if parts.len() > 2 {
        if parts[0].is_empty() {
            return Err("point-leading");
        }
        return Err("point-double");
    }
    let digits = |g: &[Sym]| -> Vec<u8> { g.iter().filter_map(|x| if let Sym::D(v) = x { Some(*v) } else { None }).collect() };
    let int_part = parts[0];
    if int_part.is_empty() {
        return Err("point-leading");
    }
    let groups: Vec<&[Sym]> = int_part.split(|x| *x == Sym::Comma).collect();
    let has_comma = groups.len() > 1;
    if has_comma {
        let g0 = groups[0].len();
        if g0 == 0 || g0 > 3 {
            return Err("comma-first-group");
        }
        for (k, g) in groups.iter().enumerate().skip(1) {
            if g.len() != 3 {
                return Err(if k + 1 == groups.len() { "comma-last-group" } else { "comma-mid-group" });
            }
        }
    }
    let mut frac = vec![];
    if parts.len() == 2 {
        if parts[1].is_empty() {
            return Err("point-dangling");
        }
        if parts[1].iter().any(|x| *x == Sym::Comma) {
            return Err("comma-in-fraction");
        }
        frac = digits(parts[1]);
    }
    Ok(RunInfo { int: digits(int_part), frac, has_comma })
}

fn before_unit(k: &'static str) -> &'static str {
    match k {
        "point-leading" => "point-leading-before-unit",
        "point-double" => "point-double-before-unit",
        "point-dangling" => "point-dangling-before-unit",
        "comma-first-group" => "comma-first-group-before-unit",
        "comma-mid-group" => "comma-mid-group-before-unit",
        "comma-last-group" => "comma-last-group-before-unit",
        "comma-in-fraction" => "comma-in-fraction-before-unit",
        _ => "run-before-unit",
    }
}

pub fn reference(s: &[Sym]) -> Class {
    if s.is_empty() {
        return Class::Malformed("empty");
    }
    let has_unit = s.iter().any(|x| matches!(x, Sym::Small(_) | Sym::Large(_)));
    if !has_unit {
        return match parse_run(s) {
            Err(k) => Class::Malformed(k),
            Ok(r) => {
                let v = Dec::from_parts(&r.int, &r.frac);
                if r.has_comma && r.int[0] == 0 {
                    Class::DontCare(v)
                } else {
                    Class::WF(render_int_frac(&r.int, &r.frac, true))
                }
            }
        };
    }
    // Positions: a written coefficient with L integer digits in front of 10^e occupies the decimal
    // positions below L+e and leaves free the positions below e - (number of fraction digits).
    // Every later term must fit entirely into the free positions (no overlap); units must strictly
    // decrease.  The VALUE is computed separately by exact decimal arithmetic.
    let mut odd = false;
    let mut total = Dec::zero();
    let mut total_avail: Option<i64> = None;
    let mut last_large: Option<u8> = None;
    let mut sub = Dec::zero();
    let mut sub_avail: Option<i64> = None;
    let mut sub_hi: Option<i64> = None;
    let mut last_small: Option<u8> = None;
    let mut i = 0;
    let n = s.len();
    while i <= n {
        // maximal run of digits / separators starting at i
        let mut j = i;
        while j < n && matches!(s[j], Sym::D(_) | Sym::Comma | Sym::Point) {
            j += 1;
        }
        let run = if j > i {
            match parse_run(&s[i..j]) {
                Err(k) => return Class::Malformed(if j < n { before_unit(k) } else { k }),
                Ok(r) => Some(r),
            }
        } else {
            None
        };
        if let Some(r) = &run {
            let zero = r.int.iter().all(|&x| x == 0) && r.frac.iter().all(|&x| x == 0);
            if (r.int.len() > 1 && r.int[0] == 0) || zero {
                odd = true;
            }
        }
        let next = if j < n { Some(s[j]) } else { None };
        match next {
            Some(Sym::Small(e)) => {
                let (coef, il, fl) = match &run {
                    Some(r) => (Dec::from_parts(&r.int, &r.frac), r.int.len() as i64, r.frac.len() as i64),
                    None => (Dec::one(), 1, 0),
                };
                if let Some(l) = last_small {
                    if e >= l {
                        return Class::Malformed("small-unit-order");
                    }
                }
                let hi = il + e as i64;
                if let Some(a) = sub_avail {
                    if hi > a {
                        return Class::Malformed("overlap");
                    }
                }
                if sub_hi.is_none() {
                    sub_hi = Some(hi);
                }
                sub = sub.add(&coef.shl(e as usize));
                sub_avail = Some(e as i64 - fl);
                last_small = Some(e);
            }
            Some(Sym::Large(_)) | None => {
                if let Some(r) = &run {
                    let hi = r.int.len() as i64;
                    if let Some(a) = sub_avail {
                        if hi > a {
                            return Class::Malformed("overlap");
                        }
                    }
                    if sub_hi.is_none() {
                        sub_hi = Some(hi);
                    }
                    sub = sub.add(&Dec::from_parts(&r.int, &r.frac));
                    sub_avail = Some(-(r.frac.len() as i64));
                }
                if let Some(Sym::Large(e)) = next {
                    let (a_sub, hi) = match (sub_avail, sub_hi) {
                        (Some(a), Some(h)) => (a, h),
                        _ => return Class::Malformed("large-unit-no-coefficient"),
                    };
                    if let Some(l) = last_large {
                        if e >= l {
                            return Class::Malformed("large-unit-order");
                        }
                    }
                    if let Some(a) = total_avail {
                        if hi + e as i64 > a {
                            return Class::Malformed("overlap");
                        }
                    }
                    total = total.add(&sub.shl(e as usize));
                    total_avail = Some(a_sub + e as i64);
                    last_large = Some(e);
                    sub = Dec::zero();
                    sub_avail = None;
                    sub_hi = None;
                    last_small = None;
                } else if let Some(hi) = sub_hi {
                    // end of text
                    if let Some(a) = total_avail {
                        if hi > a {
                            return Class::Malformed("overlap");
                        }
                    }
                    total = total.add(&sub);
                }
            }
            _ => unreachable!(),
        }
        i = j + 1;
    }
    if odd {
        Class::DontCare(total)
    } else {
        Class::WF(total.canon())
    }
}

// ------------------------------------------------------------------------------------------------
// value-driven generation

pub struct Value {
    pub int: Vec<u8>,  // no leading zero unless the single digit 0
    pub frac: Vec<u8>, // as written (may end in zeros)
}

impl Value {
    pub fn canon(&self) -> String {
        render_int_frac(&self.int, &self.frac, false)
    }
}

fn gen_value(rng: &mut Rng) -> Value {
    let len = match rng.below(10) {
        0..=3 => rng.range(1, 5),
        4..=6 => rng.range(5, 13),
        7..=8 => rng.range(13, 20),
        _ => rng.range(20, 40),
    };
    let mut int: Vec<u8> = (0..len).map(|_| if rng.chance(2, 5) { 0 } else { rng.below(10) as u8 }).collect();
    if int[0] == 0 {
        int[0] = rng.range(1, 9) as u8;
    }
    if len == 1 && rng.chance(1, 6) {
        int[0] = 0;
    }
    let frac: Vec<u8> = if rng.chance(1, 3) {
        let fl = rng.range(1, 5);
        (0..fl).map(|_| if rng.chance(1, 3) { 0 } else { rng.below(10) as u8 }).collect()
    } else {
        vec![]
    };
    Value { int, frac }
}

fn digit_glyph(rng: &mut Rng, d: u8, style: usize) -> char {
    // style 0 arabic, 1 kanji, 2 mixed
    let kanji = match style {
        0 => false,
        1 => true,
        _ => rng.chance(1, 2),
    };
    if kanji {
        KANJI_DIGITS[d as usize]
    } else {
        (b'0' + d) as char
    }
}

fn push_digits(rng: &mut Rng, out: &mut String, ds: &[u8], style: usize) {
    for &d in ds {
        out.push(digit_glyph(rng, d, style));
    }
}

fn push_comma_grouped(rng: &mut Rng, out: &mut String, ds: &[u8], style: usize) {
    let n = ds.len();
    for (k, &d) in ds.iter().enumerate() {
        if k > 0 && (n - k) % 3 == 0 {
            out.push(',');
        }
        out.push(digit_glyph(rng, d, style));
    }
}

/// a 1..4 digit group (most significant first, may start with zeros) with small units;
/// returns false when nothing was written (group is zero)
fn push_small_units(rng: &mut Rng, out: &mut String, g: &[u8], style: usize) -> bool {
    let n = g.len();
    let mut any = false;
    for (k, &d) in g.iter().enumerate() {
        let e = n - 1 - k;
        if d == 0 {
            continue;
        }
        any = true;
        if e == 0 {
            out.push(digit_glyph(rng, d, style));
        } else {
            if d != 1 || rng.chance(1, 3) {
                out.push(digit_glyph(rng, d, style));
            }
            out.push(SMALL_UNITS[e]);
        }
    }
    any
}

/// the expected canonical form is computed from the VALUE, never from the rendering
pub fn render_value(rng: &mut Rng, v: &Value) -> (String, String, &'static str) {
    let style = rng.below(3);
    let mut out = String::new();
    let int_nonzero = v.int.iter().any(|&x| x != 0);
    let kind = rng.below(10);
    if kind < 2 || !int_nonzero {
        // plain digits, possibly with leading zeros (kept by the normal form)
        let lz = if rng.chance(1, 4) { rng.range(1, 3) } else { 0 };
        let mut ds = vec![0u8; lz];
        ds.extend_from_slice(&v.int);
        push_digits(rng, &mut out, &ds, style);
        let mut canon = render_int_frac(&ds, &v.frac, true);
        if !v.frac.is_empty() {
            out.push('.');
            push_digits(rng, &mut out, &v.frac, style);
        } else {
            canon = render_int_frac(&ds, &[], true);
        }
        return (out, canon, "plain");
    }
    if kind < 4 {
        push_comma_grouped(rng, &mut out, &v.int, style);
        if !v.frac.is_empty() {
            out.push('.');
            push_digits(rng, &mut out, &v.frac, style);
        }
        return (out, v.canon(), if v.int.len() > 3 { "comma" } else { "plain" });
    }
    // unit notation: groups of four digits from the right; everything above 10^16 stays in the top group
    let n = v.int.len();
    let mut groups: Vec<(Vec<u8>, usize)> = vec![]; // (digits, large exponent)
    let top_cut = if n > 16 { n - 12 } else { n % 4 + if n % 4 == 0 { 4 } else { 0 } };
    let top_cut = top_cut.min(n);
    let mut pos = 0;
    let mut cut = top_cut;
    while pos < n {
        let e = n - cut;
        groups.push((v.int[pos..cut].to_vec(), e));
        pos = cut;
        cut = (cut + 4).min(n);
    }
    let mut kind_name = "units";
    let ng = groups.len();
    for (gi, (g, e)) in groups.iter().enumerate() {
        if g.iter().all(|&x| x == 0) {
            continue;
        }
        let last = gi + 1 == ng;
        let first_nz = g.iter().position(|&x| x != 0).unwrap();
        let gs = &g[first_nz..];
        let mode = if gs.len() > 4 { 1 } else { rng.below(4) };
        match mode {
            0 | 3 => {
                push_small_units(rng, &mut out, gs, style);
            }
            1 => push_digits(rng, &mut out, gs, style),
            _ => {
                if gs.len() == 4 {
                    push_comma_grouped(rng, &mut out, gs, style);
                    kind_name = "units+comma";
                } else {
                    push_digits(rng, &mut out, gs, style);
                }
            }
        }
        if !last {
            let u = LARGE_UNITS.iter().find(|(_, x)| x == e).map(|(c, _)| *c);
            match u {
                Some(c) => out.push(c),
                None => unreachable!("group exponent {}", e),
            }
        }
    }
    // a fraction can only follow a written ones digit
    let ones_written = *v.int.last().unwrap() != 0;
    let canon = if !v.frac.is_empty() && ones_written {
        out.push('.');
        push_digits(rng, &mut out, &v.frac, style);
        kind_name = "units+fraction";
        v.canon()
    } else {
        render_int_frac(&v.int, &[], false)
    };
    (out, canon, kind_name)
}

/// coefficient notation: c x small unit x large unit, e.g. 1.5百万
fn render_coefficient(rng: &mut Rng) -> (String, String) {
    let style = rng.below(3);
    let ci: Vec<u8> = vec![rng.range(1, 9) as u8];
    let cf: Vec<u8> = (0..rng.range(0, 3)).map(|_| rng.below(10) as u8).collect();
    let se = rng.below(4);
    let le = *rng.pick(&[0usize, 4, 8, 12]);
    let mut out = String::new();
    push_digits(rng, &mut out, &ci, style);
    if !cf.is_empty() {
        out.push('.');
        push_digits(rng, &mut out, &cf, style);
    }
    if se > 0 {
        out.push(SMALL_UNITS[se]);
    }
    if le > 0 {
        out.push(LARGE_UNITS.iter().find(|(_, x)| *x == le).unwrap().0);
    }
    let v = Dec::from_parts(&ci, &cf).shl(se + le);
    (out, v.canon())
}

fn mutate(rng: &mut Rng, s: &str) -> (String, &'static str) {
    let mut cs: Vec<char> = s.chars().collect();
    let n = cs.len();
    let digit_positions: Vec<usize> = (0..n).filter(|&i| matches!(sym_of(cs[i]), Some(Sym::D(_)))).collect();
    let unit_positions: Vec<usize> = (0..n).filter(|&i| matches!(sym_of(cs[i]), Some(Sym::Small(_)) | Some(Sym::Large(_)))).collect();
    let comma_positions: Vec<usize> = (0..n).filter(|&i| cs[i] == ',').collect();
    let point_positions: Vec<usize> = (0..n).filter(|&i| cs[i] == '.').collect();
    let what;
    match rng.below(12) {
        0 => { let p = rng.below(n + 1); cs.insert(p, ','); what = "insert-comma"; }
        1 if !comma_positions.is_empty() => {
            // move a comma by one
            let p = *rng.pick(&comma_positions);
            cs.remove(p);
            let q = if rng.chance(1, 2) && p > 0 { p - 1 } else { (p + 1).min(cs.len()) };
            cs.insert(q, ',');
            what = "move-comma";
        }
        2 if !comma_positions.is_empty() && !digit_positions.is_empty() => {
            // change the length of a comma group
            let p = *rng.pick(&comma_positions);
            if rng.chance(1, 2) { cs.insert(p + 1, '0'); } else if p + 1 < cs.len() { cs.remove(p + 1); }
            what = "group-length";
        }
        3 => { cs.push('.'); what = "append-point"; }
        4 => { let p = rng.below(n + 1); cs.insert(p, '.'); what = "insert-point"; }
        5 if unit_positions.len() >= 2 => {
            let a = *rng.pick(&unit_positions);
            let b = *rng.pick(&unit_positions);
            cs.swap(a, b);
            what = "swap-units";
        }
        6 if !unit_positions.is_empty() => {
            let p = *rng.pick(&unit_positions);
            let c = cs[p];
            let q = rng.range(p, n);
            cs.insert(q, c);
            what = "duplicate-unit";
        }
        7 => {
            let p = rng.below(n + 1);
            cs.insert(p, *rng.pick(&['十', '百', '千', '万', '億', '兆']));
            what = "insert-unit";
        }
        8 if !point_positions.is_empty() => {
            // separators inside the fraction
            let p = point_positions[0];
            let q = rng.range(p + 1, n);
            cs.insert(q, ',');
            what = "comma-in-fraction";
        }
        9 if n > 1 => { let p = rng.below(n); cs.remove(p); what = "delete"; }
        10 => { cs.push(','); what = "append-comma"; }
        _ => {
            // thousands groups appended to anything: 1.5 -> 1.5,000
            cs.push(',');
            for _ in 0..3 { cs.push((b'0' + rng.below(10) as u8) as char); }
            what = "append-group";
        }
    }
    (cs.into_iter().collect(), what)
}

fn random_string(rng: &mut Rng) -> String {
    let n = rng.range(5, 12);
    // weights: digits common, separators and units regular
    (0..n)
        .map(|_| match rng.below(10) {
            0..=4 => ALPHABET[rng.below(20)],
            5..=6 => ALPHABET[20 + rng.below(6)],
            7 => ',',
            8 => '.',
            _ => ALPHABET[rng.below(28)],
        })
        .collect()
}

// ------------------------------------------------------------------------------------------------
// op parse

const DIRECTED: &[&str] = &[
    "1000", "001000", "〇一〇〇〇", "00.1000", "000", "二十七", "千三百二十七", "千十七", "千三百二十七.〇五", "三百二十百",
    "1万", "千三百二十七万", "千三百二十七万一四", "千三百二十七万一四.〇五", "三兆2千億千三百二十七万一四.〇五", "億万",
    "1.5千", "1.5百万", "1.5百万1.5千20", "1.5千5百", "1.5千500", "200000000000000000000万", "2,000,000", "259万2,300",
    "200,00,000", "2,4", "000,000", ",000", "256,55.1", "6.0", "6.", "1.2.3", "0", "0.0", "1,000.50", "12十", "十", "万",
    "1.5,000", "12.5,000,000", "1.千5", "1,千", "1,00万", "十万一万", "千万百万", "0万", "十05", "1.23456万", "1.23456万7",
    "1万2億", "一,〇〇〇", "1,000千", "012,345", "0,000", "1.", ".", ",", "..", "1..", "1,,", "1,000,", "1,000.", "兆億万千百十",
];

const E4: usize = 28 + 28 * 28 + 28 * 28 * 28 + 28 * 28 * 28 * 28;
const E5: usize = 28 * 28 * 28 * 28 * 28;

/// k-th string over the alphabet in length-then-lexicographic order (k < E4 + E5)
fn kth_string(mut k: usize) -> String {
    let mut len = 1;
    let mut block = 28;
    while k >= block {
        k -= block;
        block *= 28;
        len += 1;
    }
    let mut cs = vec!['0'; len];
    for p in (0..len).rev() {
        cs[p] = ALPHABET[k % 28];
        k /= 28;
    }
    cs.into_iter().collect()
}

struct FailCap {
    per_kind: BTreeMap<String, usize>,
}

impl FailCap {
    fn allow(&mut self, kind: &str) -> bool {
        let c = self.per_kind.entry(kind.to_string()).or_insert(0);
        *c += 1;
        *c <= 300
    }
}

/// how a normal form that differs from the canonical rendering differs
fn rendering_kind(norm: &str, canon: &str) -> &'static str {
    let extra = norm.len().saturating_sub(canon.len());
    if norm.len() > canon.len() && norm.ends_with(canon) && norm[..extra].chars().all(|c| c == '0') {
        "wf-leading-zeros"
    } else if Dec::parse(norm).map_or(false, |x| Dec::parse(canon).map_or(false, |c| x.num_eq(&c))) {
        "wf-rendering"
    } else {
        "wf-value"
    }
}

/// the oracle for one string; returns (kind, message) when the implementation breaks the property
fn judge_parse(s: &str, n: usize, done: bool, norm: &str) -> Option<(String, String)> {
    let syms = syms_of(s)?;
    let total = s.chars().count();
    let joined = n == total && done;
    match reference(&syms) {
        Class::WF(canon) => {
            if !joined {
                Some(("wf-rejected".into(), format!("well-formed numeral {:?} (value {}) is not accepted (stopped at {}, done={})", s, canon, n, done)))
            } else if norm != canon {
                let kind = rendering_kind(norm, &canon);
                Some((kind.into(), format!("well-formed numeral {:?}: normalised {:?}, decimal rendering of its value is {:?} ({})", s, norm, canon, kind)))
            } else {
                None
            }
        }
        Class::DontCare(v) => {
            if joined {
                match Dec::parse(norm) {
                    Some(x) if x.num_eq(&v) => None,
                    _ => Some(("value".into(), format!("{:?} accepted with normal form {:?}, its value is {}", s, norm, v.canon()))),
                }
            } else {
                None
            }
        }
        Class::Malformed(k) => {
            if k == "empty" {
                None
            } else if joined {
                Some((k.to_string(), format!("malformed numeral {:?} ({}) is accepted as one numeral with normal form {:?}", s, k, norm)))
            } else {
                None
            }
        }
    }
}

fn parse_case(run: &mut Run, cap: &mut FailCap, idx: usize, s: &str, emit: bool, tag: &str) {
    let r = catch(|| verif_parse(s));
    let payload = format!("fix={} s={}", probe_fixes(), cps(s));
    let answer = match &r {
        Err(_) => "PANIC".to_string(),
        Ok((n, e, d, norm)) => format!("n={} err={} done={} norm={}", n, e, if *d { 1 } else { 0 }, join(norm.chars().map(|c| c as u32), ",")),
    };
    let line = format!("C15 parse idx={} {}", idx, payload);
    if emit {
        run.case(idx, "parse", &payload, &answer, s.chars().count() >= 2);
    }
    match &r {
        Err(p) => {
            run.bump("parse:panic");
            run.fail_with_line(idx, &line, &format!("parse:panic:{}", s), &format!("NumericParser panics on {:?}: {}", s, p));
        }
        Ok((n, _e, d, norm)) => {
            let total = s.chars().count();
            run.bump(if *n == total && *d { "parse:accepted" } else if *n == total { "parse:done-false" } else { "parse:char-rejected" });
            if !tag.is_empty() {
                run.bump(&format!("gen:{}", tag));
            }
            if let Some(syms) = syms_of(s) {
                match reference(&syms) {
                    Class::WF(_) => run.bump("ref:well-formed"),
                    Class::DontCare(_) => run.bump("ref:unusual"),
                    Class::Malformed(k) => run.bump(&format!("ref:malformed:{}", k)),
                }
            }
            if let Some((kind, msg)) = judge_parse(s, *n, *d, norm) {
                run.bump(&format!("oracle-fail:{}", kind));
                if cap.allow(&kind) {
                    let key = format!("parse:{}:{}:{}", kind, syms_of(s).map(|x| shape(&x)).unwrap_or_default(), s);
                    run.fail_with_line(idx, &line, &key, &msg);
                }
            }
        }
    }
}

// ------------------------------------------------------------------------------------------------
// op seq: one parser, clear() between the texts

/// every field `NumericParser::clear()` resets is left in a non-initial state by one text and
/// observed by the next one
const DIRECTED_SEQ: &[&[&str]] = &[
    // has_unit: a unit numeral, then a zero-led plain digit string
    &["三千", "007"],
    &["0.5百", "00.50"],
    &["1万", "〇九〇"],
    &["二十五", "0010"],
    // last_large_unit: a large unit, then a larger (or the same) large unit
    &["1万", "2億"],
    &["千三百二十七万", "1万"],
    &["3兆", "2億5千万", "三兆二千億一"],
    // has_hanging_point / error_state: hanging point or POINT rejection, then a normal text (digit-led and unit-led)
    &["6.", "5"],
    &["6.", "十五"],
    &["1.2.3", "12"],
    &["1.2.3", "千五"],
    &["1.千", "百"],
    &["6.", "三百二十百"],
    // has_comma / digit_length / error_state: COMMA rejection or a completed group, then a normal text
    &["2,4", "2,000"],
    &["200,00,000", "1"],
    &["1,000", "12,000"],
    &["2,4", "億"],
    // subtotal / tmp: overlap rejections leave terms behind
    &["三百二十百", "二十"],
    &["1.5千5百", "7"],
    // tmp (with its point), subtotal and total all non-empty
    &["千三百二十七万一四.〇五", "3"],
    &["12", "3"],
    &["1.5", "2,000"],
    &["1万", "5"],
    // is_first_digit: the next text starts with a separator
    &["1", ".5"],
    &["12", ",500"],
    // three and four texts in a row
    &["三千", "12", "007"],
    &["1万", "6.", "千", "2億"],
    &["1万", "1万", "1万"],
    &["007", "三千", "007", "三千"],
];

/// one numeral text drawn like the generated parse cases (value-driven rendering, coefficient
/// notation, mutants, random strings)
fn gen_numeral(rng: &mut Rng) -> String {
    match rng.below(10) {
        0..=3 => {
            let v = gen_value(rng);
            render_value(rng, &v).0
        }
        4 => render_coefficient(rng).0,
        5..=7 => {
            let v = gen_value(rng);
            let s = render_value(rng, &v).0;
            mutate(rng, &s).0
        }
        _ => random_string(rng),
    }
}

fn gen_seq(rng: &mut Rng) -> Vec<String> {
    let k = rng.range(2, 4);
    let mut texts: Vec<String> = (0..k).map(|_| gen_numeral(rng)).collect();
    if rng.chance(1, 4) {
        // the same text twice in a row
        let p = rng.range(1, k - 1);
        texts[p] = texts[p - 1].clone();
    }
    texts
}

#[cfg(not(c15_seq_hook))]
fn seq_case(run: &mut Run, _cap: &mut FailCap, _idx: usize, _texts: &[String], _tag: &str) {
    run.bump("seq:hook-absent");
}

#[cfg(c15_seq_hook)]
fn seq_case(run: &mut Run, cap: &mut FailCap, idx: usize, texts: &[String], tag: &str) {
    let refs: Vec<&str> = texts.iter().map(|s| s.as_str()).collect();
    let r = catch(|| verif_parse_seq(&refs));
    let payload = format!("fix={} ts={}", probe_fixes(), texts.iter().map(|t| cps(t)).collect::<Vec<_>>().join(";"));
    let answer = match &r {
        Err(_) => "PANIC".to_string(),
        Ok(rs) => format!(
            "r={}",
            rs.iter()
                .map(|(n, e, d, norm)| format!("{}:{}:{}:{}", n, e, if *d { 1 } else { 0 }, join(norm.chars().map(|c| c as u32), ",")))
                .collect::<Vec<_>>()
                .join("|")
        ),
    };
    run.case(idx, "seq", &payload, &answer, true);
    run.bump("seq:cases");
    run.bump(&format!("seq:texts:{}", texts.len()));
    run.bump(&format!("seq:gen:{}", tag));
    if texts.windows(2).any(|w| w[0] == w[1]) {
        run.bump("seq:same-text-twice");
    }
    let all = texts.join("|");
    let rs = match r {
        Err(p) => {
            run.bump("seq:panic");
            run.fail(idx, &format!("seq:panic:{}", all), &format!("one NumericParser with clear() between the texts {:?} panics: {}", texts, p));
            return;
        }
        Ok(rs) => rs,
    };
    if rs.len() != texts.len() {
        run.fail(idx, &format!("seq:arity:{}", all), &format!("verif_parse_seq returned {} results for {} texts", rs.len(), texts.len()));
        return;
    }
    // ORACLE 1 (independent of the model): after clear() the reused parser behaves like a new one
    let mut reported = false;
    for (k, (t, got)) in texts.iter().zip(rs.iter()).enumerate() {
        if k > 0 {
            let prev = &rs[k - 1];
            let pn = texts[k - 1].chars().count();
            run.bump(if prev.0 == pn && prev.2 { "seq:after-accepted" } else if prev.0 == pn { "seq:after-done-false" } else { "seq:after-char-rejected" });
        }
        match catch(|| verif_parse(t)) {
            Err(_) => {
                run.bump("seq:fresh-panic");
            }
            Ok(fresh) => {
                if &fresh != got {
                    run.bump("oracle-fail:seq:clear");
                    if !reported && cap.allow("seq:clear") {
                        reported = true;
                        run.fail(
                            idx,
                            &format!("seq:clear:{}", all),
                            &format!(
                                "text {} ({:?}) of the sequence {:?} parsed by the reused parser after clear(): (n, err, done, norm) = {:?}; a fresh parser gives {:?}",
                                k + 1, t, texts, got, fresh
                            ),
                        );
                    }
                }
            }
        }
    }
    // ORACLE 2: every text of the sequence judged like op parse (same keys)
    for (t, (n, _e, d, norm)) in texts.iter().zip(rs.iter()) {
        if let Some((kind, msg)) = judge_parse(t, *n, *d, norm) {
            run.bump(&format!("oracle-fail:{}", kind));
            if cap.allow(&kind) {
                let key = format!("parse:{}:{}:{}", kind, syms_of(t).map(|x| shape(&x)).unwrap_or_default(), t);
                run.fail(idx, &key, &format!("{} [text of the sequence {:?}, one parser with clear()]", msg, texts));
            }
        }
    }
}

// ------------------------------------------------------------------------------------------------
// op pipeline

const NVAR: usize = 4;

fn fullwidth(c: char) -> char {
    match c {
        '0'..='9' => char::from_u32('０' as u32 + (c as u32 - '0' as u32)).unwrap(),
        ',' => '，',
        '.' => '．',
        x => x,
    }
}

/// category projection used by the plugin: 1 NUMERIC, 2 KANJINUMERIC, 3 both (class ALL)
fn cat_mask(c: char) -> u32 {
    match c {
        '0'..='9' | '０'..='９' => 1,
        '〇' | '一' | '二' | '三' | '四' | '五' | '六' | '七' | '八' | '九' | '十' | '百' | '千' | '万' | '億' | '兆' => 2,
        '\u{0301}' => 3,
        _ => 0,
    }
}

fn char_def() -> String {
    let mut s = String::from("DEFAULT 0 1 0\nSPACE 0 1 0\nKANJI 0 0 2\nSYMBOL 1 1 0\nNUMERIC 1 1 0\nALPHA 1 1 0\nHIRAGANA 0 1 2\nKATAKANA 1 1 2\nKANJINUMERIC 0 1 0\n\n");
    s.push_str("0x0020 SPACE\n0x0021..0x002F SYMBOL\n0x0030..0x0039 NUMERIC\n0x0041..0x005A ALPHA\n0x0061..0x007A ALPHA\n");
    s.push_str("0x3041..0x309F HIRAGANA\n0x30A1..0x30FF KATAKANA\n0x4E00..0x9FA5 KANJI\n0xFF10..0xFF19 NUMERIC\n0x3007 SYMBOL KANJINUMERIC\n");
    s.push_str("0x0300..0x036F ALL NOOOVBOW\n");
    for c in ['一', '二', '三', '四', '五', '六', '七', '八', '九', '十', '百', '千', '万', '億', '兆'] {
        s.push_str(&format!("0x{:04X} KANJINUMERIC KANJI\n", c as u32));
    }
    s
}

struct Dicts {
    _wd: Workdir,
    plain: Vec<JapaneseDictionary>,
    with: Vec<[JapaneseDictionary; 3]>, // [enableNormalize=false, true, key left out (set_up: unwrap_or(true))]
    numeral_pos: Vec<Vec<String>>,
    /// id of 名詞,数詞,*,*,*,* in the grammar of the compiled dictionary (what `set_up` looks up)
    numeral_pos_id: u16,
}

fn lexicon(variant: usize) -> Vec<Row> {
    let mut rows = vec![];
    let sep_pos = if variant % 2 == 0 { NUMERAL } else { SYMBOL };
    for d in 0..10u8 {
        let a = ((b'0' + d) as char).to_string();
        rows.push(Row::simple(&a, 0, 0, 1000, NUMERAL));
        let mut r = Row::simple(&fullwidth((b'0' + d) as char).to_string(), 0, 0, 1000, NUMERAL);
        r.norm = a.clone();
        rows.push(r);
        rows.push(Row::simple(&KANJI_DIGITS[d as usize].to_string(), 0, 0, 1000, NUMERAL));
    }
    for u in ['十', '百', '千', '万', '億', '兆'] {
        rows.push(Row::simple(&u.to_string(), 0, 0, 1000, NUMERAL));
    }
    for (s, n) in [(",", ","), (".", "."), ("，", ","), ("．", ".")] {
        let mut r = Row::simple(s, 0, 0, 1000, sep_pos);
        r.norm = n.to_string();
        rows.push(r);
    }
    // context words
    for w in ["あ", "い", "円", "人", "日", "個", "月", "年", "節", "c"] {
        rows.push(Row::simple(w, 0, 0, 1000, NOUN));
    }
    rows.push(Row::simple("-", 0, 0, 1000, SYMBOL));
    if variant >= 2 {
        // longer words that shadow numerals (cheaper than their parts)
        for w in ["一人", "三角", "十分", "千葉", "万一", "二十日", "12", "3.5", "九州", "百合"] {
            rows.push(Row::simple(w, 0, 0, 1200, NOUN));
        }
        // multi-character numeral words
        for w in ["二十", "1000", "百万", "0.5"] {
            rows.push(Row::simple(w, 0, 0, 1200, NUMERAL));
        }
        // a numeral-class word that is not tagged as a numeral
        rows.push(Row::simple("７７", 0, 0, 900, NOUN));
    }
    rows
}

impl Dicts {
    fn new() -> Result<Dicts, String> {
        let wd = Workdir::new_legacy("c15");
        wd.write("char.def", &char_def());
        let pos = default_pos();
        let matrix = Matrix { nl: 1, nr: 1, cells: vec![0] };
        let mut plain = vec![];
        let mut with = vec![];
        for v in 0..NVAR {
            let csv = csv_of(&lexicon(v), &pos);
            let bin = build_system(csv.as_bytes(), matrix.text().as_bytes())?;
            let oov = vec![simple_oov_json(0, 0, 20000)];
            let cfg0 = config_json(&wd, &[], &oov, &[], &[]);
            plain.push(load(&cfg0, bin.clone(), vec![])?);
            let mk = |en: bool| -> Result<JapaneseDictionary, String> {
                let pr = vec![format!(r#"{{"class":"com.worksap.nlp.sudachi.JoinNumericPlugin","enableNormalize":{}}}"#, en)];
                load(&config_json(&wd, &[], &oov, &pr, &[]), bin.clone(), vec![])
            };
            let implicit = load(&config_json(&wd, &[], &oov, &[r#"{"class":"com.worksap.nlp.sudachi.JoinNumericPlugin"}"#.to_string()], &[]), bin.clone(), vec![])?;
            with.push([mk(false)?, mk(true)?, implicit]);
        }
        let numeral_pos_id = plain[0].grammar().get_part_of_speech_id(&POS[NUMERAL][..]).ok_or("no numeral POS in the grammar")?;
        Ok(Dicts { _wd: wd, plain, with, numeral_pos: vec![POS[NUMERAL].iter().map(|x| x.to_string()).collect()], numeral_pos_id })
    }
}

// (the last six are dictionary words of lexicon variants >= 2 that merely START with a kanji numeral: directly after a
// numeral they must end the numeric run - their characters have no numeric class in common)
const CONTEXT: &[&str] = &["あ", "い", "円", "人", "日", "個", "月", "年", "節", "c", "-", " ", "x", "あい", "円あ", "千葉", "十分", "百合", "万一", "九州", "一人"];

struct Segment {
    b: usize, // char offsets
    e: usize,
    numeral: bool,
}

fn gen_text(rng: &mut Rng) -> (String, Vec<Segment>) {
    let mut text = String::new();
    let mut segs = vec![];
    let mut nchars = 0;
    let nseg = rng.range(1, 5);
    let mut last_numeral = false;
    for k in 0..nseg {
        let want_num = if k == 0 { rng.chance(2, 3) } else { !last_numeral || rng.chance(1, 8) };
        let piece: String = if want_num {
            let base = match rng.below(10) {
                0..=4 => {
                    let v = gen_value(rng);
                    render_value(rng, &v).0
                }
                5 => render_coefficient(rng).0,
                6..=7 => {
                    let v = gen_value(rng);
                    let r = render_value(rng, &v).0;
                    mutate(rng, &r).0
                }
                8 => {
                    let n = rng.range(1, 6);
                    (0..n).map(|_| ALPHABET[rng.below(28)]).collect()
                }
                _ => random_string(rng),
            };
            // the numeral pieces are short enough to keep texts small
            let base: String = base.chars().take(24).collect();
            match rng.below(6) {
                0 => base.chars().map(fullwidth).collect(),
                1 => base.chars().map(|c| if rng.chance(1, 3) { fullwidth(c) } else { c }).collect(),
                _ => base,
            }
        } else if rng.chance(1, 40) {
            "\u{0301}".to_string()
        } else {
            rng.pick(CONTEXT).to_string()
        };
        let len = piece.chars().count();
        segs.push(Segment { b: nchars, e: nchars + len, numeral: want_num });
        nchars += len;
        text.push_str(&piece);
        last_numeral = want_num;
    }
    (text, segs)
}

const UNIT_NUMERALS: &[&str] = &["三千", "1万", "0.5百", "二十五", "2億5千万", "三兆二千億一", "千三百二十七万一四.〇五", "1.5千", "十"];
const LARGE_NUMERALS: &[&str] = &["1万", "千三百二十七万", "2億5千万", "3兆", "十万", "1.5百万", "三兆二千億一"];
const ZERO_LED: &[&str] = &["007", "0010", "〇九〇", "00.50", "000"];
const UNIT_LED: &[&str] = &["十五", "千", "百二十", "千三百二十七", "十", "千五"];
const BROKEN: &[&str] = &["三百二十百", "1.5千5百", "2,4", "200,00,000", "1.2.3", "1.千", "十万一万", "1万2億", "256,55.1"];

fn has_unit_symbol(s: &str) -> bool {
    s.chars().any(|c| matches!(sym_of(c), Some(Sym::Small(_)) | Some(Sym::Large(_))))
}

fn has_large_unit_symbol(s: &str) -> bool {
    s.chars().any(|c| matches!(sym_of(c), Some(Sym::Large(_))))
}

/// a well-formed numeral that uses a unit (value-driven unit notation, coefficient notation or a fixed one)
fn unit_numeral(rng: &mut Rng, large: bool) -> String {
    if !rng.chance(1, 3) {
        for _ in 0..8 {
            let s = if rng.chance(1, 4) {
                render_coefficient(rng).0
            } else {
                let v = gen_value(rng);
                render_value(rng, &v).0
            };
            let ok = if large { has_large_unit_symbol(&s) } else { has_unit_symbol(&s) };
            if ok && s.chars().count() <= 24 {
                return s;
            }
        }
    }
    rng.pick(if large { LARGE_NUMERALS } else { UNIT_NUMERALS }).to_string()
}

/// a plain digit string with leading zeros (its normal form keeps them)
fn zero_led(rng: &mut Rng) -> String {
    if rng.chance(1, 3) {
        return rng.pick(ZERO_LED).to_string();
    }
    let style = rng.below(3);
    let mut ds = vec![0u8; rng.range(1, 3)];
    for _ in 0..rng.range(0, 4) {
        ds.push(rng.below(10) as u8);
    }
    let mut out = String::new();
    push_digits(rng, &mut out, &ds, style);
    if rng.chance(1, 3) {
        out.push('.');
        let fr: Vec<u8> = (0..rng.range(1, 3)).map(|_| rng.below(10) as u8).collect();
        push_digits(rng, &mut out, &fr, style);
    }
    out
}

/// coefficient x a large unit that is NOT smaller than the last large unit of `prev`
fn large_not_smaller(rng: &mut Rng, prev: &str) -> String {
    let last = prev.chars().rev().find_map(|c| match sym_of(c) {
        Some(Sym::Large(e)) => Some(e as usize),
        _ => None,
    });
    let units: Vec<char> = LARGE_UNITS.iter().filter(|(_, e)| last.map_or(true, |l| *e >= l)).map(|(c, _)| *c).collect();
    let u = *rng.pick(&units);
    let style = rng.below(3);
    let mut out = String::new();
    match rng.below(3) {
        0 => {
            let g: Vec<u8> = vec![rng.range(1, 9) as u8, rng.below(10) as u8, 0, rng.below(10) as u8];
            push_small_units(rng, &mut out, &g, style);
        }
        _ => {
            let mut ds = vec![rng.range(1, 9) as u8];
            for _ in 0..rng.range(0, 3) {
                ds.push(rng.below(10) as u8);
            }
            push_digits(rng, &mut out, &ds, style);
        }
    }
    out.push(u);
    if rng.chance(1, 4) {
        let ds = vec![rng.range(1, 9) as u8, rng.below(10) as u8];
        push_digits(rng, &mut out, &ds, style);
    }
    out
}

/// a numeral that is rejected or leaves the parser in an error / hanging state
fn malformed_numeral(rng: &mut Rng) -> String {
    let base = |rng: &mut Rng| -> String {
        if rng.chance(1, 2) {
            let n = rng.range(1, 4);
            let mut ds = vec![rng.range(1, 9) as u8];
            for _ in 1..n {
                ds.push(rng.below(10) as u8);
            }
            let mut out = String::new();
            let style = rng.below(3);
            push_digits(rng, &mut out, &ds, style);
            out
        } else {
            unit_numeral(rng, false)
        }
    };
    match rng.below(6) {
        0 => format!("{}.", base(rng)),
        1 => format!("{},", base(rng)),
        2 => format!("{}.{}.{}", rng.range(1, 99), rng.below(100), rng.below(10)),
        3..=4 => rng.pick(BROKEN).to_string(),
        _ => {
            let v = gen_value(rng);
            let r = render_value(rng, &v).0;
            mutate(rng, &r).0.chars().take(24).collect()
        }
    }
}

/// any numeral piece, like `gen_text` draws them
fn any_numeral(rng: &mut Rng) -> String {
    let base = match rng.below(10) {
        0..=4 => {
            let v = gen_value(rng);
            render_value(rng, &v).0
        }
        5 => render_coefficient(rng).0,
        6..=7 => {
            let v = gen_value(rng);
            let r = render_value(rng, &v).0;
            mutate(rng, &r).0
        }
        8 => {
            let n = rng.range(1, 6);
            (0..n).map(|_| ALPHABET[rng.below(28)]).collect()
        }
        _ => random_string(rng),
    };
    base.chars().take(24).collect()
}

/// A sentence with 2..4 numerals separated by non-numeral context words (never a digit / separator
/// neighbour), i.e. 2..4 numeric runs handled by ONE `NumericParser` with `clear()` in between.
/// Mostly an earlier numeral leaves state behind that a later one would observe if `clear()` forgot it:
/// unit numeral -> zero-led plain digits, large unit -> not smaller large unit, malformed -> normal.
fn gen_multi_text(rng: &mut Rng) -> String {
    let k = rng.range(2, 4);
    let mut nums: Vec<String> = (0..k).map(|_| any_numeral(rng)).collect();
    match rng.below(8) {
        0..=2 => {
            // not necessarily adjacent
            let p = rng.below(k - 1);
            let q = rng.range(p + 1, k - 1);
            nums[p] = unit_numeral(rng, false);
            nums[q] = zero_led(rng);
        }
        3..=4 => {
            let p = rng.below(k - 1);
            nums[p] = unit_numeral(rng, true);
            nums[p + 1] = large_not_smaller(rng, &nums[p]);
        }
        5..=6 => {
            let p = rng.below(k - 1);
            nums[p] = malformed_numeral(rng);
            nums[p + 1] = match rng.below(5) {
                0 => rng.pick(UNIT_LED).to_string(),
                1 => zero_led(rng),
                2 => format!("{},{:03}", rng.range(1, 999), rng.below(1000)),
                3 => unit_numeral(rng, false),
                _ => format!("{}", rng.below(100000)),
            };
        }
        _ => {}
    }
    match rng.below(8) {
        0 => nums = nums.iter().map(|s| s.chars().map(fullwidth).collect()).collect(),
        1 => nums = nums.iter().map(|s| s.chars().map(|c| if rng.chance(1, 3) { fullwidth(c) } else { c }).collect()).collect(),
        _ => {}
    }
    let mut text = String::new();
    if rng.chance(1, 2) {
        text.push_str(*rng.pick(CONTEXT));
    }
    for (i, s) in nums.iter().enumerate() {
        if i > 0 {
            for _ in 0..rng.range(1, 2) {
                text.push_str(*rng.pick(CONTEXT));
            }
        }
        text.push_str(s);
    }
    if rng.chance(2, 3) {
        text.push_str(*rng.pick(CONTEXT));
    }
    text
}

/// The un-joined best path as the plugin would receive it: the `ResultNode`s of the analysis WITHOUT the plugin (wire format
/// of `Rewrite.parseNode`) and the class mask of every character of the modified text (`InputBuffer::cat_of_range` reads these).
fn observe_path(dic: &JapaneseDictionary, text: &str) -> Result<Result<(Vec<u32>, Vec<String>), String>, String> {
    catch(|| -> Result<(Vec<u32>, Vec<String>), String> {
        let mut tok = StatefulTokenizer::new(dic, Mode::C);
        tok.reset().push_str(text);
        tok.do_tokenize().map_err(|e| err_class(&e))?;
        let cat = tok.verif_input().verif_tables().mod_cat;
        let mut input = InputBuffer::default();
        let mut path: Vec<ResultNode> = Vec::new();
        let mut subset = InfoSubset::all();
        tok.swap_result(&mut input, &mut path, &mut subset);
        let nodes = path
            .iter()
            .map(|n| {
                let d = n.word_info().borrow_data();
                format!(
                    "{}:{}:{}:{}:{}:{}:{}:{}:{}:{}:{}:{}:{}:{}:{}:{}:{}:{}:{}:{}",
                    n.begin(), n.end(), n.begin_bytes(), n.end_bytes(), n.word_id().as_raw(), n.total_cost(), n.left_id(), n.right_id(),
                    n.cost(), d.pos_id, d.head_word_length, d.dictionary_form_word_id,
                    join(d.a_unit_split.iter().map(|w| w.as_raw()), ","), join(d.b_unit_split.iter().map(|w| w.as_raw()), ","),
                    join(d.word_structure.iter().map(|w| w.as_raw()), ","), join(d.synonym_group_ids.iter(), ","),
                    hex(d.surface.as_bytes()), hex(d.normalized_form.as_bytes()), hex(d.reading_form.as_bytes()), hex(d.dictionary_form.as_bytes())
                )
            })
            .collect();
        Ok((cat, nodes))
    })
}

fn norm_cps(s: &str) -> String {
    join(s.chars().map(|c| c as u32), ".")
}

/// numeral segments = maximal runs of symbols of the numeral alphabet (ASCII, full-width or kanji)
fn segments_of(chars: &[char]) -> Vec<Segment> {
    let mut segs = vec![];
    let mut i = 0;
    while i < chars.len() {
        if sym_of(chars[i]).is_some() {
            let b = i;
            while i < chars.len() && sym_of(chars[i]).is_some() {
                i += 1;
            }
            segs.push(Segment { b, e: i, numeral: true });
        } else {
            i += 1;
        }
    }
    segs
}

const DIRECTED_TEXTS: &[&str] = &[
    "123円20銭", "080-121", "一二三万二千円", "二百百", "六三四", "1.002", ".002", "22.", "22.節", ".c", "1.20.3", "652...",
    "2,00,000,000円", ",", "652,,,", "256,5.50389", "256,550.389", "猫三匹", "７十九三.", "あ４十三三.円", "6十七七,", "1.5,000円",
    "1.千5円", "1,千円", "十万一万円", "0.1万円", "３万９", "二十日に1000人", "12個と3.5個", "１，０００．５０円", "1.5百万1.5千20年",
    "三兆2千億千三百二十七万一四.〇五", "1,000,あ", "6.あ", "千葉に百万円", "７７個", "1\u{0301}2",
    // two or more numeric runs in one sentence: one parser, clear() at the start of every run
    "三千円と007番", "0.5百円と00.50番", "1万円と〇九〇番", "1万円と2億円", "6.あ5円", "三百二十百と二十", "6.あ十五円", "1円と.5", "2,4個と2,000個",
    "1万円と5円", "12個と3個", "三千円と12個と007番",
];

fn pipeline_case(run: &mut Run, dicts: &Dicts, idx: usize, directed: Option<usize>) {
    let mut rng = Rng::for_case(run.opts.seed, idx);
    let mut variant = rng.below(NVAR);
    let mut en = rng.chance(3, 4);
    let mut text = gen_text(&mut rng).0;
    if directed.is_none() && rng.chance(1, 2) {
        // two or more numerals in one sentence (one parser, clear() between the runs)
        text = gen_multi_text(&mut rng);
        run.bump("pipeline:gen:multi-numeral");
    }
    // `enableNormalize` left out of the settings (`set_up`: `unwrap_or(true)`): a quarter of the generated normalising cases
    let mut implicit = en && rng.chance(1, 4);
    if let Some(k) = directed {
        text = DIRECTED_TEXTS[k / 4].to_string();
        en = k % 2 == 0;
        variant = if (k / 2) % 2 == 0 { 1 } else { 2 };
        implicit = false;
    }
    let cfg_ix = if implicit { 2 } else { en as usize };
    let chars: Vec<char> = text.chars().collect();
    let segs = segments_of(&chars);
    run.bump(&format!("pipeline:numerals-in-sentence:{}", if segs.len() >= 4 { "4+".to_string() } else { segs.len().to_string() }));
    let base = tokenize(&dicts.plain[variant], &text, Mode::C);
    let base = match base {
        Ok(Ok(t)) => t,
        _ => {
            run.bump("pipeline:base-tokenize-failed");
            return;
        }
    };
    let cats = join(chars.iter().map(|&c| cat_mask(c)), ",");
    let path = base
        .iter()
        .map(|t| {
            // stored normalised form: empty for OOV nodes and when it equals the headword
            let raw = if t.is_oov || t.norm == t.wi_surface { String::new() } else { t.norm.clone() };
            format!("{}:{}:{}:{}:{}", t.begin_c, t.end_c, if t.pos == dicts.numeral_pos[0] { 1 } else { 0 }, norm_cps(&raw), norm_cps(&t.wi_surface))
        })
        .collect::<Vec<_>>()
        .join(";");
    let payload = format!("fix={} en={} variant={} cats={} path={}", probe_fixes(), if en { 1 } else { 0 }, variant, cats, path);
    let with = tokenize(&dicts.with[variant][cfg_ix], &text, Mode::C);
    // op pipe: `Rewrite.joinNumeric` (C14's transcription of rewrite_gen / concat / concat_nodes) run with the C15 parser
    // model as its parser: no parser answers on the line; input = the real ResultNodes of the un-joined path, the real class
    // masks, the settings; compared = ranges, part-of-speech ids and normalised forms of the real plugin's tokens
    match observe_path(&dicts.plain[variant], &text) {
        Ok(Ok((cat, nodes))) => {
            let payload = format!(
                "fix={} nv={} plugin=N:{}:{} cat={} path={}",
                probe_fixes(), crate::c14::numeric_variant(), if implicit { String::new() } else { (en as u8).to_string() }, dicts.numeral_pos_id,
                join(cat.iter(), ","), nodes.join(";")
            );
            let answer = match &with {
                Err(_) => "PANIC".to_string(),
                Ok(Err(_)) => "err".to_string(),
                Ok(Ok(t)) => format!("ok toks={}", t.iter().map(|x| format!("{}:{}:{}:{}", x.begin_c, x.end_c, x.pos_id, norm_cps(&x.norm))).collect::<Vec<_>>().join(";")),
            };
            let joined = matches!(&with, Ok(Ok(t)) if t.len() < nodes.len());
            run.case(idx, "pipe", &payload, &answer, joined);
            run.bump(if implicit { "pipe:enableNormalize-left-out" } else if en { "pipe:enableNormalize-true" } else { "pipe:enableNormalize-false" });
        }
        _ => run.bump("pipe:observe-failed"),
    }
    let answer = match &with {
        Err(_) => "PANIC".to_string(),
        Ok(Err(_)) => "err".to_string(),
        Ok(Ok(t)) => format!("ok toks={}", t.iter().map(|x| format!("{}:{}:{}", x.begin_c, x.end_c, norm_cps(&x.norm))).collect::<Vec<_>>().join(";")),
    };
    let has_join = match &with {
        Ok(Ok(t)) => t.len() < base.len(),
        _ => false,
    };
    run.case(idx, "pipeline", &payload, &answer, has_join);
    run.bump(if en { "pipeline:normalize-on" } else { "pipeline:normalize-off" });
    let out = match with {
        Err(p) => {
            run.fail(idx, &format!("pipeline:panic:{}", text), &format!("tokenising {:?} with JoinNumericPlugin panics: {}", text, p));
            return;
        }
        Ok(Err(e)) => {
            run.fail(idx, &format!("pipeline:error:{}", text), &format!("tokenising {:?} with JoinNumericPlugin fails: {}", text, e));
            return;
        }
        Ok(Ok(t)) => t,
    };
    if has_join {
        run.bump("pipeline:joined-something");
    }
    // oracle per numeral segment
    let neutral = |c: char| sym_of(c).is_none() && cat_mask(c) == 0;
    for sg in segs.iter().filter(|s| s.numeral) {
        if (sg.b > 0 && !neutral(chars[sg.b - 1])) || (sg.e < chars.len() && !neutral(chars[sg.e])) {
            run.bump("pipeline:segment-touches-numeral");
            continue;
        }
        // un-joined tokens of the span; "not shadowed": they tile the span, are tagged as numerals
        // (or are separators) and their normal form is the surface read as numeral symbols
        let inside: Vec<&Tok> = base.iter().filter(|t| t.begin_c < sg.e && t.end_c > sg.b).collect();
        let tiles = inside.first().map_or(false, |t| t.begin_c == sg.b) && inside.last().map_or(false, |t| t.end_c == sg.e);
        let plain_numeral = |t: &Tok| -> bool {
            let is_sep = t.norm == "," || t.norm == ".";
            let same = syms_of(&t.surface).is_some() && syms_of(&t.surface) == syms_of(&t.norm);
            same && t.surface.chars().count() == 1 && (is_sep || t.pos == dicts.numeral_pos[0])
        };
        if !tiles || !inside.iter().all(|t| plain_numeral(t)) {
            run.bump("pipeline:segment-shadowed");
            continue;
        }
        let seg_text: String = chars[sg.b..sg.e].iter().collect();
        let seg_syms = syms_of(&seg_text).unwrap();
        let class = reference(&seg_syms);
        let outs: Vec<&Tok> = out.iter().filter(|t| t.begin_c < sg.e && t.end_c > sg.b).collect();
        // (kind, message, text the key refers to)
        let mut bad: Option<(String, String, String)> = None;
        for t in &outs {
            if t.begin_c < sg.b || t.end_c > sg.e {
                bad = Some(("crosses".into(), format!("token {:?} crosses the boundary of the numeral {:?}", t.surface, seg_text), seg_text.clone()));
                break;
            }
            if base.iter().any(|u| u.begin_c == t.begin_c && u.end_c == t.end_c && u.norm == t.norm) {
                continue;
            }
            let covered: Vec<&&Tok> = inside.iter().filter(|u| u.begin_c >= t.begin_c && u.end_c <= t.end_c).collect();
            let cov_text: String = covered.iter().map(|u| u.norm.clone()).collect();
            let cov_syms = match syms_of(&cov_text) {
                Some(x) => x,
                None => continue,
            };
            // is the joined token directly followed by a separator (the plugin's "split off the trailing separator" rule)?
            let trailing_sep = t.end_c < chars.len() && matches!(sym_of(chars[t.end_c]), Some(Sym::Comma) | Some(Sym::Point));
            match reference(&cov_syms) {
                Class::Malformed(k) => {
                    let kind = if trailing_sep { format!("{}+trailing-sep", k) } else { k.to_string() };
                    bad = Some((kind, format!("malformed numeral {:?} ({}) inside {:?} is joined into one token with normal form {:?} (enableNormalize={})", cov_text, k, text, t.norm, en), cov_text.clone()));
                    break;
                }
                Class::WF(canon) => {
                    // the property speaks about the normal form only when normalisation is enabled
                    if !en {
                        if t.norm != cov_text {
                            run.bump("pipeline:normalize-off:joined-norm-is-not-the-concatenation");
                        }
                    } else if t.norm != canon {
                        let kind = rendering_kind(&t.norm, &canon);
                        bad = Some((kind.into(), format!("numeral {:?} in {:?}: normal form {:?}, expected {:?}", cov_text, text, t.norm, canon), cov_text.clone()));
                        break;
                    }
                }
                Class::DontCare(v) => {
                    let ok = if en { Dec::parse(&t.norm).map_or(false, |x| x.num_eq(&v)) } else { true };
                    if !ok {
                        bad = Some(("value".into(), format!("numeral {:?} in {:?}: normal form {:?}, value {}", cov_text, text, t.norm, v.canon()), cov_text.clone()));
                        break;
                    }
                }
            }
        }
        if bad.is_none() {
            if let Class::WF(canon) = &class {
                run.bump("pipeline:wf-segment");
                if !(outs.len() == 1 && outs[0].begin_c == sg.b && outs[0].end_c == sg.e) {
                    bad = Some(("wf-rejected".into(), format!("well-formed numeral {:?} in {:?} is not joined into one token ({} tokens)", seg_text, text, outs.len()), seg_text.clone()));
                } else if en && &outs[0].norm != canon {
                    // also when the numeral is a single un-joined node (e.g. a lone unit)
                    let kind = rendering_kind(&outs[0].norm, canon);
                    let seg_norm: String = inside.iter().map(|u| u.norm.clone()).collect();
                    bad = Some((kind.into(), format!("numeral {:?} in {:?}: normal form {:?}, expected {:?}", seg_text, text, outs[0].norm, canon), seg_norm));
                }
            } else {
                run.bump("pipeline:non-wf-segment");
            }
        }
        if let Some((kind, msg, ktext)) = bad {
            run.bump(&format!("oracle-fail:pipeline:{}", kind));
            let key = format!("pipeline:{}:{}:{}", kind, syms_of(&ktext).map(|x| shape(&x)).unwrap_or_default(), ktext);
            run.fail(idx, &key, &msg);
            break;
        }
    }
}

// ------------------------------------------------------------------------------------------------
// op modes: numeral WORDS of the dictionary that declare A/B split units (and word structure), alone and inside
// longer numerals, analysed in modes C, A, B and through Morpheme::split_into

/// (key, A units, B units, stored normalised form or "" = the key); the units are single-character numeral rows or
/// other rows of this table (二十五 = B 二十/五), referenced by line number; word structure = the A units
const UNIT_WORDS: &[(&str, &str, &str, &str)] = &[
    ("二十", "二/十", "二/十", ""),
    ("百万", "百/万", "百/万", ""),
    ("三百", "三/百", "*", ""),
    ("千万", "千/万", "千/万", ""),
    ("十億", "十/億", "*", ""),
    ("一万", "一/万", "一/万", ""),
    ("五千", "五/千", "五/千", ""),
    ("二十五", "二/十/五", "二十/五", ""),
    ("三百万", "三/百/万", "三/百万", ""),
    ("2万", "2/万", "2/万", ""),
];
/// numeral words with units whose STORED normalised form already is the decimal rendering (the plugin leaves such a
/// single node untouched: `end - begin > 1 || normalized_form != word_info.normalized_form()`)
const CANON_UNIT_WORDS: &[(&str, &str, &str, &str)] = &[("10", "1/0", "1/0", ""), ("0.5", "0/./5", "*", ""), ("１００", "１/０/０", "*", "100")];

const MVAR: usize = 3;

fn lexicon_units(variant: usize) -> Vec<Row> {
    let mut rows = lexicon(variant % 2);
    let id_of = |rows: &Vec<Row>, s: &str| -> String { rows.iter().position(|r| r.surface == s).expect("unit row").to_string() };
    let mut add = |rows: &mut Vec<Row>, w: &(&str, &str, &str, &str)| {
        let ids = |rows: &Vec<Row>, spec: &str| -> String {
            if spec == "*" { "*".to_string() } else { spec.split('/').map(|u| id_of(rows, u)).collect::<Vec<_>>().join("/") }
        };
        let mut r = Row::simple(w.0, 0, 0, 1200, NUMERAL);
        r.mode = 'C';
        r.split_a = ids(rows, w.1);
        r.split_b = ids(rows, w.2);
        r.wstruct = ids(rows, w.1);
        if !w.3.is_empty() {
            r.norm = w.3.to_string();
        }
        rows.push(r);
    };
    for w in UNIT_WORDS {
        add(&mut rows, w);
    }
    if variant == 2 {
        for w in CANON_UNIT_WORDS {
            add(&mut rows, w);
        }
    }
    rows
}

struct ModeDicts {
    _wd: Workdir,
    plain: Vec<JapaneseDictionary>,
    with: Vec<[JapaneseDictionary; 2]>, // [enableNormalize=true, key left out]
    rows: Vec<Vec<Row>>,
    numeral_pos_id: u16,
}

impl ModeDicts {
    fn new() -> Result<ModeDicts, String> {
        let wd = Workdir::new_legacy("c15m");
        wd.write("char.def", &char_def());
        let pos = default_pos();
        let matrix = Matrix { nl: 1, nr: 1, cells: vec![0] };
        let (mut plain, mut with, mut rows) = (vec![], vec![], vec![]);
        for v in 0..MVAR {
            let rs = lexicon_units(v);
            let bin = build_system(csv_of(&rs, &pos).as_bytes(), matrix.text().as_bytes())?;
            let oov = vec![simple_oov_json(0, 0, 20000)];
            plain.push(load(&config_json(&wd, &[], &oov, &[], &[]), bin.clone(), vec![])?);
            let explicit = load(&config_json(&wd, &[], &oov, &[r#"{"class":"com.worksap.nlp.sudachi.JoinNumericPlugin","enableNormalize":true}"#.to_string()], &[]), bin.clone(), vec![])?;
            let implicit = load(&config_json(&wd, &[], &oov, &[r#"{"class":"com.worksap.nlp.sudachi.JoinNumericPlugin"}"#.to_string()], &[]), bin.clone(), vec![])?;
            with.push([explicit, implicit]);
            rows.push(rs);
        }
        let numeral_pos_id = plain[0].grammar().get_part_of_speech_id(&POS[NUMERAL][..]).ok_or("no numeral POS in the grammar")?;
        Ok(ModeDicts { _wd: wd, plain, with, rows, numeral_pos_id })
    }
}

/// (text, lexicon variant): the unit words alone, at the start / in the middle / at the end of longer numerals, next to
/// context words, twice in a sentence, inside malformed runs
const DIRECTED_MODES: &[(&str, usize)] = &[
    ("百万円", 0), ("二十", 1), ("二十一", 0), ("三百万", 0), ("三百万円と二十人", 1), ("千万", 0), ("五千二十五", 0), ("十億二十", 1),
    ("1百万", 0), ("二十五万", 0), ("百万二十", 0), ("あ一万個", 1), ("2万5千", 0), ("二十百万", 0), ("百万,二十", 1),
    ("二十.五", 0), ("3.2万", 0), ("百万円", 2), ("10個", 2), ("0.5個と10", 2), ("１００円", 2), ("１００万", 2), ("10万", 2), ("二十10", 2),
];

fn gen_modes_text(rng: &mut Rng, variant: usize) -> String {
    let words: Vec<&str> = UNIT_WORDS.iter().map(|w| w.0).chain(if variant == 2 { CANON_UNIT_WORDS.iter().map(|w| w.0).collect::<Vec<_>>() } else { vec![] }).collect();
    let numeral = |rng: &mut Rng| -> String {
        match rng.below(10) {
            // the word alone
            0..=2 => rng.pick(&words).to_string(),
            // the word inside a longer numeral: coefficient / higher part before, lower part after
            3..=6 => {
                let mut s = String::new();
                match rng.below(5) {
                    0 => s.push(KANJI_DIGITS[rng.range(1, 9)]),
                    1 => s.push_str(&format!("{}", rng.range(1, 99))),
                    2 => s.push_str(*rng.pick(&words)),
                    _ => {}
                }
                s.push_str(*rng.pick(&words));
                match rng.below(6) {
                    0 => s.push(KANJI_DIGITS[rng.range(1, 9)]),
                    1 => s.push_str(*rng.pick(&words)),
                    2 => s.push_str(*rng.pick(&["万", "億", "兆", "千", "百", "十"])),
                    3 => s.push_str(&format!("{}", rng.range(1, 999))),
                    _ => {}
                }
                s
            }
            // value-driven well-formed numerals (kanji renderings contain the words by themselves)
            7..=8 => {
                let v = gen_value(rng);
                render_value(rng, &v).0.chars().take(24).collect()
            }
            _ => any_numeral(rng),
        }
    };
    let mut text = String::new();
    if rng.chance(1, 2) {
        text.push_str(*rng.pick(CONTEXT));
    }
    for k in 0..rng.range(1, 3) {
        if k > 0 {
            text.push_str(*rng.pick(CONTEXT));
        }
        text.push_str(&numeral(rng));
    }
    if rng.chance(2, 3) {
        text.push_str(*rng.pick(CONTEXT));
    }
    text
}

/// the tokens `Morpheme::split_into(mode)` yields for every morpheme of the mode-C analysis (the morpheme itself when it
/// reports that nothing was split), and the flags
fn split_into_all(dic: &JapaneseDictionary, text: &str, mode: Mode) -> Result<Result<(Vec<Tok>, Vec<bool>), String>, String> {
    catch(|| -> Result<(Vec<Tok>, Vec<bool>), String> {
        let mut tok = StatefulTokenizer::new(dic, Mode::C);
        tok.reset().push_str(text);
        tok.do_tokenize().map_err(|e| err_class(&e))?;
        let mut ml = sudachi::analysis::mlist::MorphemeList::empty(dic);
        ml.collect_results(&mut tok).map_err(|e| err_class(&e))?;
        let whole = toks_of(&ml);
        let mut out = sudachi::analysis::mlist::MorphemeList::empty(dic);
        let (mut all, mut flags) = (vec![], vec![]);
        for i in 0..ml.len() {
            out.clear();
            let flag = ml.get(i).split_into(mode, &mut out).map_err(|e| err_class(&e))?;
            flags.push(flag);
            if flag {
                all.extend(toks_of(&out));
            } else {
                all.push(whole[i].clone());
            }
        }
        Ok((all, flags))
    })
}

fn show_toks(t: &Result<Result<Vec<Tok>, String>, String>) -> String {
    match t {
        Err(_) => "PANIC".to_string(),
        Ok(Err(_)) => "err".to_string(),
        Ok(Ok(t)) => t.iter().map(|x| format!("{}:{}:{}", x.begin_c, x.end_c, norm_cps(&x.norm))).collect::<Vec<_>>().join(";"),
    }
}

fn modes_case(run: &mut Run, dicts: &ModeDicts, idx: usize, directed: Option<usize>) {
    let mut rng = Rng::for_case(run.opts.seed, idx);
    let mut variant = rng.below(MVAR);
    let implicit = rng.chance(1, 4);
    let mut text = gen_modes_text(&mut rng, variant);
    if let Some(k) = directed {
        text = DIRECTED_MODES[k].0.to_string();
        variant = DIRECTED_MODES[k].1;
    }
    let dic = &dicts.with[variant][implicit as usize];
    let chars: Vec<char> = text.chars().collect();
    let base = match tokenize(&dicts.plain[variant], &text, Mode::C) {
        Ok(Ok(t)) => t,
        _ => {
            run.bump("modes:base-tokenize-failed");
            return;
        }
    };
    // the five observations: the tokenizer in modes C, A, B and split_into(A), split_into(B) of the mode-C morphemes
    let obs: Vec<(&str, Result<Result<Vec<Tok>, String>, String>)> = vec![
        ("C", tokenize(dic, &text, Mode::C)),
        ("A", tokenize(dic, &text, Mode::A)),
        ("B", tokenize(dic, &text, Mode::B)),
        ("siA", split_into_all(dic, &text, Mode::A).map(|r| r.map(|x| x.0))),
        ("siB", split_into_all(dic, &text, Mode::B).map(|r| r.map(|x| x.0))),
    ];
    // case line (op pipe, answered by the model RewriteNumeric.rewrite): the un-joined path (real ResultNodes with their
    // split lists), the class masks, the settings -> the mode-C tokens.  The observations in modes A / B and through
    // split_into are judged by the oracle below and shown in the replay line.
    let shown = obs.iter().map(|(m, t)| format!("{}={}", m, show_toks(t))).collect::<Vec<_>>().join(" ");
    let mut line = format!("C15 modes idx={} variant={} implicit={} text={} observed: {}", idx, variant, implicit as u8, cps(&text), shown);
    match observe_path(&dicts.plain[variant], &text) {
        Ok(Ok((cat, nodes))) => {
            let payload = format!(
                "fix={} nv={} plugin=N:{}:{} cat={} path={}",
                probe_fixes(), crate::c14::numeric_variant(), if implicit { String::new() } else { "1".to_string() }, dicts.numeral_pos_id,
                join(cat.iter(), ","), nodes.join(";")
            );
            let answer = match &obs[0].1 {
                Err(_) => "PANIC".to_string(),
                Ok(Err(_)) => "err".to_string(),
                Ok(Ok(t)) => format!("ok toks={}", t.iter().map(|x| format!("{}:{}:{}:{}", x.begin_c, x.end_c, x.pos_id, norm_cps(&x.norm))).collect::<Vec<_>>().join(";")),
            };
            let joined = matches!(&obs[0].1, Ok(Ok(t)) if t.len() < nodes.len());
            run.case(idx, "pipe", &payload, &answer, joined);
            // case line op modes (model RewriteNumericSplit: RewriteNumeric.rewrite, then C09's split model on every node):
            // additionally the declared lexicon (key byte length, A units, B units, stored normalised form of every row, taken
            // from the CSV rows, not read back from the binary) and the offset tables of the text -> all five observations
            let lex = dicts.rows[variant]
                .iter()
                .map(|r| {
                    let sl = |s: &str| if s == "*" { String::new() } else { s.to_string() };
                    format!("{}:{}:{}:{}", r.surface.len(), sl(&r.split_a), sl(&r.split_b), hex(r.norm.as_bytes()))
                })
                .collect::<Vec<_>>()
                .join(",");
            let (mut c2b, mut b2c, mut nb) = (vec![], vec![], 0);
            for (ci, c) in chars.iter().enumerate() {
                c2b.push(nb);
                for _ in 0..c.len_utf8() {
                    b2c.push(ci);
                }
                nb += c.len_utf8();
            }
            c2b.push(nb);
            b2c.push(chars.len());
            let payload2 = format!("{} lex={} b2c={} c2b={}", payload, lex, join(b2c.iter(), ","), join(c2b.iter(), ","));
            let failed = obs.iter().find_map(|(_, t)| match t { Err(_) => Some("PANIC"), Ok(Err(_)) => Some("err"), _ => None });
            let answer2 = match failed { Some(f) => f.to_string(), None => format!("ok {}", shown) };
            let split_seen = matches!((&obs[0].1, &obs[1].1), (Ok(Ok(c)), Ok(Ok(a))) if a.len() > c.len());
            run.case(idx, "modes", &payload2, &answer2, joined || split_seen);
            line = format!("{} | C15 modes idx={} {}", line, idx, payload2);
        }
        _ => run.bump("modes:observe-failed"),
    }
    run.bump("modes:cases");
    run.bump(if implicit { "modes:enableNormalize-left-out" } else { "modes:enableNormalize-true" });
    run.bump(&format!("modes:lexicon-variant:{}", variant));
    // ORACLE (normalisation is enabled in every case of this stream).  A numeral segment = maximal run of symbols of the
    // numeral alphabet with neutral neighbours; "the dictionary tags it as numerals, not shadowed" = the un-joined tokens tile
    // it, every one is tagged 名詞,数詞 (or is a separator) and its normalised form reads as the same numeral symbols as its
    // surface - one-character rows AND the multi-character numeral words with units.  Then, in EVERY observation:
    //   well-formed  -> exactly one token with the range of the numeral and the decimal rendering as normalised form
    //   malformed    -> never one token over the whole run with a value (it stays the un-joined pieces)
    let neutral = |c: char| sym_of(c).is_none() && cat_mask(c) == 0;
    let segs = segments_of(&chars);
    for sg in &segs {
        if (sg.b > 0 && !neutral(chars[sg.b - 1])) || (sg.e < chars.len() && !neutral(chars[sg.e])) {
            run.bump("modes:segment-touches-numeral");
            continue;
        }
        let inside: Vec<&Tok> = base.iter().filter(|t| t.begin_c < sg.e && t.end_c > sg.b).collect();
        let tiles = inside.first().map_or(false, |t| t.begin_c == sg.b) && inside.last().map_or(false, |t| t.end_c == sg.e);
        let numeral_word = |t: &Tok| -> bool {
            let is_sep = t.norm == "," || t.norm == ".";
            let same = syms_of(&t.surface).is_some() && syms_of(&t.surface) == syms_of(&t.norm);
            same && !t.is_oov && ((is_sep && t.surface.chars().count() == 1) || t.pos == POS[NUMERAL])
        };
        if !tiles || !inside.iter().all(|t| numeral_word(t)) {
            run.bump("modes:segment-shadowed");
            continue;
        }
        // a dictionary word that mixes Arabic and kanji numerals (2万): its characters have no numeral class in common, the
        // char.def does not "tag it as a numeral" - the plugin reads the class of the whole node.  Counted, not judged.
        let one_class = |t: &Tok| t.norm == "," || t.norm == "." || t.surface.chars().fold(3, |a, c| a & cat_mask(c)) != 0;
        if !inside.iter().all(|t| one_class(t)) {
            run.bump("modes:segment-with-a-mixed-class-word");
            continue;
        }
        let with_units = inside.iter().any(|t| !t.a_split.is_empty() || !t.b_split.is_empty());
        let seg_text: String = chars[sg.b..sg.e].iter().collect();
        let class = reference(&syms_of(&seg_text).unwrap());
        run.bump(match (&class, with_units, inside.len()) {
            (Class::WF(_), true, 1) => "modes:wf-segment:one-word-with-units",
            (Class::WF(_), true, _) => "modes:wf-segment:longer-numeral-containing-a-word-with-units",
            (Class::WF(_), false, _) => "modes:wf-segment:one-character-words-only",
            (Class::Malformed(_), _, _) => "modes:malformed-segment",
            (Class::DontCare(_), _, _) => "modes:unusual-segment",
        });
        let mut bad: Option<(String, String)> = None;
        for (m, t) in &obs {
            let out = match t {
                Err(p) => {
                    bad = Some((format!("modes:{}:panic:{}", m, text), format!("analysing {:?} ({}) panics: {}", text, m, p)));
                    break;
                }
                Ok(Err(e)) => {
                    bad = Some((format!("modes:{}:error:{}", m, text), format!("analysing {:?} ({}) fails: {}", text, m, e)));
                    break;
                }
                Ok(Ok(t)) => t,
            };
            let outs: Vec<&Tok> = out.iter().filter(|t| t.begin_c < sg.e && t.end_c > sg.b).collect();
            let shown = outs.iter().map(|t| format!("{}/{}", t.surface, t.norm)).collect::<Vec<_>>().join(" | ");
            let one = outs.len() == 1 && outs[0].begin_c == sg.b && outs[0].end_c == sg.e;
            let how = match *m { "C" => "mode C".to_string(), "A" | "B" => format!("mode {}", m), x => format!("Morpheme::split_into(Mode::{}) of the mode-C morphemes", &x[2..]) };
            match &class {
                Class::WF(canon) => {
                    // the numeral is ONE dictionary word whose stored normalised form already is the decimal rendering
                    let kept = if inside.len() == 1 && &inside[0].norm == canon { "+stored-form-is-the-rendering" } else { "" };
                    if !one {
                        bad = Some((
                            format!("modes:{}:wf-rejected{}:{}:{}", m, kept, shape(&syms_of(&seg_text).unwrap()), seg_text),
                            format!("well-formed numeral {:?} (value {}) in {:?}, {}: not one token but {} [surface/normalised form: {}]; un-joined path: {}", seg_text, canon, text, how, outs.len(), shown,
                                inside.iter().map(|t| format!("{}(A units {}, B units {})", t.surface, t.a_split.len(), t.b_split.len())).collect::<Vec<_>>().join(" ")),
                        ));
                    } else if &outs[0].norm != canon {
                        let kind = rendering_kind(&outs[0].norm, canon);
                        bad = Some((
                            format!("modes:{}:{}:{}:{}", m, kind, shape(&syms_of(&seg_text).unwrap()), seg_text),
                            format!("numeral {:?} in {:?}, {}: normal form {:?}, expected {:?}", seg_text, text, how, outs[0].norm, canon),
                        ));
                    }
                }
                Class::Malformed(k) => {
                    if one && (inside.len() > 1 || outs[0].norm != inside[0].norm) {
                        bad = Some((
                            format!("modes:{}:{}:{}:{}", m, k, shape(&syms_of(&seg_text).unwrap()), seg_text),
                            format!("malformed numeral {:?} ({}) in {:?}, {}: joined into one token with normal form {:?}", seg_text, k, text, how, outs[0].norm),
                        ));
                    }
                }
                Class::DontCare(_) => {}
            }
            if bad.is_some() {
                break;
            }
        }
        if let Some((key, msg)) = bad {
            run.bump(&format!("oracle-fail:{}", key.split(':').take(3).collect::<Vec<_>>().join(":")));
            run.fail_with_line(idx, &line, &key, &msg);
            break;
        }
    }
}

// ------------------------------------------------------------------------------------------------

pub fn run(run: &mut Run) {
    run.rule = "op parse: directed strings (the unit-test numerals and near misses), then EVERY string over the 28-symbol numeral \
alphabet up to length 4 (thorough: length 5 judged by the oracle, every 16th also sent to the model), then value-driven well-formed \
numerals of up to 40 digits (plain/kanji/mixed digits, separators, fractions, small and large units, coefficient notation), their \
near-miss mutations and random longer strings; op pipeline: real dictionary (digits, units, separators tagged as numerals, shadowing \
words, full-width forms, half of the generated sentences with 2..4 numerals separated by context words: unit numeral then zero-led \
digits, large unit then a not smaller one, malformed then normal) with JoinNumericPlugin vs the model's prediction from the un-joined \
path; op pipe (one line per pipeline case): the same sentence, the model is C14's transcription of rewrite_gen/concat/concat_nodes run with the \
C15 parser model as its parser (no parser answers on the line) on the real ResultNodes of the un-joined path (all node fields), the real \
class masks of the buffer and the settings (enableNormalize true, false, or left out = a quarter of the generated normalising cases), compared \
on ranges, part-of-speech ids and normalised forms of the real plugin's tokens; op seq (only when the tree has the hook verif_parse_seq, see extra.seq_hook_present): 2..4 numeral texts fed to ONE NumericParser \
with clear() between them, directed sequences for every field clear() resets and generated ones (every tenth generated case), each \
result must equal verif_parse of that text on a fresh parser and is judged like op parse; stream modes (25 directed + every twentieth generated case): dictionaries whose \
numeral WORDS declare A/B split units and word structure (二十, 百万, 二十五, 三百万, ...; one lexicon variant also 10, 0.5, １００ whose stored form already is the rendering), the word alone / inside \
longer numerals / in value-driven renderings, analysed in modes C, A, B and through Morpheme::split_into(A/B) of the mode-C morphemes (enableNormalize true or left out): every \
observation must show one token with the decimal rendering (oracle); two lines for the model per case: op pipe (mode C) and op modes (RewriteNumeric.rewrite followed by C09's split model \
with the declared lexicon rows: ranges and normalised forms of all five observations); non-trivial = at least two \
symbols (parse) / something was joined (pipeline) / always (seq); distinct by input line".into();
    run.extra.insert("variant_fixes_F1_F6".into(), serde_json::json!(probe_fixes()));
    run.extra.insert("seq_hook_present".into(), serde_json::json!(SEQ_HOOK_PRESENT));
    let n = run.opts.count;
    let thorough = run.opts.thorough;
    let d1 = DIRECTED.len();
    let d2 = d1 + DIRECTED_TEXTS.len() * 4;
    let d3 = d2 + DIRECTED_SEQ.len();
    let d = d3 + DIRECTED_MODES.len();
    let exh = if thorough { E4 + E5 } else { E4 };
    let mut cap = FailCap { per_kind: BTreeMap::new() };
    // self-check of the two oracle computations: generated canon vs the reference reading
    let mut dicts: Option<Dicts> = None;
    let mut mdicts: Option<ModeDicts> = None;
    let mut idx = 0;
    while idx < n {
        if !run.wants(idx) {
            idx += 1;
            continue;
        }
        if idx < d1 {
            parse_case(run, &mut cap, idx, DIRECTED[idx], true, "directed");
        } else if idx < d2 {
            if dicts.is_none() {
                match Dicts::new() {
                    Ok(x) => dicts = Some(x),
                    Err(e) => {
                        run.fail_with_line(idx, "", "pipeline:setup", &format!("cannot build the numeral dictionary: {}", e));
                        return;
                    }
                }
            }
            pipeline_case(run, dicts.as_ref().unwrap(), idx, Some(idx - d1));
        } else if idx >= d3 && idx < d {
            if mdicts.is_none() {
                match ModeDicts::new() {
                    Ok(x) => mdicts = Some(x),
                    Err(e) => {
                        run.fail_with_line(idx, "", "modes:setup", &format!("cannot build the dictionary of numeral words with units: {}", e));
                        return;
                    }
                }
            }
            modes_case(run, mdicts.as_ref().unwrap(), idx, Some(idx - d3));
        } else if idx < d3 {
            let texts: Vec<String> = DIRECTED_SEQ[idx - d2].iter().map(|t| t.to_string()).collect();
            seq_case(run, &mut cap, idx, &texts, "directed");
        } else if idx < d + exh {
            let k = idx - d;
            let s = kth_string(k);
            let emit = k < E4 || k % 16 == 0 || run.opts.only.is_some();
            parse_case(run, &mut cap, idx, &s, emit, if k < E4 { "exhaustive<=4" } else { "exhaustive5" });
        } else {
            let mut rng = Rng::for_case(run.opts.seed, idx);
            let r = idx - d - exh;
            if r % 10 == 9 {
                if dicts.is_none() {
                    match Dicts::new() {
                        Ok(x) => dicts = Some(x),
                        Err(e) => {
                            run.fail_with_line(idx, "", "pipeline:setup", &format!("cannot build the numeral dictionary: {}", e));
                            return;
                        }
                    }
                }
                pipeline_case(run, dicts.as_ref().unwrap(), idx, None);
            } else if r % 20 == 7 {
                if mdicts.is_none() {
                    match ModeDicts::new() {
                        Ok(x) => mdicts = Some(x),
                        Err(e) => {
                            run.fail_with_line(idx, "", "modes:setup", &format!("cannot build the dictionary of numeral words with units: {}", e));
                            return;
                        }
                    }
                }
                modes_case(run, mdicts.as_ref().unwrap(), idx, None);
            } else if r % 10 == 8 {
                let texts = gen_seq(&mut rng);
                seq_case(run, &mut cap, idx, &texts, "generated");
            } else {
                match rng.below(10) {
                    0..=3 => {
                        let v = gen_value(&mut rng);
                        let (s, canon, kind) = render_value(&mut rng, &v);
                        // the generator's expectation (from the value) and the reference reading must agree
                        match reference(&syms_of(&s).unwrap()) {
                            Class::WF(c) if c == canon => {}
                            other => run.fail_with_line(idx, &s, &format!("selfcheck:{}", s), &format!("oracle self-check: rendering {:?} of value {} is read as {:?}", s, canon, other)),
                        }
                        parse_case(run, &mut cap, idx, &s, true, kind);
                    }
                    4 => {
                        let (s, canon) = render_coefficient(&mut rng);
                        match reference(&syms_of(&s).unwrap()) {
                            Class::WF(c) if c == canon => {}
                            Class::DontCare(_) => {}
                            other => run.fail_with_line(idx, &s, &format!("selfcheck:{}", s), &format!("oracle self-check: rendering {:?} of value {} is read as {:?}", s, canon, other)),
                        }
                        parse_case(run, &mut cap, idx, &s, true, "coefficient");
                    }
                    5..=7 => {
                        let v = gen_value(&mut rng);
                        let (s, _, _) = render_value(&mut rng, &v);
                        let (m, what) = mutate(&mut rng, &s);
                        parse_case(run, &mut cap, idx, &m, true, &format!("mutant:{}", what));
                    }
                    _ => {
                        let s = random_string(&mut rng);
                        parse_case(run, &mut cap, idx, &s, true, "random");
                    }
                }
            }
        }
        idx += 1;
    }
}
