//! C07: text normalisation is the specified context-free function of the input.
//!
//! Real plugins (DefaultInputTextPlugin, ProlongedSoundMarkPlugin, IgnoreYomiganaPlugin) are
//! reached through a loaded dictionary; observed: `current()` and the offset map at every
//! character boundary after each plugin.  Oracles (independent of the Lean model): naive
//! `norm_spec` from the generator's own table, the two-run context relation, naive run/bracket
//! scans for the other two plugins.
use crate::common::*;
use crate::dict::*;
use std::collections::BTreeSet;
use sudachi::analysis::stateless_tokenizer::DictionaryAccess;
use sudachi::dic::category_type::CategoryType;
use sudachi::dic::dictionary::JapaneseDictionary;
use sudachi::analysis::stateful_tokenizer::StatefulTokenizer;
use sudachi::error::SudachiError;
use sudachi::input_text::InputBuffer;
use sudachi::prelude::MorphemeList;
use unicode_normalization::char::canonical_combining_class;
use unicode_normalization::{is_nfkc_quick, IsNormalized, UnicodeNormalization};

/// characters tables and texts are made of (no white space here: the table file is column based)
const POOL: &[char] = &[
    'a', 'b', 'c', 'A', 'B', 'Ｚ', 'ａ', 'ｂ', 'Ａ', 'ｱ', 'ア', 'ー', 'あ', '漢', '字', '東', '(', ')', '（', '）', '《', '》',
    'カ', 'ナ', 'か', 'な', '㍿', 'İ', 'ǅ', 'ǆ', 'Ǆ', '\u{0301}', '\u{0323}', '\u{0591}', '\u{05b0}', 'é', 'e', '～', '〜', '-', 'ｰ', '1', '１',
    '\u{2126}', 'ß', 'ẞ', 'ﬁ', 'Ⅻ', 'ᾈ', '\u{3099}', 'ﾞ', 'ｶ', 'ガ', '👍', '🏻', '𠮷', '\u{378}', 'Σ', 'ς', 'σ', 'K', '\u{212a}', '#', '\u{fdfa}',
    '\u{0344}', '\u{1e9b}', '\u{0130}', 'ⓐ', 'Ⓐ', '^', ']', '[', '\\', '&', '~',
];
/// extra text-only characters (white space, controls)
const TEXT_EXTRA: &[char] = &[' ', '\u{3000}', '\n', '\t', '\u{0}', '\u{a0}', '\r'];

const MARKS: &[char] = &['ー', '-', '～', '〜', '⁓', '^', ']', '[', '\\', '&', '~', 'a', 'ｰ'];
const LEFTS: &[char] = &['(', '（', '《', '[', 'か'];
const RIGHTS: &[char] = &[')', '）', '》', ']', 'か', 'ナ'];

#[derive(Clone, Debug)]
pub struct Cfg {
    pub pipe: Vec<char>,
    pub def_text: String,
    /// what the generator knows the file to mean (None = the file must be rejected)
    pub table: Option<(Vec<char>, Vec<(String, String)>)>,
    pub marks: Vec<char>,
    pub rep: Option<String>,
    pub yl: Vec<char>,
    pub yr: Vec<char>,
    pub yn: usize,
    pub pool: Vec<char>,
}

fn word(rng: &mut Rng, pool: &[char], lo: usize, hi: usize) -> String {
    let n = rng.range(lo, hi);
    (0..n).map(|_| *rng.pick(pool)).collect()
}

pub fn gen_cfg(rng: &mut Rng, directed: Option<usize>) -> Cfg {
    let k = rng.range(3, 7);
    let mut pool: Vec<char> = (0..k).map(|_| *rng.pick(POOL)).collect();
    let mut pipe: Vec<char> = match rng.below(11) {
        10 => {
            // the default plugin twice: the second one must choose its path from the text the first one left
            // (`commit` empties the character cache), not from the characters cached before
            match rng.below(3) { 0 => vec!['D', 'D'], 1 => vec!['D', 'P', 'D'], _ => vec!['D', 'Y', 'D'] }
        }
        0..=4 => vec!['D'],
        5 => vec!['P'],
        6 => vec!['Y'],
        7 => vec!['D', 'P'],
        8 => vec!['Y', 'D'],
        _ => {
            let mut v = vec!['D', 'P', 'Y'];
            for i in (1..v.len()).rev() {
                let j = rng.below(i + 1);
                v.swap(i, j);
            }
            v
        }
    };
    // table
    let mut ignore: Vec<char> = vec![];
    let mut pairs: Vec<(String, String)> = vec![];
    let mut lines: Vec<String> = vec![];
    let mut ok = true;
    let mut first_bad = false;
    let nign = rng.below(4);
    for _ in 0..nign {
        let c = if rng.chance(1, 2) { *rng.pick(&pool) } else { *rng.pick(POOL) };
        lines.push(c.to_string());
        if c != '#' && !ignore.contains(&c) {
            ignore.push(c);
        }
    }
    let nkeys = rng.below(7);
    for _ in 0..nkeys {
        let key = if !pairs.is_empty() && rng.chance(2, 5) {
            // a key that extends an existing key: prefix-related keys
            let base = rng.pick(&pairs).0.clone();
            format!("{}{}", base, word(rng, &pool, 1, 2))
        } else if !pairs.is_empty() && rng.chance(1, 6) {
            // a proper prefix of an existing key
            let base: Vec<char> = rng.pick(&pairs).0.chars().collect();
            base[..rng.range(1, base.len())].iter().collect()
        } else {
            word(rng, &pool, 1, 3)
        };
        let val = if rng.chance(1, 4) { word(rng, POOL, 1, 3) } else { word(rng, &pool, 1, 3) };
        let sep = *rng.pick(&[" ", "\t", "  ", "\u{3000}", " \t "]);
        let mut l = format!("{}{}{}", key, sep, val);
        if rng.chance(1, 10) {
            l = format!("  {} ", l);
        }
        lines.push(l);
        if key.starts_with('#') {
            continue; // a comment line
        }
        if pairs.iter().any(|p| p.0 == key) && !rng.chance(1, 12) {
            lines.pop();
            continue; // mostly avoid duplicates; sometimes keep one: the file must then be rejected
        }
        if pairs.iter().any(|p| p.0 == key) {
            if ok { first_bad = true; }
            ok = false; // "already defined"
            continue;
        }
        if ok {
            pairs.push((key, val));
        }
    }
    if rng.chance(1, 40) {
        lines.push(format!("{} {} {}", word(rng, &pool, 1, 2), word(rng, &pool, 1, 2), word(rng, &pool, 1, 2)));
        let l = lines.last().unwrap();
        if !l.starts_with('#') { ok = false; }
    }
    if rng.chance(1, 40) {
        let w = word(rng, &pool, 2, 3);
        if !w.starts_with('#') { ok = false; }
        lines.push(w);
    }
    let _ = first_bad;
    // shuffle ignore lines and pair lines only when the file is valid (errors are order dependent
    // only in which error is reported, which is not observed)
    let mut text = String::new();
    if rng.chance(1, 3) { text.push_str("# comment line\n"); }
    for l in &lines {
        text.push_str(l);
        text.push_str(if rng.chance(1, 8) { "\r\n" } else { "\n" });
        if rng.chance(1, 10) { text.push_str(*rng.pick(&["\n", "   \n", "#x y z\n", "\u{3000}\n"])); }
    }
    if rng.chance(1, 6) && text.ends_with('\n') { text.pop(); }

    let nm = if rng.chance(1, 30) { 0 } else { rng.range(1, 3) };
    let mut marks: Vec<char> = vec![];
    for _ in 0..nm {
        let c = if rng.chance(1, 5) { *rng.pick(&pool) } else { *rng.pick(MARKS) };
        if !marks.contains(&c) { marks.push(c); }
    }
    let rep = match rng.below(6) {
        0 => None,
        1 => Some(String::new()),
        2 => Some("ーー".to_string()),
        3 => Some(word(rng, &pool, 1, 2)),
        _ => Some("ー".to_string()),
    };
    let mut yl = vec![*rng.pick(LEFTS)];
    if rng.chance(1, 2) { let c = *rng.pick(LEFTS); if !yl.contains(&c) { yl.push(c); } }
    let mut yr = vec![*rng.pick(RIGHTS)];
    if rng.chance(1, 2) { let c = *rng.pick(RIGHTS); if !yr.contains(&c) { yr.push(c); } }
    let yn = if rng.chance(1, 40) { 0 } else { rng.range(1, 4) };

    let mut cfg = Cfg { pipe: pipe.clone(), def_text: text, table: if ok { Some((ignore, pairs)) } else { None }, marks, rep, yl, yr, yn, pool: pool.clone() };
    // directed configurations
    match directed {
        Some(0) => {
            // D9 of DESIGN §2.7
            cfg.pipe = vec!['D'];
            cfg.def_text = "a x\nab y\n".into();
            cfg.table = Some((vec![], vec![("a".into(), "x".into()), ("ab".into(), "y".into())]));
            cfg.pool = vec!['a', 'b', 'c', 'Ｚ'];
        }
        Some(1) => {
            // the shipped table
            cfg.pipe = vec!['D'];
            let (t, tab) = shipped_table();
            cfg.def_text = t;
            cfg.table = Some(tab);
            cfg.pool = vec!['ｱ', 'ﾞ', 'ｶ', 'A', 'ǅ', 'é', '㍿', 'ウ', '゛', 'Ⅻ', 'İ'];
        }
        Some(2) => {
            // the repository's default plugin stack
            cfg.pipe = vec!['D', 'P', 'Y'];
            let (t, tab) = shipped_table();
            cfg.def_text = t;
            cfg.table = Some(tab);
            cfg.marks = vec!['ー', '-', '⁓', '〜', '〰'];
            cfg.rep = Some("ー".into());
            cfg.yl = vec!['(', '（'];
            cfg.yr = vec![')', '）'];
            cfg.yn = 4;
            cfg.pool = vec!['漢', '字', '(', ')', '（', '）', 'か', 'ナ', 'ー', '-', '〜', 'Ａ', 'ｶ'];
        }
        Some(3) => {
            cfg.pipe = vec!['Y'];
            cfg.yl = vec!['('];
            cfg.yr = vec![')', 'か'];
            cfg.yn = 2;
            cfg.pool = vec!['漢', '(', ')', 'か', 'ナ', 'a'];
        }
        Some(4) => {
            cfg.pipe = vec!['P'];
            cfg.marks = vec!['ー', '-', '^', ']', '\\'];
            cfg.rep = None;
            cfg.pool = vec!['ー', '-', '^', ']', '\\', 'a', 'あ'];
        }
        Some(5) => {
            // keys over characters that need normalisation themselves; exempt characters
            cfg.pipe = vec!['D'];
            cfg.def_text = "Ａ\nｱ\nＡｂ q\nｂ ｱ\nǅ z\n".into();
            cfg.table = Some((vec!['Ａ', 'ｱ'], vec![("Ａｂ".into(), "q".into()), ("ｂ".into(), "ｱ".into()), ("ǅ".into(), "z".into())]));
            cfg.pool = vec!['Ａ', 'ｂ', 'ｱ', 'ǅ', 'a'];
        }
        Some(6) => {
            // a LARGE table: 4000 one-character keys with 24-byte values = 96 KB of replacement text.  Nothing in a line is
            // unusual; only the SUM of the values passes 65535 bytes (a table whose values are stored back to back behind
            // 16-bit offsets - seeded change C07e - wraps there).  The texts of the group take keys from the whole file.
            cfg.pipe = vec!['D'];
            let mut t = String::new();
            let mut prs = vec![];
            for i in 0..4000u32 {
                let k = char::from_u32(0x4e00 + i).unwrap().to_string();
                let v = format!("<{:05}-abcdefghijklmnop>", i);
                t.push_str(&format!("{} {}\n", k, v));
                prs.push((k, v));
            }
            cfg.def_text = t;
            cfg.table = Some((vec![], prs));
            cfg.pool = vec!['\u{4e00}', '\u{4e00}', '\u{5000}', '\u{5800}', '\u{5aaa}', '\u{5d9f}', 'A', 'a', 'あ'];
        }
        _ => {}
    }
    pool = cfg.pool.clone();
    pipe = cfg.pipe.clone();
    let _ = (pool, pipe);
    cfg
}

/// the shipped `resources/rewrite.def`, read naively (one column = exempt, two = pair)
fn shipped_table() -> (String, (Vec<char>, Vec<(String, String)>)) {
    let text = std::fs::read_to_string(format!("{}/../resources/rewrite.def", repo_sudachi_dir())).unwrap();
    let mut ign = vec![];
    let mut pairs = vec![];
    for l in text.lines() {
        let l = l.trim();
        if l.is_empty() || l.starts_with('#') { continue; }
        let cols: Vec<&str> = l.split_whitespace().collect();
        if cols.len() == 1 { ign.push(cols[0].chars().next().unwrap()); } else { pairs.push((cols[0].to_string(), cols[1].to_string())); }
    }
    (text, (ign, pairs))
}

/// directory of the sudachi crate the harness is linked against (from harness/Cargo.toml)
pub fn repo_sudachi_dir() -> String {
    let toml = std::fs::read_to_string(concat!(env!("CARGO_MANIFEST_DIR"), "/Cargo.toml")).unwrap_or_default();
    for l in toml.lines() {
        if l.trim_start().starts_with("sudachi") {
            if let Some(i) = l.find("path = \"") {
                let r = &l[i + 8..];
                if let Some(j) = r.find('"') { return r[..j].to_string(); }
            }
        }
    }
    "/repo/sudachi".to_string()
}

/// which instance of the model mirrors the tree: does `replace_slow` still ask for `.earliest(true)`?
pub(crate) fn impl_earliest() -> bool {
    let p = format!("{}/src/plugin/input_text/default_input_text/mod.rs", repo_sudachi_dir());
    match std::fs::read_to_string(p) {
        Ok(s) => s.contains(".earliest(true)"),
        Err(_) => true,
    }
}

/// the code's own "needs lower-casing" predicate, which the model takes as the fact `upper`:
/// `char::is_uppercase` in the pinned tree, `has_lowercase_form` (upper- or title-case) after the repair
fn impl_lowers_titlecase() -> bool {
    static P: std::sync::OnceLock<bool> = std::sync::OnceLock::new();
    *P.get_or_init(|| {
        let p = format!("{}/src/plugin/input_text/default_input_text/mod.rs", repo_sudachi_dir());
        std::fs::read_to_string(p).map(|s| s.contains("fn has_lowercase_form")).unwrap_or(false)
    })
}

fn code_upper(c: char) -> bool {
    if impl_lowers_titlecase() { c.is_uppercase() || c.to_lowercase().next() != Some(c) } else { c.is_uppercase() }
}

fn gen_text(rng: &mut Rng, cfg: &Cfg, directed: Option<usize>, sub: usize) -> String {
    match (directed, sub) {
        (Some(0), 0) => return "abc".into(),
        (Some(0), 1) => return "abcＺ".into(),
        (Some(0), 2) => return "Ｚabab".into(),
        (Some(1), 0) => return "ｱﾞAǅ".into(),
        (Some(1), 1) => return "ｳﾞ".into(),
        (Some(2), 0) => return "漢(かな)字ーー-（ナ）Ａ".into(),
        (Some(3), 0) => return "漢(かかか漢(ナ)".into(),
        (Some(3), 1) => return "漢(かナか)漢(か)".into(),
        (Some(4), 0) => return "aー-^a]\\\\ー".into(),
        (Some(5), 0) => return "Ａｂｂǅ".into(),
        (Some(5), 1) => return "ａｂｂ".into(),
        (Some(6), 0) => return "\u{4e00}\u{5800}\u{5d9f}".into(),
        (Some(6), 1) => return "A\u{5aaa}\u{5d9f}\u{4e0f}".into(),
        _ => {}
    }
    let n = rng.below(13);
    let mut s = String::new();
    let keys: Vec<&String> = cfg.table.as_ref().map(|t| t.1.iter().map(|p| &p.0).collect()).unwrap_or_default();
    let fast_only = rng.chance(1, 3);
    while s.chars().count() < n {
        let r = rng.below(20);
        if r < 5 && !keys.is_empty() {
            let kk: &String = *rng.pick(&keys[..]); s.push_str(kk);
        } else if r < 14 {
            s.push(*rng.pick(&cfg.pool));
        } else if r < 15 {
            s.push(*rng.pick(TEXT_EXTRA));
        } else if r < 17 && cfg.pipe.contains(&'Y') {
            // a yomigana-shaped group
            // the annotated character / the reading characters also come from the EDGES of the class runs of char.def
            // (last character of a run, first one after it): the plugin builds regex classes from half-open ranges
            const KANJI_EDGE: &[char] = &['\u{3005}', '\u{3006}', '\u{3007}', '\u{3008}', '\u{3400}', '\u{33ff}', '\u{4db5}', '\u{4db6}', '\u{4dff}', '\u{4e00}', '\u{9fa5}', '\u{9fa6}', '\u{f900}', '\u{fa2d}', '\u{fa2e}', '\u{fa6a}', '\u{fa6b}'];
            const KANA_EDGE: &[char] = &['\u{3040}', '\u{3041}', '\u{309f}', '\u{30a0}', '\u{30a1}', '\u{30ff}', '\u{3100}', '\u{31f0}', '\u{31ff}', '\u{3200}', '\u{ff65}', '\u{ff66}', '\u{ff9f}', '\u{ffa0}', '\u{036f}', '\u{0370}', '\u{200d}', '\u{200e}'];
            s.push(if rng.chance(1, 5) { *rng.pick(KANJI_EDGE) } else { *rng.pick(&['漢', '字', '東']) });
            s.push(if rng.chance(4, 5) { *rng.pick(&cfg.yl) } else { *rng.pick(LEFTS) });
            for _ in 0..rng.below(cfg.yn + 2) { s.push(if rng.chance(1, 6) { *rng.pick(KANA_EDGE) } else { *rng.pick(&['か', 'な', 'カ', 'ナ', 'ー', 'ｶ']) }); }
            if rng.chance(5, 6) { s.push(if rng.chance(4, 5) { *rng.pick(&cfg.yr) } else { *rng.pick(RIGHTS) }); }
        } else if r < 19 && cfg.pipe.contains(&'P') && !cfg.marks.is_empty() {
            for _ in 0..rng.range(1, 4) { s.push(*rng.pick(&cfg.marks)); }
        } else {
            s.push(*rng.pick(POOL));
        }
    }
    if fast_only {
        s = s.chars().filter(|c| !code_upper(*c) && is_nfkc_quick(std::iter::once(*c)) == IsNormalized::Yes).collect();
    }
    s
}

// ---------------------------------------------------------------------------------------------
// Unicode facts

fn qc_of(c: char) -> u8 {
    match is_nfkc_quick(std::iter::once(c)) {
        IsNormalized::Yes => 0,
        IsNormalized::No => 1,
        IsNormalized::Maybe => 2,
    }
}

fn dots(s: impl Iterator<Item = char>) -> String {
    join(s.map(|c| c as u32), ".")
}

pub struct Classes<'a> {
    pub dic: &'a JapaneseDictionary,
}

impl<'a> Classes<'a> {
    fn kanji(&self, c: char) -> bool {
        self.dic.grammar().character_category.get_category_types(c).intersects(CategoryType::KANJI)
    }
    fn kana(&self, c: char) -> bool {
        self.dic.grammar().character_category.get_category_types(c).intersects(CategoryType::HIRAGANA | CategoryType::KATAKANA)
    }
}

fn fact(c: char, cl: &Classes) -> String {
    format!(
        "{}:{}:{}:{}:{}:{}:{}:{}:{}",
        c as u32,
        code_upper(c) as u8,
        qc_of(c),
        canonical_combining_class(c),
        cl.kanji(c) as u8,
        cl.kana(c) as u8,
        dots(c.to_lowercase()),
        dots(std::iter::once(c).nfkc()),
        dots(c.to_lowercase().nfkc())
    )
}

pub(crate) fn facts_for(seed_chars: &BTreeSet<char>, cl: &Classes) -> String {
    let mut all = seed_chars.clone();
    for &c in seed_chars {
        all.extend(c.to_lowercase());
        all.extend(std::iter::once(c).nfkc());
        all.extend(c.to_lowercase().nfkc());
    }
    join(all.iter().map(|&c| fact(c, cl)), ";")
}

/// what step 2 of `replace_slow` writes for one character according to the MODEL (`Normalize.charOut`), computed from
/// the real tables: the (need_lowercase, need_nfkc) match, then "nothing when the iterator is empty or starts with the character"
fn model_char_out(c: char, exempt: bool) -> Vec<char> {
    let need_lower = code_upper(c);
    let need_nfkc = !exempt && qc_of(c) != 0;
    let data: Option<Vec<char>> = match (need_lower, need_nfkc) {
        (false, false) => None,
        (true, false) => Some(c.to_lowercase().collect()),
        (false, true) => Some(std::iter::once(c).nfkc().collect()),
        (true, true) => Some(c.to_lowercase().nfkc().collect()),
    };
    match data {
        None => vec![c],
        Some(d) if d.is_empty() || d[0] == c => vec![c],
        Some(d) => d,
    }
}

/// the specification's image of a character not covered by a key (`Normalize.specChar`)
fn spec_char(c: char, exempt: bool) -> Vec<char> {
    if exempt { c.to_lowercase().collect() } else { c.to_lowercase().nfkc().collect() }
}

/// Everything the Lean theorems assume of the Unicode tables, CHECKED against the real crates for every shipped
/// character: the eight clauses of `UniOk` and the exact (weakest) assumption `CharOk` (`charOut = specChar`, exempt or
/// not).  A violated clause is reported as a failure (key `unihyp:<clause>`), not only counted: the theorems would not
/// apply to the shipped data.
fn unihyp(run: &mut Run, idx: usize, chars: &BTreeSet<char>) {
    let mut bad: Vec<(&'static str, char)> = vec![];
    for &c in chars {
        run.bump("unihyp:characters-checked");
        let up = code_upper(c);
        let q = qc_of(c) == 0;
        let lower: Vec<char> = c.to_lowercase().collect();
        let n1: Vec<char> = std::iter::once(c).nfkc().collect();
        let nl: Vec<char> = c.to_lowercase().nfkc().collect();
        if !up && lower != vec![c] { bad.push(("lower_id", c)); }
        if q && n1 != vec![c] { bad.push(("nfkc_id", c)); }
        if up && q && nl != lower { bad.push(("lower_nfkc", c)); }
        if lower.is_empty() { bad.push(("lower_ne", c)); }
        if n1.is_empty() || nl.is_empty() { bad.push(("nfkc_ne", c)); }
        if !lower.is_empty() && lower[0] == c && lower.len() > 1 { bad.push(("lower_head", c)); }
        if !n1.is_empty() && n1[0] == c && n1.len() > 1 { bad.push(("nfkc_head", c)); }
        if !nl.is_empty() && nl[0] == c && nl.len() > 1 { bad.push(("nfkcl_head", c)); }
        // consistency of the shipped table itself: NFKC of a one-character lower case is the NFKC fact of that character
        if lower.len() == 1 && nl != std::iter::once(lower[0]).nfkc().collect::<Vec<char>>() { bad.push(("nfkcL-vs-nfkc1", c)); }
        // ASCII is always quick-check clean and a starter (the `c <= 0x7f` shortcut of quick_check)
        if (c as u32) <= 0x7f && (!q || canonical_combining_class(c) != 0) { bad.push(("ascii-shortcut", c)); }
        for exempt in [false, true] {
            if model_char_out(c, exempt) != spec_char(c, exempt) { bad.push(("CharOk", c)); }
        }
    }
    for (clause, c) in bad {
        run.bump(&format!("unihyp:VIOLATED {}", clause));
        run.fail(idx, &format!("unihyp:{}", clause), &format!("the Unicode tables violate the model assumption {} at U+{:04X}", clause, c as u32));
    }
}

// ---------------------------------------------------------------------------------------------
// naive specifications (the property's own oracle)

#[derive(Clone, Copy, PartialEq)]
enum KeyPick { Longest, Shortest }

/// left to right: the longest table key starting here is replaced by its value; any other character
/// is lower-cased and, unless exempt, NFKC-normalised.
/// Variants (used only to *name* a disagreement): shortest key; lower-casing only `is_uppercase` characters.
fn norm_spec(ign: &[char], pairs: &[(String, String)], text: &str, pick: KeyPick, lower_only_upper: bool) -> String {
    let cs: Vec<char> = text.chars().collect();
    let mut out = String::new();
    let mut i = 0;
    while i < cs.len() {
        let mut best: Option<(usize, &str)> = None;
        for (k, v) in pairs {
            let kc: Vec<char> = k.chars().collect();
            if !kc.is_empty() && i + kc.len() <= cs.len() && cs[i..i + kc.len()] == kc[..] {
                let better = match (best, pick) {
                    (None, _) => true,
                    (Some((l, _)), KeyPick::Longest) => kc.len() > l,
                    (Some((l, _)), KeyPick::Shortest) => kc.len() < l,
                };
                if better { best = Some((kc.len(), v.as_str())); }
            }
        }
        if let Some((l, v)) = best {
            out.push_str(v);
            i += l;
            continue;
        }
        let c = cs[i];
        let low: String = if lower_only_upper && !c.is_uppercase() { c.to_string() } else { c.to_lowercase().collect() };
        if ign.contains(&c) { out.push_str(&low); } else { out.extend(low.chars().nfkc()); }
        i += 1;
    }
    out
}

fn slow_path(text: &str) -> bool {
    is_nfkc_quick(text.chars()) != IsNormalized::Yes || text.chars().any(code_upper)
}

/// maximal runs of two or more marks become one replacement symbol
fn psm_spec(marks: &[char], rep: &str, text: &str) -> String {
    let cs: Vec<char> = text.chars().collect();
    let mut out = String::new();
    let mut i = 0;
    while i < cs.len() {
        if marks.contains(&cs[i]) {
            let mut j = i;
            while j < cs.len() && marks.contains(&cs[j]) { j += 1; }
            if j - i >= 2 { out.push_str(rep); } else { out.push(cs[i]); }
            i = j;
        } else {
            out.push(cs[i]);
            i += 1;
        }
    }
    out
}

/// kanji, left bracket, 1..=n kana, right bracket: the bracketed group is deleted (leftmost,
/// longest reading first, non-overlapping)
fn yomi_spec(cl: &Classes, yl: &[char], yr: &[char], n: usize, text: &str) -> String {
    let cs: Vec<char> = text.chars().collect();
    let mut keep = vec![true; cs.len()];
    let mut i = 0;
    'outer: while i < cs.len() {
        if cl.kanji(cs[i]) && i + 1 < cs.len() && yl.contains(&cs[i + 1]) {
            for k in (1..=n).rev() {
                let close = i + 2 + k;
                if close < cs.len() && (i + 2..close).all(|j| cl.kana(cs[j])) && yr.contains(&cs[close]) {
                    for j in i + 1..=close { keep[j] = false; }
                    i = close + 1;
                    continue 'outer;
                }
            }
        }
        i += 1;
    }
    cs.iter().zip(keep).filter(|p| p.1).map(|p| *p.0).collect()
}

// ---------------------------------------------------------------------------------------------

/// text and offset map (entry of each character's first byte, then the sentinel entry) after a plugin
type Stage = (String, Vec<usize>);

/// what one analysis of the input part gives: the stages that completed and how it ended
#[derive(Clone, Debug, PartialEq)]
pub struct Obs {
    stages: Vec<Stage>,
    /// None = completed; Some("toolong") = `Err(InputTooLong)` from `start_build` (no stage) or from a plugin's commit
    end: Option<String>,
}

fn stage_of(buf: &InputBuffer) -> Stage {
    let cur = buf.current().to_string();
    let mut m: Vec<usize> = cur.char_indices().map(|(b, _)| buf.get_original_index(b)).collect();
    m.push(buf.get_original_index(cur.len()));
    (cur, m)
}

fn is_too_long(e: &SudachiError) -> bool {
    matches!(e, SudachiError::InputTooLong(_, _))
}

/// reset / push_str / start_build / the plugins (at most `upto`) on `buf`, whatever it held before; `build` when asked.
/// Err = an error other than InputTooLong, or a panic
fn analyse_input(dic: &JapaneseDictionary, buf: &mut InputBuffer, text: &str, upto: Option<usize>, build: bool) -> Result<Obs, String> {
    let r = catch(|| -> Result<Obs, String> {
        buf.reset().push_str(text);
        if let Err(e) = buf.start_build() {
            return if is_too_long(&e) { Ok(Obs { stages: vec![], end: Some("toolong".into()) }) } else { Err(format!("{:?}", e)) };
        }
        let mut stages = vec![];
        for (i, p) in dic.input_text_plugins().iter().enumerate() {
            if let Some(u) = upto { if i >= u { break; } }
            if let Err(e) = p.rewrite(buf) {
                return if is_too_long(&e) { Ok(Obs { stages, end: Some("toolong".into()) }) } else { Err(format!("{:?}", e)) };
            }
            stages.push(stage_of(buf));
        }
        if build {
            buf.build(dic.grammar()).map_err(|e| format!("{:?}", e))?;
        }
        Ok(Obs { stages, end: None })
    });
    match r {
        Ok(Ok(x)) => Ok(x),
        Ok(Err(e)) => Err(format!("err {}", e)),
        Err(p) => Err(format!("PANIC {}", p)),
    }
}

/// a new buffer per text
fn run_plugins(dic: &JapaneseDictionary, text: &str, upto: Option<usize>) -> Result<Obs, String> {
    let mut buf = InputBuffer::new();
    analyse_input(dic, &mut buf, text, upto, false)
}

/// the same text through a buffer that was used for other texts before (reset + fill + start_build + plugins + build)
fn run_plugins_recycled(dic: &JapaneseDictionary, buf: &mut InputBuffer, text: &str) -> Result<Obs, String> {
    analyse_input(dic, buf, text, None, true)
}

/// hidden state of a buffer after an analysis: (state 0 Clean / 1 RW / 2 RO, byte length of the scratch string `modified_2`)
fn hidden(buf: &InputBuffer) -> (u8, usize) {
    let t = buf.verif_tables();
    (t.state, t.modified_2_len)
}

/// A long-lived analyser the way the CLI and the bindings use one: ONE StatefulTokenizer and ONE MorphemeList analyse the
/// history texts (reset / push_str / do_tokenize / collect_results - the two swap their input buffers on every successful
/// call, so a text meets the buffer of the call before last), then the text of the case.  Observed on the tokenizer's
/// buffer right after `do_tokenize`: final text, offset map, hidden state.
struct TokObs {
    /// None = InputTooLong
    fin: Option<Stage>,
    hidden: (u8, usize),
}

fn analyse_on_tokenizer(dic: &JapaneseDictionary, tok: &mut StatefulTokenizer<&JapaneseDictionary>, ml: &mut MorphemeList<&JapaneseDictionary>, hist: &[String], text: &str) -> Result<TokObs, String> {
    let _ = dic;
    let r = catch(|| -> Result<TokObs, String> {
        for h in hist {
            tok.reset().push_str(h);
            match tok.do_tokenize() {
                Ok(()) => ml.collect_results(tok).map_err(|e| format!("collect_results: {:?}", e))?,
                Err(e) if is_too_long(&e) => {}
                Err(e) => return Err(format!("history text {:?}: {:?}", h.chars().take(20).collect::<String>(), e)),
            }
        }
        tok.reset().push_str(text);
        match tok.do_tokenize() {
            Ok(()) => {
                let t = tok.verif_input().verif_tables();
                let mut m: Vec<usize> = t.modified.char_indices().map(|(b, _)| t.m2o[b]).collect();
                m.push(t.m2o[t.modified.len()]);
                Ok(TokObs { fin: Some((t.modified.clone(), m)), hidden: (t.state, t.modified_2_len) })
            }
            Err(e) if is_too_long(&e) => Ok(TokObs { fin: None, hidden: hidden(tok.verif_input()) }),
            Err(e) => Err(format!("{:?}", e)),
        }
    });
    match r {
        Ok(Ok(x)) => Ok(x),
        Ok(Err(e)) => Err(format!("err {}", e)),
        Err(p) => Err(format!("PANIC {}", p)),
    }
}

/// the same discipline on two bare buffers (tokenizer's and list's, swapped after every successful analysis), which lets
/// the harness look at the text after EVERY plugin
fn analyse_on_buffers(dic: &JapaneseDictionary, hist: &[String], text: &str) -> Result<(Obs, (u8, usize)), String> {
    let mut a = InputBuffer::new();
    let mut b = InputBuffer::new();
    for h in hist {
        match analyse_input(dic, &mut a, h, None, true) {
            Ok(o) => { if o.end.is_none() { std::mem::swap(&mut a, &mut b); } }
            Err(e) => return Err(format!("history text: {}", e)),
        }
    }
    let o = analyse_input(dic, &mut a, text, None, true)?;
    let h = hidden(&a);
    Ok((o, h))
}

/// a text on the wire: code points, a run of 8 or more equal characters as `c*n`; `-` = the empty text inside a list
fn wire_text(s: &str, in_list: bool) -> String {
    if s.is_empty() { return if in_list { "-".into() } else { String::new() }; }
    let cs: Vec<char> = s.chars().collect();
    let mut out: Vec<String> = vec![];
    let mut i = 0;
    while i < cs.len() {
        let mut j = i;
        while j < cs.len() && cs[j] == cs[i] { j += 1; }
        if j - i >= 8 { out.push(format!("{}*{}", cs[i] as u32, j - i)); } else { for _ in i..j { out.push((cs[i] as u32).to_string()); } }
        i = j;
    }
    out.join(",")
}

pub(crate) fn plugin_json(cfg: &Cfg, p: char) -> String {
    let chars_json = |v: &[char]| -> String {
        let items: Vec<String> = v.iter().map(|c| serde_json::to_string(&c.to_string()).unwrap()).collect();
        format!("[{}]", items.join(","))
    };
    match p {
        'D' => r#"{"class":"com.worksap.nlp.sudachi.DefaultInputTextPlugin","rewriteDef":"rw.def"}"#.to_string(),
        'P' => match &cfg.rep {
            Some(r) => format!(r#"{{"class":"com.worksap.nlp.sudachi.ProlongedSoundMarkPlugin","prolongedSoundMarks":{},"replacementSymbol":{}}}"#, chars_json(&cfg.marks), serde_json::to_string(r).unwrap()),
            None => format!(r#"{{"class":"com.worksap.nlp.sudachi.ProlongedSoundMarkPlugin","prolongedSoundMarks":{}}}"#, chars_json(&cfg.marks)),
        },
        _ => format!(
            r#"{{"class":"com.worksap.nlp.sudachi.IgnoreYomiganaPlugin","leftBrackets":{},"rightBrackets":{},"maxYomiganaLength":{}}}"#,
            chars_json(&cfg.yl), chars_json(&cfg.yr), cfg.yn
        ),
    }
}

pub(crate) fn setup_payload(cfg: &Cfg, earliest: bool) -> String {
    let mut s = format!("pipe={} early={}", cfg.pipe.iter().collect::<String>(), earliest as u8);
    if cfg.pipe.contains(&'D') {
        s.push_str(&format!(" def={}", hex(cfg.def_text.as_bytes())));
    }
    s.push_str(&format!(
        " pm={} pr={} yl={} yr={} yn={}",
        join(cfg.marks.iter().map(|&c| c as u32), ","),
        match &cfg.rep { None => "-".to_string(), Some(r) => cps(r) },
        join(cfg.yl.iter().map(|&c| c as u32), ","),
        join(cfg.yr.iter().map(|&c| c as u32), ","),
        cfg.yn
    ));
    s
}

pub(crate) fn cfg_chars(cfg: &Cfg) -> BTreeSet<char> {
    let mut s = BTreeSet::new();
    if let Some((ign, pairs)) = &cfg.table {
        s.extend(ign.iter());
        for (k, v) in pairs { s.extend(k.chars()); s.extend(v.chars()); }
    }
    s.extend(cfg.rep.clone().unwrap_or_else(|| "ー".to_string()).chars());
    s
}

struct Loaded {
    cfg: Cfg,
    dic: Option<JapaneseDictionary>,
    load_err: String,
    /// one buffer per configuration that is RECYCLED (reset / fill / start_build / plugins / build) for every text of the
    /// group, the way StatefulTokenizer uses its buffer: the rewritten text must not depend on what the buffer held before
    recycled: std::cell::RefCell<InputBuffer>,
}

fn tiny_system() -> Vec<u8> {
    let mut rng = Rng::new(7);
    let lex = gen_lexicon(&mut rng, 2, 8, false, false);
    let m = Matrix::random(&mut rng, 2, 2, false);
    build_system(csv_of(&lex.rows, &lex.pos).as_bytes(), m.text().as_bytes()).expect("tiny system dictionary")
}

fn load_cfg(wd: &Workdir, system: &[u8], cfg: Cfg) -> Loaded {
    wd.write("rw.def", &cfg.def_text);
    let input: Vec<String> = cfg.pipe.iter().map(|&p| plugin_json(&cfg, p)).collect();
    let json = config_json(wd, &input, &[simple_oov_json(0, 0, 100)], &[], &[]);
    match load(&json, system.to_vec(), vec![]) {
        Ok(d) => Loaded { cfg, dic: Some(d), load_err: String::new(), recycled: std::cell::RefCell::new(InputBuffer::new()) },
        Err(e) => Loaded { cfg, dic: None, load_err: e, recycled: std::cell::RefCell::new(InputBuffer::new()) },
    }
}

const GROUP: usize = 6;
const DIRECTED_CFGS: usize = 7;

pub fn run(run: &mut Run) {
    run.rule = "random rewrite tables (prefix-related keys, multi-character keys/values, exempt characters, duplicates, malformed lines, \
comments, CRLF, ideographic-space separators) x plugin stacks (default / prolonged-sound-mark / yomigana in every order) x texts over a small \
pool (keys embedded, fast-path-only and slow-path texts, combining marks, title-case letters, astral characters) + blocks of the \
every-scalar sweep over the shipped rewrite.def (alone, after 'A', before 'a'; every second block on one recycled tokenizer); about half of the cases on RECYCLED objects (one StatefulTokenizer + one MorphemeList, and two swapped bare buffers for the per-plugin view, after 1-4 other texts: empty, shorter, longer, already normalised, rejected by start_build, rejected inside commit), texts at the 49149-byte input limit and rewrites beyond 65535 bytes, pipes with the default plugin twice; non-trivial = some stage changed the text; distinct by payload".into();
    let earliest = impl_earliest();
    run.extra.insert("model_instance_earliest".into(), serde_json::json!(earliest));
    let system = tiny_system();
    let wd = Workdir::new_legacy("c07");
    let n = run.opts.count;
    // ---- sweep lines (thorough: every scalar; quick: a sample of blocks) take the first indices after the random cases
    let mut loaded: Option<(usize, Loaded)> = None;
    for idx in 0..n {
        if !run.wants(idx) { continue; }
        let grp = idx / GROUP;
        let sub = idx % GROUP;
        if loaded.as_ref().map_or(true, |l| l.0 != grp) {
            let mut crng = Rng::for_case(run.opts.seed ^ 0xC07C07, grp);
            let directed = if grp < DIRECTED_CFGS { Some(grp) } else { None };
            let cfg = gen_cfg(&mut crng, directed);
            loaded = Some((grp, load_cfg(&wd, &system, cfg)));
        }
        let ld = &loaded.as_ref().unwrap().1;
        let cfg = &ld.cfg;
        let directed = if grp < DIRECTED_CFGS { Some(grp) } else { None };
        let mut rng = Rng::for_case(run.opts.seed, idx);
        let mut text = gen_text(&mut rng, cfg, directed, sub);
        // about half of the cases run on RECYCLED objects; the expected answer does not change
        let mut hrng = Rng::for_case(run.opts.seed ^ 0x4157_0C07, idx);
        let mut hist = if hrng.chance(1, 2) { Some(gen_history(&mut hrng, cfg)) } else { None };
        if directed.is_none() && hrng.chance(1, 150) {
            // the limits on the text of the case itself
            // (the filler is a character no plugin touches, so the accepted ones are copied through)
            let used = |c: char| cfg.table.as_ref().map_or(false, |t| t.1.iter().any(|(k, _)| k.contains(c))) || cfg.marks.contains(&c);
            let filler = ['a', 'b', 'c', 'e', '1'].into_iter().find(|c| !used(*c)).unwrap_or('x');
            text = if hrng.chance(1, 2) { filler.to_string().repeat(49148 + hrng.below(4)) } else { long_expanding(&mut hrng, cfg) };
        }
        // directed histories: the shapes the seeded change C07b needs (an already-normalised text two calls earlier)
        if directed == Some(0) && sub == 1 { hist = Some(vec!["abc".into(), "Ｚ".into()]); }
        if directed == Some(1) && sub == 0 { hist = Some(vec!["あ".into(), "".into(), "a".repeat(49150)]); }
        if directed == Some(2) && sub == 0 { hist = Some(vec!["漢字".into()]); }
        one_case(run, idx, ld, &text, hist, earliest);
    }
    // ---- every-scalar sweep over the shipped table
    let (t, tab) = shipped_table();
    let scfg = Cfg { pipe: vec!['D'], def_text: t, table: Some(tab), marks: vec![], rep: None, yl: vec![], yr: vec![], yn: 1, pool: vec![] };
    let sl = load_cfg(&wd, &system, scfg);
    const BLOCK: u32 = 128;
    let nblocks = (0x110000 / BLOCK) as usize;
    let blocks: Vec<usize> = if run.opts.thorough {
        (0..nblocks).collect()
    } else {
        // quick tier: fixed interesting blocks + a seeded sample
        let mut v: Vec<usize> = vec![0, 1, 3, 0x1c0 / 128, 0x300 / 128, 0x1f80 / 128, 0x2100 / 128, 0x3300 / 128, 0xff00 / 128, 0xd7ff / 128, 0xe000 / 128, 0x1f600 / 128, 0x10ff80 / 128];
        let mut r = Rng::for_case(run.opts.seed, 0xB10C);
        for _ in 0..(n / 100).max(4) { v.push(r.below(nblocks)); }
        v.sort();
        v.dedup();
        v
    };
    for (k, b) in blocks.iter().enumerate() {
        let idx = n + k;
        if !run.wants(idx) { continue; }
        sweep_block(run, idx, &sl, *b as u32 * BLOCK, BLOCK, earliest);
    }
}

/// texts a long-lived analyser saw before the text of the case: 1-4 of them, of other lengths (empty, shorter, longer),
/// already-normalised ones (they leave the buffer after a fast-path run) and ones that were REJECTED (too long for
/// `start_build`; too long only after rewriting, i.e. rejected in the middle of `rewrite_input`)
fn gen_history(rng: &mut Rng, cfg: &Cfg) -> Vec<String> {
    let n = rng.range(1, 4);
    let mut v = vec![];
    for _ in 0..n {
        let t = match rng.below(24) {
            0 | 1 => String::new(),
            2..=4 => {
                // longer than any case text
                let mut s = String::new();
                for _ in 0..rng.range(3, 6) { s.push_str(&gen_text(rng, cfg, None, 0)); }
                s
            }
            5..=8 => gen_text(rng, cfg, None, 0).chars().filter(|c| !code_upper(*c) && is_nfkc_quick(std::iter::once(*c)) == IsNormalized::Yes).collect(),
            9 if rng.chance(1, 3) => "a".repeat(49150 + rng.below(3)),
            10 if rng.chance(1, 3) => long_expanding(rng, cfg),
            _ => gen_text(rng, cfg, None, 0),
        };
        v.push(t);
    }
    v
}

/// a text below the input limit (49 149 bytes) that the configured plugins may blow up beyond 65 535 bytes
fn long_expanding(rng: &mut Rng, cfg: &Cfg) -> String {
    if cfg.pipe.contains(&'D') || !cfg.pipe.contains(&'P') || cfg.marks.is_empty() {
        // U+FDFA: 3 bytes, NFKC 18 characters / 33 bytes
        let n = rng.range(1986, 2100);
        let mut s = "\u{fdfa}".repeat(n);
        if rng.chance(1, 2) { s.push_str("Ａ"); }
        s
    } else {
        // runs of two marks, each replaced by the replacement symbol
        let m = cfg.marks[0];
        let unit = format!("{}{}a", m, m);
        unit.repeat(49149 / unit.len())
    }
}

/// expected end of a stage by the naive specification: the rewritten text, or None when it exceeds 65 535 bytes
fn limit(want: String) -> Option<String> {
    if want.len() > 65535 { None } else { Some(want) }
}

fn one_case(run: &mut Run, idx: usize, ld: &Loaded, text: &str, hist: Option<Vec<String>>, earliest: bool) {
    let cfg = &ld.cfg;
    let pipe_s: String = cfg.pipe.iter().collect();
    run.bump(&format!("pipe:{}", pipe_s));
    run.bump(if hist.is_some() { "objects:recycled (tokenizer + result list with history)" } else { "objects:new" });
    let hist_payload = match &hist {
        None => String::new(),
        Some(h) => format!(" hist={}", h.iter().map(|t| wire_text(t, true)).collect::<Vec<_>>().join(";")),
    };
    let dic = match &ld.dic {
        None => {
            // the configuration is rejected at load
            let ans = if ld.load_err.starts_with("PANIC") { "PANIC" } else { "err" };
            let payload = format!("{} uni={} text={}", setup_payload(cfg, earliest), hist_payload, wire_text(text, false));
            run.case(idx, "run", &payload, ans, false);
            run.bump("outcome:load-error");
            let expected_err = (cfg.pipe.contains(&'D') && cfg.table.is_none())
                || (cfg.pipe.contains(&'P') && cfg.marks.is_empty())
                || (cfg.pipe.contains(&'Y') && cfg.yn == 0);
            if !expected_err {
                run.fail(idx, &format!("load:{}", pipe_s), &format!("a well-formed plugin configuration was rejected: {}", ld.load_err));
            }
            return;
        }
        Some(d) => d,
    };
    let cl = Classes { dic };
    let mut chars: BTreeSet<char> = cfg_chars(cfg);
    chars.extend(text.chars());
    if let Some(h) = &hist { for t in h { chars.extend(t.chars()); } }
    let payload = format!("{} uni={}{} text={}", setup_payload(cfg, earliest), facts_for(&chars, &cl), hist_payload, wire_text(text, false));
    if cfg.pipe.contains(&'D') && cfg.table.is_none() {
        run.bump("generator-expected-load-error-but-loaded");
    }
    // ---- the observation: on new objects, or on recycled ones
    let mut tok_obs: Option<TokObs> = None;
    let mut buf_hidden = (0u8, 0usize);
    let res: Result<Obs, String> = match &hist {
        None => run_plugins(dic, text, None),
        Some(h) => {
            for t in h {
                run.bump(&format!("history-text:{}", if t.is_empty() { "empty" } else if t.len() > 49149 { "rejected-by-start_build" } else if t.len() > 5000 { "long-expanding(rejected-in-commit-if-D)" } else if t.chars().count() > text.chars().count() { "longer" } else { "shorter-or-equal" }));
            }
            run.bump(&format!("history-len:{}", h.len()));
            let mut tok = StatefulTokenizer::new(dic, sudachi::analysis::Mode::C);
            let mut ml = MorphemeList::empty(dic);
            match analyse_on_tokenizer(dic, &mut tok, &mut ml, h, text) {
                Ok(t) => { tok_obs = Some(t); analyse_on_buffers(dic, h, text).map(|(o, hd)| { buf_hidden = hd; o }) }
                Err(e) => Err(e),
            }
        }
    };
    let obs = match res {
        Err(e) => {
            let ans = if e.starts_with("PANIC") { "PANIC".to_string() } else { "err-rewrite".to_string() };
            run.case(idx, "run", &payload, &ans, true);
            unihyp(run, idx, &chars);
            run.bump("outcome:rewrite-failed");
            run.fail(idx, &format!("total:{}", pipe_s), &format!("rewriting failed on {:?}: {}", text.chars().take(40).collect::<String>(), e));
            return;
        }
        Ok(s) => s,
    };
    let stages = &obs.stages;
    // ---- the answer line
    let mut ans = String::from("ok");
    {
        let mut prev: &str = text;
        for (i, (t, m)) in stages.iter().enumerate() {
            ans.push_str(&format!(" t={} m={}", cps(t), join(m.iter(), ",")));
            if cfg.pipe[i] == 'D' { ans.push_str(&format!(" q={}", slow_path(prev) as u8)); }
            prev = t;
        }
    }
    if obs.end.is_some() { ans.push_str(" toolong"); }
    if let Some(t) = &tok_obs {
        if let Some((ft, fm)) = &t.fin { ans.push_str(&format!(" fin={} fm={}", cps(ft), join(fm.iter(), ","))); }
        ans.push_str(&format!(" rec={}:{}", t.hidden.0, t.hidden.1));
    }
    let changed = stages.last().map_or(false, |s| s.0 != text);
    run.case(idx, "run", &payload, &ans, changed);
    unihyp(run, idx, &chars);
    run.bump(if obs.end.is_some() { "outcome:too-long" } else { "outcome:ok" });
    if slow_path(text) { run.bump("default-path:slow(if D first)"); } else { run.bump("default-path:fast(if D first)"); }
    run.bump(&format!("text-len:{}", (text.chars().count().min(64) / 4) * 4));
    // ---- oracle: the tokenizer + result list and the two bare buffers are the same discipline
    if let Some(t) = &tok_obs {
        let last: Option<&Stage> = if obs.end.is_none() { stages.last() } else { None };
        if t.fin.as_ref() != last || t.hidden != buf_hidden {
            run.fail(idx, &format!("history:tokenizer:{}", pipe_s), &format!(
                "after the same history the tokenizer's buffer holds {:?} (hidden {:?}), two swapped bare buffers give {:?} (hidden {:?})",
                t.fin.as_ref().map(|s| s.0.chars().take(40).collect::<String>()), t.hidden, last.map(|s| s.0.chars().take(40).collect::<String>()), buf_hidden));
        }
    }
    // ---- oracle: the rewritten text is a function of the input alone - a recycled buffer gives the same stages
    {
        let mut rb = ld.recycled.borrow_mut();
        match run_plugins_recycled(dic, &mut rb, text) {
            Ok(rs) => {
                run.bump("recycled-buffer:compared");
                let fresh = if hist.is_some() { run_plugins(dic, text, None).ok() } else { Some(obs.clone()) };
                if Some(&rs) != fresh.as_ref() {
                    run.fail(idx, &format!("history:{}", pipe_s), &format!(
                        "the same text {:?} through a buffer that held other texts before gives {:?}, through a new buffer {:?}",
                        text.chars().take(40).collect::<String>(), rs.stages.iter().map(|s| s.0.chars().take(40).collect::<String>()).collect::<Vec<_>>(),
                        fresh.map(|f| f.stages.iter().map(|s| s.0.chars().take(40).collect::<String>()).collect::<Vec<_>>())));
                }
            }
            Err(e) => {
                *rb = InputBuffer::new();
                run.fail(idx, &format!("history:{}", pipe_s), &format!("rewriting {:?} failed in a recycled buffer although it succeeds in a new one: {}", text.chars().take(40).collect::<String>(), e));
            }
        }
    }
    // ---- oracle: the input limit
    if text.len() > 49149 {
        if obs.end.is_some() && stages.is_empty() { run.bump("limit:input-rejected"); } else {
            run.fail(idx, "limit:input", &format!("a text of {} bytes (limit 49149) was not rejected by start_build", text.len()));
        }
        return;
    }
    // ---- oracle: each stage against the naive specification applied to the previous stage's actual output
    let mut prev = text.to_string();
    for (i, &p) in cfg.pipe.iter().enumerate() {
        let want: Option<String> = match p {
            'D' => match &cfg.table { Some((ign, pairs)) => limit(norm_spec(ign, pairs, &prev, KeyPick::Longest, false)), None => break },
            'P' => limit(psm_spec(&cfg.marks, &cfg.rep.clone().unwrap_or_else(|| "ー".to_string()), &prev)),
            _ => limit(yomi_spec(&cl, &cfg.yl, &cfg.yr, cfg.yn, &prev)),
        };
        let got: Option<&String> = stages.get(i).map(|s| &s.0);
        let (want, got) = match (want, got) {
            (None, None) => {
                run.bump("limit:rewritten-text-rejected");
                break;
            }
            (None, Some(g)) => {
                run.fail(idx, "limit:rewritten", &format!("plugin {} produced {} bytes although the limit is 65535", p, g.len()));
                break;
            }
            (Some(w), None) => {
                run.fail(idx, &format!("total:{}", pipe_s), &format!("plugin {} rejected a text whose rewrite has {} bytes (limit 65535)", p, w.len()));
                break;
            }
            (Some(w), Some(g)) => (w, g),
        };
        match p {
            'D' => {
                if let Some((ign, pairs)) = &cfg.table {
                    check_default(run, idx, ign, pairs, &prev, got);
                    if pairs.iter().any(|(k, _)| prev.contains(k.as_str())) { run.bump("default:key-occurs"); }
                }
            }
            'P' => {
                if *got != want {
                    run.fail(idx, "psm", &format!("prolonged sound marks {:?}->{:?}: {:?} became {:?}, the maximal runs of >=2 marks give {:?}", cfg.marks, cfg.rep, prev, got, want));
                }
                if want != prev { run.bump("psm:collapsed"); }
            }
            _ => {
                if *got != want {
                    run.fail(idx, "yomigana", &format!("yomigana {:?}/{:?}/{}: {:?} became {:?}, the described spans give {:?}", cfg.yl, cfg.yr, cfg.yn, prev, got, want));
                }
                if want != prev { run.bump("yomigana:removed"); }
            }
        }
        prev = got.clone();
    }
    // ---- oracle: two-run context relation for the default plugin when it runs first
    if cfg.pipe[0] == 'D' && !stages.is_empty() && text.len() < 5000 {
        if let Some((ign, pairs)) = &cfg.table {
            for x in ['Ｚ', 'Q', '㌔'] {
                if pairs.iter().any(|(k, _)| k.contains(x)) { continue; }
                let alone = stages[0].0.clone();
                let t2 = format!("{}{}", text, x);
                let (r2, rx) = (run_plugins(dic, &t2, Some(1)), run_plugins(dic, &x.to_string(), Some(1)));
                if let (Ok(r2), Ok(rx)) = (r2, rx) {
                    if r2.stages.is_empty() || rx.stages.is_empty() { break; }
                    let (r2, rx) = (r2.stages, rx.stages);
                    let want = format!("{}{}", alone, rx[0].0);
                    if r2[0].0 != want {
                        let d9 = r2[0].0 == norm_spec(ign, pairs, &t2, KeyPick::Shortest, true) && alone == norm_spec(ign, pairs, text, KeyPick::Longest, true);
                        let key = if d9 { "d9-shortest-key:context".to_string() } else { "context".to_string() };
                        run.fail(idx, &key, &format!("the rewrite of {:?} depends on an unrelated character: alone {:?}, followed by {:?} it becomes {:?} (expected {:?})", text, alone, x, r2[0].0, want));
                    }
                    run.bump("context-relation-checked");
                } else {
                    run.fail(idx, "total:context", &format!("rewriting failed on {:?}", t2));
                }
                break;
            }
        }
    }
}

fn check_default(run: &mut Run, idx: usize, ign: &[char], pairs: &[(String, String)], input: &str, got: &str) {
    let want = norm_spec(ign, pairs, input, KeyPick::Longest, false);
    if got == want { return; }
    let slow = slow_path(input);
    let v_d9 = norm_spec(ign, pairs, input, if slow { KeyPick::Shortest } else { KeyPick::Longest }, false);
    let v_tc = norm_spec(ign, pairs, input, KeyPick::Longest, true);
    let v_both = norm_spec(ign, pairs, input, if slow { KeyPick::Shortest } else { KeyPick::Longest }, true);
    let d9 = format!("slow path took the shortest of several table keys starting at one position: {:?} became {:?}, the specification (longest key) gives {:?}", input, got, want);
    let tc = |input: &str| -> String {
        let c = input.chars().find(|c| !c.is_uppercase() && c.to_lowercase().next() != Some(*c)).unwrap_or('?');
        format!("U+{:04X} is not lower-cased (char::is_uppercase is false for it, to_lowercase changes it): {:?} became {:?}, the specification gives {:?}", c as u32, input, got, want)
    };
    if got == v_d9 {
        run.fail(idx, "d9-shortest-key:spec", &d9);
    } else if got == v_tc {
        run.fail(idx, "lower-skipped", &tc(input));
    } else if got == v_both {
        run.fail(idx, "d9-shortest-key:spec", &d9);
        run.fail(idx, "lower-skipped", &tc(input));
    } else {
        run.fail(idx, "spec", &format!("default normalisation: {:?} became {:?}, the specification gives {:?}", input, got, want));
    }
}

fn sweep_block(run: &mut Run, idx: usize, ld: &Loaded, from: u32, n: u32, earliest: bool) {
    let cfg = &ld.cfg;
    let dic = ld.dic.as_ref().expect("shipped rewrite.def loads");
    let cl = Classes { dic };
    let (ign, pairs) = cfg.table.as_ref().unwrap();
    let mut texts: Vec<String> = vec![];
    let mut chars: BTreeSet<char> = BTreeSet::new();
    chars.insert('A');
    chars.insert('a');
    for x in from..from + n {
        if let Some(c) = char::from_u32(x) {
            chars.insert(c);
            texts.push(c.to_string());
            texts.push(format!("A{}", c));
            texts.push(format!("{}a", c));
        }
    }
    if texts.is_empty() {
        run.bump("sweep:empty-block(surrogates)");
        return;
    }
    // facts only for the swept characters (the table's own characters never reach the per-character path unmatched
    // unless they occur in the block, in which case they are in `chars`)
    let payload = format!("{} uni={} texts={}", setup_payload(cfg, earliest), facts_for(&chars, &cl), texts.iter().map(|t| cps(t)).collect::<Vec<_>>().join(";"));
    let mut outs = vec![];
    let mut any_change = false;
    // every second block runs on ONE recycled tokenizer + result list (each text meets the buffer of the text before last)
    let recycled = (from / n) % 2 == 1;
    run.bump(if recycled { "sweep:blocks-on-a-recycled-tokenizer" } else { "sweep:blocks-on-new-buffers" });
    let mut tok = StatefulTokenizer::new(dic, sudachi::analysis::Mode::C);
    let mut ml = MorphemeList::empty(dic);
    for t in &texts {
        let r: Result<String, String> = if recycled {
            analyse_on_tokenizer(dic, &mut tok, &mut ml, &[], t).and_then(|o| {
                let fin = o.fin.map(|f| f.0).ok_or_else(|| "err InputTooLong".to_string());
                let _ = catch(|| { let _ = ml.collect_results(&mut tok); });
                fin
            })
        } else {
            run_plugins(dic, t, None).and_then(|o| if o.end.is_some() { Err("err InputTooLong".into()) } else { Ok(o.stages[0].0.clone()) })
        };
        match r {
            Ok(o) => {
                if &o != t { any_change = true; }
                outs.push(o);
            }
            Err(e) => {
                outs.push(if e.starts_with("PANIC") { "PANIC".into() } else { "err-rewrite".into() });
                run.fail_with_line(idx, &format!("C07 sweep idx={} text={}", idx, cps(t)), "total:sweep", &format!("rewriting failed on {:?}: {}", t, e));
            }
        }
    }
    let ans = format!("ok {}", outs.iter().map(|o| if o == "PANIC" || o == "err-rewrite" { o.clone() } else { cps(o) }).collect::<Vec<_>>().join(";"));
    run.case(idx, "sweep", &payload, &ans, any_change);
    unihyp(run, idx, &chars);
    run.bump("sweep:blocks");
    run.bump_by("sweep:scalars", (texts.len() / 3) as u64);
    // oracle: specification, and the per-character context relation
    let a_alone = norm_spec(ign, pairs, "A", KeyPick::Longest, false);
    let la_alone = norm_spec(ign, pairs, "a", KeyPick::Longest, false);
    for (k, t) in texts.iter().enumerate() {
        let got = &outs[k];
        if got == "PANIC" || got == "err-rewrite" { continue; }
        check_default(run, idx, ign, pairs, t, got);
        if k % 3 == 0 {
            // context relation, unless a table key spans the junction
            let c = t.chars().next().unwrap();
            let spans = pairs.iter().any(|(key, _)| key.starts_with(&format!("A{}", c)) || key.starts_with(&format!("{}a", c)));
            if !spans {
                let w1 = format!("{}{}", a_alone, got);
                let w2 = format!("{}{}", got, la_alone);
                // when `c` itself starts a longer key that needs the following 'a' the spec comparison above already covers it
                if outs[k + 1] != w1 && !pairs.iter().any(|(key, _)| key.starts_with('A')) {
                    run.fail(idx, &format!("context:{:x}", c as u32), &format!("U+{:04X} alone becomes {:?} but after 'A' the text becomes {:?}", c as u32, got, outs[k + 1]));
                }
                if outs[k + 2] != w2 && !pairs.iter().any(|(key, _)| key.chars().count() > 1 && key.starts_with(c)) {
                    run.fail(idx, &format!("context:{:x}", c as u32), &format!("U+{:04X} alone becomes {:?} but before 'a' the text becomes {:?}", c as u32, got, outs[k + 2]));
                }
            }
        }
    }
}
