//! C20: out-of-range plugin parameters are rejected when the dictionary is loaded.
//!
//! ops:
//!   load  a whole configuration (matrix nl x nr, POS list, inhibit plugins, OOV providers, user
//!         dictionaries) -> outcome class of `JapaneseDictionary::from_cfg_storage` under `catch`;
//!         for an accepted configuration: final POS list, the parameters every provider attaches to
//!         its nodes (through the public `provide_oov`), the connection matrix after the edits.
//!         Then every accepted configuration tokenises texts that make each provider fire
//!         (debug assertions on): the oracle of "no accepted configuration can index outside the matrix".
//!   lat   the real `Lattice` + `ConnectionMatrix` driven with arbitrary candidate nodes -> ok /
//!         err:Disconnect / PANIC (which ids make `ConnectionMatrix::cost` trip).
use crate::common::*;
use crate::dict::*;
use sudachi::analysis::created::CreatedWords;
use sudachi::analysis::lattice::Lattice;
use sudachi::analysis::mlist::MorphemeList;
use sudachi::analysis::node::{LatticeNode, RightId};
use sudachi::analysis::stateful_tokenizer::StatefulTokenizer;
use sudachi::analysis::stateless_tokenizer::DictionaryAccess;
use sudachi::analysis::{Mode, Node};
use sudachi::config::ConfigBuilder;
use sudachi::dic::connect::ConnectionMatrix;
use sudachi::dic::dictionary::JapaneseDictionary;
use sudachi::dic::storage::{Storage, SudachiDicData};
use sudachi::dic::word_id::WordId;
use sudachi::error::SudachiError;
use sudachi::input_text::InputBuffer;

/// character classes and MeCab category definitions used by every C20 configuration:
/// one class per probe character, every class `invoke=1 group=0 length=1` (one node per unk.def line)
const CHAR_DEF: &str = "0x0030..0x0039 NUMERIC\n0x0061..0x007A ALPHA\n0x3041..0x309F HIRAGANA\n0x30A1..0x30FF KATAKANA\n0x4E00..0x9FFF KANJI\n\
DEFAULT 1 0 1\nNUMERIC 1 0 1\nALPHA 1 0 1\nHIRAGANA 1 0 1\nKATAKANA 1 0 1\nKANJI 1 0 1\n";
/// one character per category, in the order DEFAULT NUMERIC ALPHA HIRAGANA KATAKANA KANJI
const PROBE: &str = "!1aえエ漢";
const PROBE_CATS: &[(&str, u32)] = &[("DEFAULT", 1), ("NUMERIC", 16), ("ALPHA", 32), ("HIRAGANA", 64), ("KATAKANA", 128), ("KANJI", 4)];
const TEXTS: &[&str] = &["!1aえエ漢", "東京ア!x7", "いう!漢a"];

const NEW_POS: &[[&str; 6]] = &[
    ["名詞", "普通名詞", "新規", "*", "*", "*"],
    ["感動詞", "一般", "*", "*", "*", "*"],
    ["名詞", "普通名詞", "一般", "*", "*", "x"],
];

#[derive(Clone, Debug, PartialEq)]
enum UMode { Allow, Forbid, Default }

impl UMode {
    fn allow(&self) -> bool { *self == UMode::Allow }
    fn json(&self) -> String {
        match self { UMode::Allow => r#","userPOS":"allow""#.into(), UMode::Forbid => r#","userPOS":"forbid""#.into(), UMode::Default => String::new() }
    }
    fn wire(&self) -> &'static str { if self.allow() { "a" } else { "f" } }
}

#[derive(Clone, Debug)]
struct UnkLine {
    /// the raw line as written to unk.def
    raw: String,
    /// structured reading (None for comments, blanks and lines the reader must reject for their shape)
    parsed: Option<(String, i64, i64, i64, Vec<String>)>,
}

#[derive(Clone, Debug)]
enum Prov {
    Simple { pos: Vec<String>, l: i64, r: i64, c: i64, mode: UMode },
    Regex { pos: Vec<String>, l: i64, r: i64, c: i64, mode: UMode, alias: bool },
    Mecab { lines: Vec<UnkLine>, mode: UMode },
}

#[derive(Clone, Debug)]
struct Spec {
    nl: usize,
    nr: usize,
    matrix: Matrix,
    inh: Vec<Vec<(i64, i64)>>,
    provs: Vec<Prov>,
    user_pos: Vec<Vec<[String; 6]>>,
    tag: String,
}

/// one requirement of the property that the configuration does not meet
#[derive(Clone, Debug)]
struct Violation { src: &'static str, field: &'static str, class: &'static str, what: String }

impl Violation {
    fn key(&self) -> String { format!("{}:{}:{}", self.src, self.field, self.class) }
}

fn boundary_vals(n: usize) -> Vec<i64> {
    let n = n as i64;
    vec![-1, 0, n - 1, n, n + 1, 32767, 32768, 65535, 65536]
}

/// `x` is given as a connection id validated against `vd` and used as an index bounded by `idim`
fn id_violation(src: &'static str, field: &'static str, x: i64, vd: usize, idim: usize, what: &str) -> Option<Violation> {
    if x >= 0 && (x as usize) < idim { return None; }
    let class = if x < 0 { "neg" } else if x as usize == vd { "eq-dim" } else if (x as usize) < vd { "nonsquare" } else { "above" };
    Some(Violation { src, field, class, what: format!("{} {}={} does not index the {} ids of the {} matrix", what, field, x, idim, "connection") })
}

fn pos_key(p: &[String]) -> String { p.join(",") }

/// requirements of the property, evaluated on the configuration itself (independent of the model):
/// ids index the dimension they are used on at analysis, costs fit i16, POS exists or userPOS=allow
fn violations(spec: &Spec, dict_pos: &[[String; 6]]) -> Vec<Violation> {
    let (nl, nr) = (spec.nl, spec.nr);
    let mut v = vec![];
    for (k, pairs) in spec.inh.iter().enumerate() {
        for (a, b) in pairs {
            // set_connect_cost(left, right): left is bounded by num_left, right by num_right
            if let Some(x) = id_violation("inhibit", "pair0", *a, nl, nl, &format!("inhibit plugin {}", k)) { v.push(x); }
            if let Some(x) = id_violation("inhibit", "pair1", *b, nr, nr, &format!("inhibit plugin {}", k)) { v.push(x); }
        }
    }
    // POS known so far: the dictionary's, then whatever earlier providers registered
    let mut known: Vec<String> = dict_pos.iter().map(|p| p.join(",")).collect();
    let mut pos_req = |v: &mut Vec<Violation>, src: &'static str, pos: &[String], mode: &UMode| {
        let k = pos_key(pos);
        if pos.len() == 6 && known.contains(&k) { return; }
        if mode.allow() { if pos.len() == 6 { known.push(k); } return; }
        v.push(Violation { src, field: "pos", class: "forbidden-pos", what: format!("POS {} is not in the dictionary and userPOS is not allow", k) });
    };
    for p in &spec.provs {
        match p {
            Prov::Simple { pos, l, r, c, mode } | Prov::Regex { pos, l, r, c, mode, .. } => {
                let src = if matches!(p, Prov::Simple { .. }) { "simple" } else { "regex" };
                pos_req(&mut v, src, pos, mode);
                // a node's left id is the `right` argument of conn.cost (bounded by num_right), its right
                // id the `left` argument (bounded by num_left); the code validates left against num_left
                if let Some(x) = id_violation(src, "leftId", *l, nl, nr, src) { v.push(x); }
                if let Some(x) = id_violation(src, "rightId", *r, nr, nl, src) { v.push(x); }
                if *c < -32768 || *c > 32767 {
                    v.push(Violation { src, field: "cost", class: "cost-range", what: format!("{} cost {} does not fit i16", src, c) });
                }
            }
            Prov::Mecab { lines, mode } => {
                for ln in lines {
                    if let Some((_, l, r, c, pos)) = &ln.parsed {
                        pos_req(&mut v, "unkdef", pos, mode);
                        if let Some(x) = id_violation("unkdef", "leftId", *l, nl, nr, "unk.def") { v.push(x); }
                        if let Some(x) = id_violation("unkdef", "rightId", *r, nr, nl, "unk.def") { v.push(x); }
                        if *c < -32768 || *c > 32767 {
                            v.push(Violation { src: "unkdef", field: "cost", class: "cost-range", what: format!("unk.def cost {} does not fit i16", c) });
                        }
                    }
                }
            }
        }
    }
    v
}

// ---------------------------------------------------------------------------------------------
// generation

fn pos_vec(p: &[String; 6]) -> Vec<String> { p.to_vec() }
fn new_pos(i: usize) -> Vec<String> { NEW_POS[i % NEW_POS.len()].iter().map(|s| s.to_string()).collect() }

fn valid_line(cat: &str, l: i64, r: i64, c: i64, pos: &[String]) -> UnkLine {
    UnkLine { raw: format!("{},{},{},{},{}", cat, l, r, c, pos.join(",")), parsed: Some((cat.to_string(), l, r, c, pos.to_vec())) }
}

/// lines that make the MeCab provider cover every probe category with valid parameters
fn base_unk(pos: &[String]) -> Vec<UnkLine> {
    PROBE_CATS.iter().map(|(c, _)| valid_line(c, 0, 0, 100, pos)).collect()
}

struct Gen<'a> { rng: &'a mut Rng, nl: usize, nr: usize, chaos: usize, dict_pos: Vec<[String; 6]> }

impl<'a> Gen<'a> {
    fn id(&mut self, n: usize) -> i64 {
        if self.rng.below(100) < self.chaos { *self.rng.pick(&boundary_vals(n)) } else { self.rng.below(n) as i64 }
    }
    fn cost(&mut self) -> i64 {
        if self.rng.below(100) < self.chaos {
            *self.rng.pick(&[-32769i64, -32768, -1, 0, 32767, 32768, 65535, 65536, -65536])
        } else { self.rng.below(3000) as i64 - 500 }
    }
    fn pos(&mut self) -> Vec<String> {
        let k = self.rng.below(100);
        if k < 70 { pos_vec(&self.dict_pos[self.rng.below(self.dict_pos.len())].clone()) }
        else if k < 92 { new_pos(self.rng.below(3)) }
        else if k < 96 { let mut p = pos_vec(&self.dict_pos[0].clone()); p.pop(); p }
        else { let mut p = new_pos(0); p.push("*".into()); p }
    }
    fn mode(&mut self) -> UMode { match self.rng.below(3) { 0 => UMode::Allow, 1 => UMode::Forbid, _ => UMode::Default } }
    fn prov(&mut self) -> Prov {
        match self.rng.below(3) {
            0 => Prov::Simple { pos: self.pos(), l: self.id(self.nl), r: self.id(self.nr), c: self.cost(), mode: self.mode() },
            1 => Prov::Regex { pos: self.pos(), l: self.id(self.nl), r: self.id(self.nr), c: self.cost(), mode: self.mode(), alias: self.rng.chance(1, 2) },
            _ => {
                let n = self.rng.range(1, 6);
                let mut lines = vec![];
                for _ in 0..n {
                    let k = self.rng.below(100);
                    if k < 6 { lines.push(UnkLine { raw: (*self.rng.pick(&["# comment", "", "   ", "#DEFAULT,0,0,0"])).to_string(), parsed: None }); continue; }
                    let cat = if k < 9 { "GREEK" } else if k < 11 { "FOO" } else { self.rng.pick(PROBE_CATS).0 };
                    let (l, r, c, pos) = (self.id(self.nl), self.id(self.nr), self.cost(), self.pos());
                    // cols[4..10] is the POS: a seventh component is ignored, a missing one makes the line too short
                    let mut ln = UnkLine {
                        raw: format!("{},{},{},{},{}", cat, l, r, c, pos.join(",")),
                        parsed: if pos.len() >= 6 { Some((cat.to_string(), l, r, c, pos[..6].to_vec())) } else { None },
                    };
                    if self.rng.chance(1, 40) {
                        // too few columns: the shape is rejected before any value is looked at
                        ln = UnkLine { raw: format!("{},{},{},{},{}", cat, l, r, c, pos[..pos.len().min(4)].join(",")), parsed: None };
                    } else if self.rng.chance(1, 30) && pos.len() == 6 {
                        ln.raw.push_str(",extra");
                    } else if self.rng.chance(1, 30) {
                        ln.raw = format!("  {}  ", ln.raw);
                    }
                    lines.push(ln);
                }
                Prov::Mecab { lines, mode: self.mode() }
            }
        }
    }
}

const MATRICES: &[(usize, usize)] = &[(3, 3), (1, 1), (2, 4), (4, 2)];

/// directed cases: every boundary value for every id/cost/pair member of every source, on square and
/// non-square matrices; POS present/absent x allow/forbid/default x arity for every provider
fn directed(idx: usize, rng: &mut Rng) -> Option<Spec> {
    let dict_pos = default_pos();
    let noun = pos_vec(&dict_pos[0]);
    let nvals = 9;
    let per_matrix = 4 * 3 * nvals;
    let block1 = MATRICES.len() * per_matrix;
    if idx < block1 {
        let (nl, nr) = MATRICES[idx / per_matrix];
        let k = idx % per_matrix;
        let (src, field, vi) = (k / (3 * nvals), (k / nvals) % 3, k % nvals);
        let matrix = Matrix::random(rng, nl, nr, false);
        let dim = match field { 0 => nl, 1 => nr, _ => nl };
        let val = boundary_vals(dim)[vi];
        let cval = [-32769i64, -32768, -1, 0, 32767, 32768, 65535, 65536, 1][vi];
        let (l, r, c) = match field { 0 => (val, 0, 10), 1 => (0, val, 10), _ => (0, 0, cval) };
        let mut spec = Spec { nl, nr, matrix, inh: vec![], provs: vec![], user_pos: vec![], tag: format!("directed:{}:{}:{}", src, field, vi) };
        match src {
            0 => spec.provs.push(Prov::Simple { pos: noun.clone(), l, r, c, mode: UMode::Default }),
            1 => spec.provs.push(Prov::Regex { pos: noun.clone(), l, r, c, mode: UMode::Default, alias: vi % 2 == 0 }),
            2 => {
                let mut lines = base_unk(&noun);
                lines.insert(1 + vi % 3, valid_line(PROBE_CATS[vi % 6].0, l, r, c, &noun));
                spec.provs.push(Prov::Mecab { lines, mode: UMode::Default });
            }
            _ => {
                // inhibit pairs: member 0, member 1, both
                let other0 = rng.below(nl) as i64;
                let other1 = rng.below(nr) as i64;
                let pair = match field { 0 => (boundary_vals(nl)[vi], other1), 1 => (other0, boundary_vals(nr)[vi]), _ => (boundary_vals(nl)[vi], boundary_vals(nr)[vi]) };
                let mut pairs = vec![(rng.below(nl) as i64, rng.below(nr) as i64)];
                pairs.push(pair);
                spec.inh.push(pairs);
                spec.provs.push(Prov::Simple { pos: noun.clone(), l: 0, r: 0, c: 10, mode: UMode::Default });
            }
        }
        return Some(spec);
    }
    let k = idx - block1;
    // POS: kind(3) x which pos(4: existing, new, arity 5, arity 7) x mode(3)
    if k < 36 {
        let (kind, which, m) = (k / 12, (k / 3) % 4, k % 3);
        let pos = match which { 0 => pos_vec(&dict_pos[2]), 1 => new_pos(0), 2 => { let mut p = noun.clone(); p.pop(); p }, _ => { let mut p = new_pos(1); p.push("*".into()); p } };
        let mode = match m { 0 => UMode::Allow, 1 => UMode::Forbid, _ => UMode::Default };
        let (nl, nr) = (3, 3);
        let mut spec = Spec { nl, nr, matrix: Matrix::random(rng, nl, nr, false), inh: vec![], provs: vec![], user_pos: vec![], tag: format!("directed:pos:{}:{}:{}", kind, which, m) };
        match kind {
            0 => spec.provs.push(Prov::Simple { pos, l: 1, r: 2, c: -5, mode }),
            1 => spec.provs.push(Prov::Regex { pos, l: 1, r: 2, c: -5, mode, alias: which % 2 == 0 }),
            _ => {
                let mut lines = base_unk(&noun);
                let raw = format!("KANJI,1,2,-5,{}", pos.join(","));
                lines.push(UnkLine { raw, parsed: if pos.len() >= 6 { Some(("KANJI".into(), 1, 2, -5, pos[..6].to_vec())) } else { None } });
                spec.provs.push(Prov::Mecab { lines, mode });
            }
        }
        return Some(spec);
    }
    let k = k - 36;
    // a few hand-written stacks
    let (nl, nr) = (3, 3);
    let base = |rng: &mut Rng, tag: &str| Spec { nl, nr, matrix: Matrix::random(rng, nl, nr, false), inh: vec![], provs: vec![], user_pos: vec![], tag: tag.to_string() };
    match k {
        0 => { // no OOV provider at all
            Some(base(rng, "directed:no-oov"))
        }
        1 => { // the same new POS registered by two providers: one id
            let mut s = base(rng, "directed:same-new-pos-twice");
            s.provs.push(Prov::Simple { pos: new_pos(0), l: 0, r: 0, c: 0, mode: UMode::Allow });
            s.provs.push(Prov::Regex { pos: new_pos(0), l: 1, r: 1, c: 1, mode: UMode::Forbid, alias: false });
            s.provs.push(Prov::Mecab { lines: vec![valid_line("KANJI", 2, 2, 2, &new_pos(0)), valid_line("KANJI", 1, 2, 3, &new_pos(1))], mode: UMode::Allow });
            Some(s)
        }
        2 => { // inhibit error wins over a later OOV error; pairs of two plugins applied in order
            let mut s = base(rng, "directed:two-inhibit");
            s.inh.push(vec![(0, 1), (2, 2)]);
            s.inh.push(vec![(1, 0)]);
            s.provs.push(Prov::Simple { pos: noun.clone(), l: 2, r: 2, c: 7, mode: UMode::Default });
            Some(s)
        }
        3 => { // pair that does not fit i16 together with an invalid provider: serde error comes first
            let mut s = base(rng, "directed:inhibit-serde-first");
            s.inh.push(vec![(0, 40000)]);
            s.provs.push(Prov::Simple { pos: new_pos(0), l: 2, r: 2, c: 7, mode: UMode::Forbid });
            Some(s)
        }
        4 => { // out-of-range pair is only looked at after the providers were set up
            let mut s = base(rng, "directed:inhibit-oob-after-oov-error");
            s.inh.push(vec![(3, 0)]);
            s.provs.push(Prov::Simple { pos: noun.clone(), l: 7, r: 2, c: 7, mode: UMode::Default });
            Some(s)
        }
        5 => { // DESIGN §2.7 D16 witness on a 10x10 matrix
            let mut s = Spec { nl: 10, nr: 10, matrix: Matrix::random(rng, 10, 10, false), inh: vec![vec![(10, 0)]], provs: vec![], user_pos: vec![], tag: "directed:D16".into() };
            s.provs.push(Prov::Simple { pos: noun.clone(), l: 0, r: 0, c: 0, mode: UMode::Default });
            Some(s)
        }
        6 => { // DESIGN §2.3 example line: simple left=10 on 10x10
            let mut s = Spec { nl: 10, nr: 10, matrix: Matrix::random(rng, 10, 10, false), inh: vec![], provs: vec![], user_pos: vec![], tag: "directed:D15a".into() };
            s.provs.push(Prov::Simple { pos: noun.clone(), l: 10, r: 0, c: 0, mode: UMode::Default });
            Some(s)
        }
        7 => { // user dictionary POS come after the POS registered by plugins
            let mut s = base(rng, "directed:user-pos-order");
            s.provs.push(Prov::Simple { pos: new_pos(1), l: 0, r: 0, c: 0, mode: UMode::Allow });
            s.user_pos.push(vec![NEW_POS[0].map(|x| x.to_string()), NEW_POS[2].map(|x| x.to_string())]);
            Some(s)
        }
        8..=19 => {
            // a dimension at the limit of the header's i16: 32767 x 1 and 1 x 32767 (every other dimension is cut off by
            // the 2 GB a square matrix would need); ids n-1 / n / n+1 = 32766 / 32767 / 32768 meet the i16 / u16 casts
            let j = k - 8;
            let (nl, nr) = if j % 2 == 0 { (32767usize, 1usize) } else { (1, 32767) };
            let big = 32767i64;
            let v = [big - 1, big, big + 1][(j / 2) % 3];
            let mut s = Spec { nl, nr, matrix: Matrix::random(rng, nl, nr, false), inh: vec![], provs: vec![], user_pos: vec![], tag: format!("directed:dim-i16-max:{}", j) };
            let (l, r) = if nl > 1 { (v, 0) } else { (0, v) };
            if j < 6 {
                s.provs.push(Prov::Simple { pos: noun.clone(), l, r, c: 3, mode: UMode::Default });
            } else {
                // unk.def cannot even spell 32768; the inhibit pair is an (i16, i16)
                let mut lines = base_unk(&noun);
                lines.push(valid_line("KANJI", l, r, 5, &noun));
                s.provs.push(Prov::Mecab { lines, mode: UMode::Default });
                s.inh.push(vec![(l.min(32767), r.min(32767))]);
            }
            Some(s)
        }
        20..=22 => {
            // ids around 255 / 256 on a 256 x 256 matrix (nothing in the id path is a u8)
            let v = [254i64, 255, 256][k - 20];
            let mut s = Spec { nl: 256, nr: 256, matrix: Matrix::random(rng, 256, 256, false), inh: vec![vec![(255, 255), (0, 255)]], provs: vec![], user_pos: vec![], tag: format!("directed:dim-256:{}", v) };
            s.provs.push(Prov::Regex { pos: noun.clone(), l: v, r: 255, c: -3, mode: UMode::Default, alias: false });
            Some(s)
        }
        _ => None,
    }
}

pub const N_DIRECTED: usize = 4 * 4 * 3 * 9 + 36 + 8 + 12 + 3;

fn random_spec(rng: &mut Rng) -> Spec {
    let square = rng.chance(7, 10);
    let nl = rng.range(1, 6);
    let nr = if square { nl } else { rng.range(1, 6) };
    let extreme = rng.chance(1, 4);
    let matrix = Matrix::random(rng, nl, nr, extreme);
    let chaos = match rng.below(10) { 0..=2 => 0, 3..=7 => 4, _ => 15 };
    let dict_pos = default_pos();
    let mut inh = vec![];
    let ninh = *rng.pick(&[0usize, 0, 1, 1, 2]);
    for _ in 0..ninh {
        let np = rng.below(4);
        let mut pairs = vec![];
        for _ in 0..np {
            let a = if rng.below(100) < chaos * 2 { *rng.pick(&boundary_vals(nl)) } else { rng.below(nl) as i64 };
            let b = if rng.below(100) < chaos * 2 { *rng.pick(&boundary_vals(nr)) } else { rng.below(nr) as i64 };
            pairs.push((a, b));
        }
        inh.push(pairs);
    }
    let mut g = Gen { rng, nl, nr, chaos, dict_pos };
    let np = if g.rng.chance(1, 40) { 0 } else { g.rng.range(1, 4) };
    let mut provs: Vec<Prov> = (0..np).map(|_| g.prov()).collect();
    // one injected boundary value in an otherwise tame configuration
    if chaos == 4 && !provs.is_empty() && g.rng.chance(1, 2) {
        let i = g.rng.below(provs.len());
        let bl = *g.rng.pick(&boundary_vals(nl));
        let br = *g.rng.pick(&boundary_vals(nr));
        let which = g.rng.below(2);
        match &mut provs[i] {
            Prov::Simple { l, r, .. } | Prov::Regex { l, r, .. } => { if which == 0 { *l = bl } else { *r = br } }
            Prov::Mecab { lines, .. } => {
                let noun = pos_vec(&g.dict_pos[0]);
                let cat = g.rng.pick(PROBE_CATS).0;
                lines.push(if which == 0 { valid_line(cat, bl, 0, 5, &noun) } else { valid_line(cat, 0, br, 5, &noun) });
            }
        }
    }
    let mut user_pos = vec![];
    if g.rng.chance(1, 6) {
        let nu = g.rng.range(1, 2);
        for _ in 0..nu {
            let k = g.rng.range(1, 2);
            user_pos.push((0..k).map(|_| NEW_POS[g.rng.below(3)].map(|x| x.to_string())).collect());
        }
    }
    Spec { nl, nr, matrix, inh, provs, user_pos, tag: format!("random:chaos{}", chaos) }
}

// ---------------------------------------------------------------------------------------------
// running the real code

fn json_str_list(v: &[String]) -> String {
    format!("[{}]", v.iter().map(|s| serde_json::to_string(s).unwrap()).collect::<Vec<_>>().join(","))
}

fn err_kind(e: &SudachiError) -> String {
    match e {
        SudachiError::ErrWithContext { cause, .. } => err_kind(cause),
        other => format!("{:?}", other).chars().take_while(|c| c.is_alphanumeric()).collect(),
    }
}

fn lexicon_rows(rng: &mut Rng, n: usize) -> Vec<Row> {
    let words = ["あ", "い", "う", "ア", "東京", "京"];
    words.iter().enumerate().map(|(p, w)| Row::simple(w, rng.below(n) as i32, rng.below(n) as i32, rng.below(2000) as i32 - 200, p)).collect()
}

fn variant_flags() -> String {
    let dir = crate::c07::repo_sudachi_dir();
    let read = |p: &str| std::fs::read_to_string(format!("{}/src/{}", dir, p)).unwrap_or_default();
    let cp = read("util/check_params.rs");
    let mc = read("plugin/oov/mecab_oov/mod.rs");
    let ic = read("plugin/connect_cost/inhibit_connection.rs");
    let json_ge = cp.contains("ux >= self.conn_matrix().num_left()") && cp.contains("ux >= self.conn_matrix().num_right()");
    let unk_ge = mc.contains("as usize >= grammar.conn_matrix().num_left()") && mc.contains("as usize >= grammar.conn_matrix().num_right()");
    let inh_checked = ic.contains("num_left()") && ic.contains("num_right()");
    let b = |x: bool| if x { '1' } else { '0' };
    format!("{}{}{}{}", b(json_ge), b(unk_ge), b(inh_checked), b(cfg!(debug_assertions)))
}

fn hex_pos<S: AsRef<str>>(p: &[S]) -> String {
    hex(p.iter().map(|s| s.as_ref()).collect::<Vec<_>>().join(",").as_bytes())
}

fn node_tuple(n: &Node) -> String {
    format!("{}:{}:{}:{}", n.left_id(), n.right_id(), n.cost(), n.word_id().word())
}

struct Ctx { wd: Workdir, variant: String, variant2: String, yomi: std::cell::RefCell<std::collections::HashMap<String, usize>> }

/// the band of `maxYomiganaLength` in which the size limit of the regex crate lies: inside it the limit of the
/// case's own pattern is MEASURED (bisection on `regex::Regex::new` with the harness's own transcription of
/// `IgnoreYomiganaPlugin::make_regex`), below it every bound compiles, above it none does
const YOMI_BAND: (usize, usize) = (20_000, 40_000);

/// `make_regex` of IgnoreYomiganaPlugin for CHAR_DEF (KANJI 4E00..9FFF; HIRAGANA 3041..309F, KATAKANA 30A1..30FF, not adjacent)
fn yomi_pattern(lb: &[String], rb: &[String], n: usize) -> String {
    let any = |v: &[String]| -> String {
        let set: std::collections::BTreeSet<char> = v.iter().filter_map(|s| s.chars().next()).collect();
        format!("[{}]", set.iter().map(|c| format!("\\u{{{:X}}}", *c as u32)).collect::<String>())
    };
    format!("[\\u{{4E00}}-\\u{{9FFF}}]({}[\\u{{3041}}-\\u{{309F}}\\u{{30A1}}-\\u{{30FF}}]{{1,{}}}{})", any(lb), n, any(rb))
}

/// largest n for which the regex crate compiles the pattern (cached per bracket sets)
fn yomi_limit(ctx: &Ctx, lb: &[String], rb: &[String]) -> usize {
    let key = format!("{:?}|{:?}", lb, rb);
    if let Some(v) = ctx.yomi.borrow().get(&key) { return *v; }
    let ok = |n: usize| regex::Regex::new(&yomi_pattern(lb, rb, n)).is_ok();
    let (mut lo, mut hi) = YOMI_BAND;
    if !ok(lo) { hi = lo; lo = 1; } else if ok(hi) { lo = hi; hi = 1 << 26; }
    // invariant: ok(lo) (or lo = 1), !ok(hi)
    while hi - lo > 1 { let mid = (lo + hi) / 2; if ok(mid) { lo = mid } else { hi = mid } }
    ctx.yomi.borrow_mut().insert(key, lo);
    lo
}

fn single_chars(v: &Jv) -> Option<Vec<String>> {
    match v { Jv::Strs(x) if !x.is_empty() && x.iter().all(|s| s.chars().count() == 1) => Some(x.clone()), _ => None }
}

/// the `lim` of a yomigana item on the wire: measured when the bound lies in the band (and the bracket sets are usable)
fn yomi_lim(ctx: &Ctx, run: &mut Run, lb: &Jv, rb: &Jv, ml: &Jv) -> usize {
    let n = match ml.int_in(0, U64MAX) { Some(n) => n, None => return YOMI_BAND.0 };
    if n <= YOMI_BAND.0 as i128 { return YOMI_BAND.0; }
    if n > YOMI_BAND.1 as i128 { run.bump("yomigana:bound-above-band"); return YOMI_BAND.1; }
    match (single_chars(lb), single_chars(rb)) {
        (Some(l), Some(r)) => {
            let lim = yomi_limit(ctx, &l, &r);
            run.bump("yomigana:bound-in-band(limit-measured)");
            run.bump(if (n as usize) < lim { "yomigana:band:below-limit" } else if n as usize == lim { "yomigana:band:at-limit" } else if n as usize == lim + 1 { "yomigana:band:limit+1" } else { "yomigana:band:above-limit" });
            let lims = run.extra.entry("yomigana_limits".into()).or_insert_with(|| serde_json::json!({}));
            lims.as_object_mut().unwrap().insert(format!("{}|{}", l.join(""), r.join("")), serde_json::json!(lim));
            lim
        }
        _ => YOMI_BAND.0,
    }
}

/// human-readable form of a configuration (for the evidence file)
fn describe(spec: &Spec) -> String {
    let m = |m: &UMode| match m { UMode::Allow => "allow", UMode::Forbid => "forbid", UMode::Default => "-" };
    let mut parts = vec![format!("{}x{}", spec.nl, spec.nr)];
    for pairs in &spec.inh { parts.push(format!("Inhibit{:?}", pairs)); }
    for p in &spec.provs {
        parts.push(match p {
            Prov::Simple { pos, l, r, c, mode } => format!("Simple(l={},r={},c={},pos={},userPOS={})", l, r, c, pos.join("/"), m(mode)),
            Prov::Regex { pos, l, r, c, mode, .. } => format!("Regex(l={},r={},c={},pos={},userPOS={})", l, r, c, pos.join("/"), m(mode)),
            Prov::Mecab { lines, mode } => format!("MeCab([{}],userPOS={})", lines.iter().map(|l| l.raw.trim().to_string()).collect::<Vec<_>>().join(" | "), m(mode)),
        });
    }
    for u in &spec.user_pos { parts.push(format!("UserDict({} POS)", u.len())); }
    parts.join(" ")
}

fn note_example(run: &mut Run, idx: usize, spec: &Spec, answer: &str) {
    let key = format!("{}|{}", spec.tag.split(':').take(2).collect::<Vec<_>>().join(":"), answer.split(' ').next().unwrap_or(""));
    let seen = run.extra.entry("examples_seen".into()).or_insert_with(|| serde_json::json!([]));
    let arr = seen.as_array_mut().unwrap();
    if arr.len() >= 40 || arr.iter().any(|x| x == &serde_json::json!(key)) { return; }
    arr.push(serde_json::json!(key));
    let mut a = answer.to_string();
    if a.len() > 160 { a.truncate(160); a.push_str("..."); }
    let ex = run.extra.entry("examples".into()).or_insert_with(|| serde_json::json!([]));
    ex.as_array_mut().unwrap().push(serde_json::json!(format!("idx={} [{}] {} => {}", idx, spec.tag, describe(spec), a)));
}

fn run_load(run: &mut Run, ctx: &Ctx, idx: usize, rng: &mut Rng, spec: &Spec) {
    let dict_pos = default_pos();
    let (nl, nr) = (spec.nl, spec.nr);
    // --- the dictionary: fixed small lexicon whose ids index both dimensions
    let rows = lexicon_rows(rng, nl.min(nr));
    let csv = csv_of(&rows, &dict_pos);
    let system = match build_system(csv.as_bytes(), spec.matrix.text().as_bytes()) {
        Ok(b) => b,
        Err(e) => { run.bump(&format!("dict-build-failed:{}", e.chars().take(30).collect::<String>())); return; }
    };
    // --- user dictionaries with their own POS (built against a benign load of the same system dictionary)
    let mut users = vec![];
    if !spec.user_pos.is_empty() {
        ctx.wd.write("char.def", CHAR_DEF);
        let cfg0 = config_json(&ctx.wd, &[], &[simple_oov_json(0, 0, 0)], &[], &[]);
        let sysdic = match load(&cfg0, system.clone(), vec![]) { Ok(d) => d, Err(e) => { run.bump(&format!("benign-load-failed:{}", e.chars().take(30).collect::<String>())); return; } };
        for (u, plist) in spec.user_pos.iter().enumerate() {
            let mut upos = dict_pos.clone();
            let mut urows = vec![];
            for (j, p) in plist.iter().enumerate() {
                upos.push(p.clone());
                urows.push(Row::simple(&format!("ゆ{}{}", u, j), 0, 0, 50, upos.len() - 1));
            }
            match build_user(&sysdic, csv_of(&urows, &upos).as_bytes()) {
                Ok(b) => users.push(b),
                Err(e) => { run.bump(&format!("user-build-failed:{}", e.chars().take(30).collect::<String>())); return; }
            }
        }
    }
    // the POS list a user dictionary stores: its rows' POS that the system does not have, first use first
    let user_pos_wire: Vec<Vec<Vec<String>>> = spec.user_pos.iter().map(|pl| {
        let mut seen: Vec<Vec<String>> = vec![];
        for p in pl { let v = p.to_vec(); if !seen.contains(&v) { seen.push(v); } }
        seen
    }).collect();

    // --- configuration files
    ctx.wd.write("char.def", CHAR_DEF);
    let mut oov_json = vec![];
    let mut oov_wire = vec![];
    for (i, p) in spec.provs.iter().enumerate() {
        match p {
            Prov::Simple { pos, l, r, c, mode } => {
                oov_json.push(format!(r#"{{"class":"com.worksap.nlp.sudachi.SimpleOovPlugin","oovPOS":{},"leftId":{},"rightId":{},"cost":{}{}}}"#, json_str_list(pos), l, r, c, mode.json()));
                oov_wire.push(format!("S:{}:{}:{}:{}:{}", hex_pos(pos), l, r, c, mode.wire()));
            }
            Prov::Regex { pos, l, r, c, mode, alias } => {
                oov_json.push(format!(r#"{{"class":"com.worksap.nlp.sudachi.RegexOovProvider","{}":{},"leftId":{},"rightId":{},"cost":{},"regex":"."{}}}"#,
                    if *alias { "oovPOS" } else { "pos" }, json_str_list(pos), l, r, c, mode.json()));
                oov_wire.push(format!("R:{}:{}:{}:{}:{}", hex_pos(pos), l, r, c, mode.wire()));
            }
            Prov::Mecab { lines, mode } => {
                let name = format!("unk{}.def", i);
                let mut text = String::new();
                for (j, ln) in lines.iter().enumerate() {
                    text.push_str(&ln.raw);
                    text.push_str(if j % 5 == 4 { "\r\n" } else { "\n" });
                }
                ctx.wd.write(&name, &text);
                oov_json.push(format!(r#"{{"class":"com.worksap.nlp.sudachi.MeCabOovPlugin","charDef":"char.def","unkDef":"{}"{}}}"#, name, mode.json()));
                oov_wire.push(format!("M:{}:{}", hex(text.as_bytes()), mode.wire()));
            }
        }
    }
    let inh_json: Vec<String> = spec.inh.iter().map(|pairs| {
        format!(r#"{{"class":"com.worksap.nlp.sudachi.InhibitConnectionPlugin","inhibitPair":[{}]}}"#,
            pairs.iter().map(|(a, b)| format!("[{},{}]", a, b)).collect::<Vec<_>>().join(","))
    }).collect();
    let inh_wire: Vec<String> = spec.inh.iter().map(|pairs| format!("I{}", pairs.iter().map(|(a, b)| format!("{}:{}", a, b)).collect::<Vec<_>>().join(","))).collect();
    let cfg_json = config_json(&ctx.wd, &[], &oov_json, &[], &inh_json);

    let payload = format!("v={} nl={} nr={} conn={} inh={} oov={} upos={} pos={} cdef={}",
        ctx.variant, nl, nr, join(spec.matrix.cells.iter(), ","),
        inh_wire.join(";"), oov_wire.join(";"),
        user_pos_wire.iter().map(|pl| pl.iter().map(|p| hex_pos(p)).collect::<Vec<_>>().join(";")).collect::<Vec<_>>().join("|"),
        dict_pos.iter().map(|p| hex_pos(p)).collect::<Vec<_>>().join(";"),
        hex(CHAR_DEF.as_bytes()));

    let viol = violations(spec, &dict_pos);
    run.bump(&format!("tag:{}", spec.tag.split(':').take(2).collect::<Vec<_>>().join(":")));
    run.bump(if nl == nr { "matrix:square" } else { "matrix:non-square" });
    run.bump(&format!("matrix:max-dim:{}", match nl.max(nr) { 1 => "1", 2..=6 => "2-6", 7..=255 => "7-255", 256..=32766 => "256-32766", _ => "32767" }));
    for p in &spec.provs {
        run.bump(match p { Prov::Simple { .. } => "provider:simple", Prov::Regex { .. } => "provider:regex", Prov::Mecab { .. } => "provider:mecab" });
    }
    if !spec.inh.is_empty() { run.bump("provider:inhibit"); }
    for x in &viol { run.bump(&format!("requirement-violated:{}", x.key())); }

    // --- the real loader
    let res = catch(|| -> Result<JapaneseDictionary, SudachiError> {
        let cfg = ConfigBuilder::from_bytes(cfg_json.as_bytes()).expect("config json").build();
        let mut data = SudachiDicData::new(Storage::Owned(system.clone()));
        for u in &users { data.add_user(Storage::Owned(u.clone())); }
        JapaneseDictionary::from_cfg_storage(&cfg, data)
    });
    let nontrivial = !viol.is_empty() || spec.provs.len() + spec.inh.len() > 1;
    match res {
        Err(p) => {
            run.bump("outcome:PANIC");
            run.case(idx, "load", &payload, "PANIC", nontrivial);
            note_example(run, idx, spec, "PANIC");
            let cause = viol.iter().find(|x| x.src == "inhibit");
            match cause {
                Some(x) => run.fail(idx, &format!("c20:load-panic:{}", x.key()), &format!("from_cfg_storage panicked ({}): {} [{}]", p.chars().take(80).collect::<String>(), x.what, spec.tag)),
                None => run.fail(idx, "c20:load-panic:unexplained", &format!("from_cfg_storage panicked: {} [{}]", p.chars().take(120).collect::<String>(), spec.tag)),
            }
        }
        Ok(Err(e)) => {
            let k = err_kind(&e);
            run.bump(&format!("outcome:err:{}", k));
            run.case(idx, "load", &payload, &format!("err:{}", k), nontrivial);
            note_example(run, idx, spec, &format!("err:{}", k));
            if viol.is_empty() && !spec.provs.is_empty() { run.bump("rejected-without-violated-requirement"); }
        }
        Ok(Ok(dic)) => {
            run.bump("outcome:ok");
            // final POS list
            let pl = &dic.grammar().pos_list;
            let newpos: Vec<String> = pl.iter().map(|p| hex_pos(p)).collect();
            // parameters attached by every provider, through the public trait
            let ib = catch(|| { let mut ib = InputBuffer::from(PROBE); ib.build(dic.grammar()).expect("build"); ib });
            let mut prov_out = vec![];
            let mut pos_checks: Vec<(Option<usize>, Vec<String>)> = vec![];
            if let Ok(ib) = &ib {
                for (i, p) in spec.provs.iter().enumerate() {
                    let plugin = &dic.oov_provider_plugins()[i];
                    let mut ask = |off: usize| -> Vec<String> {
                        let mut nodes: Vec<Node> = vec![];
                        match catch(|| plugin.provide_oov(ib, off, CreatedWords::empty(), &mut nodes)) {
                            Ok(Ok(_)) => nodes.iter().map(node_tuple).collect(),
                            Ok(Err(_)) => vec!["E".to_string()],
                            Err(_) => vec!["P".to_string()],
                        }
                    };
                    let pid_of = |t: &String| -> Option<usize> { t.rsplit(':').next().and_then(|x| x.parse().ok()) };
                    match p {
                        Prov::Simple { pos, .. } | Prov::Regex { pos, .. } => {
                            let ns = ask(0);
                            for t in &ns { pos_checks.push((pid_of(t), pos.clone())); }
                            prov_out.push(format!("{}:{}", if matches!(p, Prov::Simple { .. }) { "S" } else { "R" }, ns.join("+")));
                        }
                        Prov::Mecab { lines, .. } => {
                            let mut parts = vec![];
                            for (off, (cname, bit)) in PROBE_CATS.iter().enumerate() {
                                let ns = ask(off);
                                let want: Vec<&Vec<String>> = lines.iter().filter_map(|l| l.parsed.as_ref()).filter(|x| x.0 == *cname).map(|x| &x.4).collect();
                                if want.len() == ns.len() {
                                    for (t, w) in ns.iter().zip(want) { pos_checks.push((pid_of(t), w.clone())); }
                                } else {
                                    run.fail(idx, "c20:unkdef:node-count", &format!("category {}: {} nodes for {} unk.def lines [{}]", cname, ns.len(), want.len(), spec.tag));
                                }
                                if !ns.is_empty() { parts.push(format!("{}={}", bit, ns.join("+"))); }
                            }
                            prov_out.push(format!("M:{}", parts.join(",")));
                        }
                    }
                }
            } else {
                prov_out.push("input-buffer-panic".into());
            }
            // the matrix after the edits
            let cm = dic.grammar().conn_matrix();
            let mut cells: Vec<i64> = vec![];
            let dump = catch(|| { let mut v = vec![]; for r in 0..nr { for l in 0..nl { v.push(cm.cost(l as u16, r as u16) as i64); } } v });
            let dims_ok = cm.num_left() == nl && cm.num_right() == nr;
            if let Ok(v) = &dump { cells = v.clone(); }
            let ans = format!("ok npos={} all={} prov={} conn={}", pl.len(), newpos.join(";"), prov_out.join(";"), join(cells.iter(), ","));
            run.case(idx, "load", &payload, &ans, nontrivial);
            note_example(run, idx, spec, &ans);

            // ---- oracle 1: accepted although a requirement of the property is violated
            for x in &viol {
                run.fail(idx, &format!("c20:accepted:{}", x.key()), &format!("configuration accepted although {} [{}]", x.what, spec.tag));
            }
            // ---- oracle 2: inhibited pairs change exactly their own cells
            if dump.is_err() || !dims_ok {
                run.fail(idx, "c20:matrix:dump", "matrix of the loaded dictionary cannot be read back in its own range");
            } else {
                let mut want: Vec<i64> = spec.matrix.cells.iter().map(|&c| c as i64).collect();
                for pairs in &spec.inh { for (a, b) in pairs {
                    if *a >= 0 && (*a as usize) < nl && *b >= 0 && (*b as usize) < nr { want[*b as usize * nl + *a as usize] = 32767; }
                } }
                if want != cells {
                    let diff: Vec<String> = (0..want.len()).filter(|&i| want[i] != cells[i]).map(|i| format!("({},{}): {} want {}", i % nl, i / nl, cells[i], want[i])).collect();
                    let k = if viol.iter().any(|x| x.src == "inhibit") { "c20:wrong-cell:inhibit:out-of-range-pair" } else { "c20:wrong-cell:in-range-pairs" };
                    run.fail(idx, k, &format!("matrix after load differs from 'exactly the inhibited cells are 32767': {} [{}]", diff.join("; "), spec.tag));
                }
            }
            // ---- oracle 3: every POS a provider was given resolves to an entry of the final POS list that
            // equals it (existing -> its id, absent + allow -> the appended id); nothing already present
            // is registered a second time (the violations above cover 'forbid')
            let plugin_part = pl.len() - user_pos_wire.iter().map(|x| x.len()).sum::<usize>();
            for (pid, want) in &pos_checks {
                let ok = match pid { Some(i) if *i < pl.len() => pl[*i] == *want, _ => false };
                if !ok {
                    run.fail(idx, "c20:pos:wrong-id", &format!("POS {} of a provider resolves to id {:?} = {:?} [{}]", want.join(","), pid, pid.and_then(|i| pl.get(i)), spec.tag));
                    break;
                }
            }
            for i in dict_pos.len()..plugin_part.min(pl.len()) {
                if pl[..i].contains(&pl[i]) {
                    run.fail(idx, "c20:pos:duplicate-registered", &format!("POS {} registered although already present [{}]", pl[i].join(","), spec.tag));
                    break;
                }
            }
            let upw: Vec<Vec<[String; 6]>> = user_pos_wire.iter().map(|u| u.iter().map(|p| { let mut a: [String; 6] = Default::default(); for (k, x) in p.iter().take(6).enumerate() { a[k] = x.clone(); } a }).collect()).collect();
            pos_list_oracle(run, idx, pl, &dict_pos, &upw, &spec.tag);
            let mut words: Vec<(u8, String, Vec<String>)> = rows.iter().map(|r| (0u8, r.surface.clone(), dict_pos[r.pos].to_vec())).collect();
            for (u, plist) in spec.user_pos.iter().enumerate() { for (j, p) in plist.iter().enumerate() { words.push((u as u8 + 1, format!("ゆ{}{}", u, j), p.to_vec())); } }
            word_pos_oracle(run, idx, &dic, &words, &spec.tag);
            // ---- oracle 4: analysis never indexes outside the matrix
            analysis_oracle(run, idx, rng, &dic, nl, nr, &viol, &spec.tag, &[]);
        }
    }
}


/// Oracle of "the dictionary's own POS ids never shift" (independent of the model): the loaded POS list starts with the
/// dictionary's list, entry for entry; it ends with the POS lists of the user dictionaries in load order; what lies
/// between (registered by plugins) has six components and repeats nothing that was already there
fn pos_list_oracle(run: &mut Run, idx: usize, pl: &[Vec<String>], dict_pos: &[[String; 6]], user_pos: &[Vec<[String; 6]>], tag: &str) {
    let head_ok = pl.len() >= dict_pos.len() && dict_pos.iter().enumerate().all(|(i, p)| pl[i] == p.to_vec());
    if !head_ok {
        let first_bad = (0..dict_pos.len()).find(|&i| pl.get(i).map(|x| x != &dict_pos[i].to_vec()).unwrap_or(true));
        run.fail(idx, "c20:pos:dict-shifted", &format!("POS id {:?} of the dictionary denotes {:?} after the load, {:?} before [{}]", first_bad, first_bad.and_then(|i| pl.get(i)), first_bad.map(|i| dict_pos[i].to_vec()), tag));
        return;
    }
    run.bump("pos-list:dictionary-part-unchanged");
    let tail: Vec<Vec<String>> = user_pos.iter().flat_map(|u| u.iter().map(|p| p.to_vec())).collect();
    if pl.len() < dict_pos.len() + tail.len() || pl[pl.len() - tail.len()..] != tail[..] {
        run.fail(idx, "c20:pos:user-order", &format!("the POS list does not end with the POS of the user dictionaries in load order: {:?} [{}]", &pl[dict_pos.len()..], tag));
        return;
    }
    let reg = &pl[dict_pos.len()..pl.len() - tail.len()];
    if !reg.is_empty() { run.bump("pos-list:plugin-registered"); }
    if !tail.is_empty() { run.bump("pos-list:user-dictionary-part"); }
    for (i, p) in reg.iter().enumerate() {
        if p.len() != 6 { run.fail(idx, "c20:pos:arity", &format!("registered POS {:?} has {} components [{}]", p, p.len(), tag)); return; }
        if pl[..dict_pos.len() + i].contains(p) { run.fail(idx, "c20:pos:duplicate-registered", &format!("POS {} registered although already present [{}]", p.join(","), tag)); return; }
    }
}

/// The same at the API: every word still reports the part of speech its row declared. `words` = (dictionary number,
/// surface, declared POS); the id stored in the lexicon is resolved through the POS list AFTER the load
fn word_pos_oracle(run: &mut Run, idx: usize, dic: &JapaneseDictionary, words: &[(u8, String, Vec<String>)], tag: &str) {
    let pl = &dic.grammar().pos_list;
    for (d, surf, want) in words {
        let found = catch(|| {
            dic.lexicon().lookup(surf.as_bytes(), 0).filter(|e| e.end == surf.len() && e.word_id.dic() == *d)
                .map(|e| dic.lexicon().get_word_info(e.word_id).map(|wi| wi.pos_id() as usize).unwrap_or(usize::MAX)).collect::<Vec<_>>()
        });
        match found {
            Ok(ids) if !ids.is_empty() => {
                run.bump(if *d == 0 { "word-pos:system-word-checked" } else { "word-pos:user-word-checked" });
                for id in ids {
                    if pl.get(id) != Some(want) {
                        run.fail(idx, "c20:pos:word-pos-shifted", &format!("word {:?} of dictionary {} declared {:?}, reports POS id {} = {:?} after the load [{}]", surf, d, want.join(","), id, pl.get(id), tag));
                        return;
                    }
                }
            }
            Ok(_) => run.bump("word-pos:word-not-found"),
            Err(p) => { run.fail(idx, "c20:pos:word-lookup-panics", &format!("lookup of {:?} panicked: {} [{}]", surf, p.chars().take(80).collect::<String>(), tag)); return; }
        }
    }
}

/// texts a long-lived analyser has seen before: longer and shorter than TEXTS, empty, rejected (too long)
fn warm_texts(rng: &mut Rng) -> Vec<String> {
    let n = rng.range(1, 4);
    let mut v = vec![];
    for _ in 0..n {
        v.push(match rng.below(8) {
            0 => String::new(),
            1 => "!".to_string(),
            2 => "東京ア!x7いう!漢aえエ漢東京あいう".repeat(rng.range(1, 3)),
            3 => "a".repeat(49_200),                       // rejected: longer than the input limit
            4 => "漢".repeat(16_400),                      // rejected as well (49 200 bytes)
            5 => "ゆよ".to_string(),
            6 => "アイウ123えお".to_string(),
            _ => "う京".to_string(),
        });
    }
    v
}

type Rows = Vec<Vec<(usize, usize, u16, u16, i16, u32, i32, u16, u32)>>;

fn strip_rows(mut rows: Rows) -> Rows {
    while rows.last().map(|r| r.is_empty()).unwrap_or(false) { rows.pop(); }
    rows
}

/// Oracle of "no accepted configuration can make analysis index outside the connection matrix": the texts
/// make every provider fire; every second case runs them on ONE StatefulTokenizer + ONE MorphemeList that
/// analysed 1-4 other texts before (and keep being reused from text to text), the way long-lived analysers are
/// used; the verdict must not depend on that history, and the recycled analysis must equal the fresh one.
fn analysis_oracle(run: &mut Run, idx: usize, rng: &mut Rng, dic: &JapaneseDictionary, nl: usize, nr: usize, viol: &[Violation], tag: &str, extra: &[String]) {
    // the id that explains a panic: a connection id first (D15a / D17 are listed findings), then a maxLength that cannot be added to an offset
    let idv = viol.iter().find(|x| x.field == "leftId" || x.field == "rightId").or_else(|| viol.iter().find(|x| x.field == "maxLength"));
    let bad_ids = idv.is_some();
    if !cfg!(debug_assertions) && bad_ids {
        // release build: the read outside the matrix is undefined behaviour, it cannot be observed safely
        run.bump("analysis:skipped-in-release(accepted-bad-id)");
        return;
    }
    let recycled = idx % 2 == 1;
    run.bump(if recycled { "analysis:recycled-analyser" } else { "analysis:new-analyser" });
    let mut texts: Vec<String> = TEXTS.iter().map(|s| s.to_string()).collect();
    texts.extend(extra.iter().cloned());
    let mut fired = false;
    let mut long_lived: Option<(StatefulTokenizer<&JapaneseDictionary>, MorphemeList<&JapaneseDictionary>)> = None;
    if recycled {
        let warm = warm_texts(rng);
        let r = catch(|| {
            let mut tok = StatefulTokenizer::new(dic, Mode::C);
            let mut ml = MorphemeList::empty(dic);
            for wt in &warm {
                tok.reset().push_str(wt);
                if tok.do_tokenize().is_ok() { let _ = ml.collect_results(&mut tok); }
            }
            (tok, ml)
        });
        match r {
            Ok(x) => long_lived = Some(x),
            Err(p) => {
                run.bump("analysis:PANIC");
                match idv {
                    Some(x) => run.fail(idx, &format!("c20:analysis:{}", x.key()), &format!("warm-up analyses {:?} with the accepted configuration panicked ({}); {} [{}]", warm.iter().map(|w| w.chars().take(12).collect::<String>()).collect::<Vec<_>>(), p.chars().take(80).collect::<String>(), x.what, tag)),
                    None => run.fail(idx, "c20:analysis:unexplained", &format!("warm-up analyses with the accepted configuration panicked: {} [{}]", p.chars().take(120).collect::<String>(), tag)),
                }
                return;
            }
        }
    }
    for text in &texts {
        // the reference: a new tokenizer and a new list
        let fresh = catch(|| {
            let mut tok = StatefulTokenizer::new(dic, Mode::C);
            tok.reset().push_str(text);
            let r = tok.do_tokenize();
            let rows = strip_rows(tok.verif_lattice().verif_rows());
            let mut ml = MorphemeList::empty(dic);
            let bounds: Vec<(usize, usize)> = if r.is_ok() && ml.collect_results(&mut tok).is_ok() { ml.iter().map(|m| (m.begin(), m.end())).collect() } else { vec![] };
            (r.is_ok(), rows, bounds)
        });
        let observed = match long_lived.take() {
            None => fresh.clone(),
            Some((mut tok, mut ml)) => {
                let r = catch(move || {
                    tok.reset().push_str(text);
                    let r = tok.do_tokenize();
                    let rows = strip_rows(tok.verif_lattice().verif_rows());
                    let bounds: Vec<(usize, usize)> = if r.is_ok() && ml.collect_results(&mut tok).is_ok() { ml.iter().map(|m| (m.begin(), m.end())).collect() } else { vec![] };
                    ((r.is_ok(), rows, bounds), (tok, ml))
                });
                match r {
                    Ok((obs, ll)) => { long_lived = Some(ll); Ok(obs) }
                    Err(p) => Err(p),
                }
            }
        };
        if recycled {
            match (&fresh, &observed) {
                (Ok(a), Ok(b)) if a != b => {
                    run.fail(idx, "c20:history:recycled-differs", &format!("analysis of {:?} on a recycled tokenizer/list differs from a new one: ok {} vs {}, {} vs {} lattice rows, morphemes {:?} vs {:?} [{}]", text, b.0, a.0, b.1.len(), a.1.len(), b.2, a.2, tag));
                    fired = true;
                }
                (Ok(_), Err(p)) => {
                    if idv.is_none() {
                        run.fail(idx, "c20:history:recycled-panics", &format!("analysis of {:?} panics only on a recycled tokenizer/list: {} [{}]", text, p.chars().take(100).collect::<String>(), tag));
                        fired = true;
                    }
                }
                _ => {}
            }
        }
        match observed {
            Err(p) => {
                run.bump("analysis:PANIC");
                match idv {
                    Some(x) => run.fail(idx, &format!("c20:analysis:{}", x.key()), &format!("tokenising {:?} with the accepted configuration panicked ({}); {} [{}]", text, p.chars().take(80).collect::<String>(), x.what, tag)),
                    None => run.fail(idx, "c20:analysis:unexplained", &format!("tokenising {:?} with the accepted configuration panicked: {} [{}]", text, p.chars().take(120).collect::<String>(), tag)),
                }
                fired = true;
                break;
            }
            Ok((ok, rows, _)) => {
                run.bump(if ok { "analysis:ok" } else { "analysis:err" });
                // every node of the lattice carries ids inside the matrix (what a release build would read)
                for row in &rows { for &(_, _, l, r_, _, raw, _, _, _) in row {
                    if (l as usize) >= nr || (r_ as usize) >= nl {
                        let k = idv.map(|x| x.key()).unwrap_or_else(|| "unexplained".into());
                        run.fail(idx, &format!("c20:analysis:{}", k), &format!("lattice of {:?} holds a node (word id {:#x}) with left {} right {} outside the {}x{} matrix [{}]", text, raw, l, r_, nl, nr, tag));
                        fired = true;
                    }
                } }
            }
        }
    }
    if bad_ids && !fired { run.bump("bad-id-accepted-but-not-exercised-by-texts"); }
}

fn run_lat(run: &mut Run, idx: usize, rng: &mut Rng) {
    let nl = rng.range(1, 5);
    let nr = if rng.chance(2, 3) { nl } else { rng.range(1, 5) };
    let len = rng.range(1, 5);
    let wild = rng.chance(1, 3);
    let n = rng.range(0, 8);
    let mut nodes: Vec<(usize, usize, usize, usize)> = vec![];
    for _ in 0..n {
        let b = rng.below(len);
        let e = if wild && rng.chance(1, 12) { len + 1 } else { rng.range(b + 1, len) };
        let left = if wild && rng.chance(1, 6) { *rng.pick(&[nr, nr + 1, nl, 65535]) } else { rng.below(nr) };
        let right = if wild && rng.chance(1, 6) { *rng.pick(&[nl, nl + 1, nr, 65535]) } else { rng.below(nl) };
        nodes.push((b, e, left, right));
    }
    nodes.sort_by_key(|x| x.0);
    let payload = format!("dbg={} nl={} nr={} ncell={} len={} nodes={}", if cfg!(debug_assertions) { 1 } else { 0 }, nl, nr, nl * nr, len,
        nodes.iter().map(|x| format!("{}:{}:{}:{}", x.0, x.1, x.2, x.3)).collect::<Vec<_>>().join(","));
    if !cfg!(debug_assertions) && !nodes.iter().all(|x| x.2 < nr && x.3 < nl) {
        // release build: ConnectionMatrix::cost would read out of bounds (undefined behaviour); not executed
        run.bump("lat:skipped-in-release");
        return;
    }
    let data = vec![0u8; nl * nr * 2];
    let res = catch(|| {
        let conn = ConnectionMatrix::from_offset_size(&data, 0, nl, nr).expect("matrix");
        let mut lat = Lattice::default();
        lat.reset(len);
        for &(b, e, l, r) in &nodes {
            lat.insert(Node::new(b as u16, e as u16, l as u16, r as u16, 0, WordId::new(0, 1)), &conn);
        }
        lat.connect_eos(&conn).is_ok()
    });
    let in_range = nodes.iter().all(|x| x.1 <= len && x.2 < nr && x.3 < nl);
    run.bump(if in_range { "lat:in-range" } else { "lat:out-of-range" });
    match res {
        Err(p) => {
            run.bump("lat:PANIC");
            run.case(idx, "lat", &payload, "PANIC", true);
            if in_range {
                run.fail(idx, "c20:lat:in-range-panic", &format!("lattice over nodes whose ids all index the matrix panicked: {}", p.chars().take(100).collect::<String>()));
            }
        }
        Ok(true) => { run.bump("lat:ok"); run.case(idx, "lat", &payload, "ok", n > 1); }
        Ok(false) => { run.bump("lat:disconnect"); run.case(idx, "lat", &payload, "err:Disconnect", n > 1); }
    }
}


// ---------------------------------------------------------------------------------------------
// rload: the settings as serde_json hands them over (every parameter of every bundled plugin, well
// typed / ill typed / out of range), user dictionaries compiled against ANOTHER system dictionary

/// one JSON value of a plugin's settings
#[derive(Clone, Debug, PartialEq)]
enum Jv { Absent, Null, Int(i128), Float(&'static str), Bool(bool), Str(String), Strs(Vec<String>), Other(&'static str) }

impl Jv {
    fn json(&self, key: &str) -> String {
        let v = match self {
            Jv::Absent => return String::new(),
            Jv::Null => "null".to_string(),
            Jv::Int(x) => x.to_string(),
            Jv::Float(t) => t.to_string(),
            Jv::Bool(b) => b.to_string(),
            Jv::Str(t) => serde_json::to_string(t).unwrap(),
            Jv::Strs(v) => json_str_list(v),
            Jv::Other(t) => t.to_string(),
        };
        format!(r#","{}":{}"#, key, v)
    }
    /// the JSON text of the value (None = the key is absent)
    fn val(&self) -> Option<String> {
        Some(match self {
            Jv::Absent => return None, Jv::Null => "null".to_string(), Jv::Int(x) => x.to_string(), Jv::Float(t) => t.to_string(), Jv::Bool(b) => b.to_string(),
            Jv::Str(t) => serde_json::to_string(t).unwrap(), Jv::Strs(v) => json_str_list(v), Jv::Other(t) => t.to_string(),
        })
    }
    fn wire(&self) -> String {
        match self {
            Jv::Absent => "-".into(), Jv::Null => "N".into(), Jv::Int(x) => format!("I{}", x), Jv::Float(_) => "F".into(), Jv::Bool(_) => "B".into(),
            Jv::Str(t) => format!("S{}", hex(t.as_bytes())),
            Jv::Strs(v) => format!("L{}", v.iter().map(|x| format!("x{}", hex(x.as_bytes()))).collect::<Vec<_>>().join("/")),
            Jv::Other(_) => "O".into(),
        }
    }
    /// the value as an integer that fits [lo, hi], if it is one
    fn int_in(&self, lo: i128, hi: i128) -> Option<i128> { match self { Jv::Int(x) if *x >= lo && *x <= hi => Some(*x), _ => None } }
    fn strs(&self) -> Option<&Vec<String>> { match self { Jv::Strs(v) => Some(v), _ => None } }
}

const U64MAX: i128 = u64::MAX as i128;

#[derive(Clone, Debug)]
enum ROov {
    Simple { pos: Jv, l: Jv, r: Jv, c: Jv, mode: Jv },
    /// `rx` = the `regex` setting, `dbgf` = `debug`
    Regex { pos: Jv, l: Jv, r: Jv, c: Jv, mode: Jv, maxlen: Jv, bnd: Jv, alias: bool, rx: Jv, dbgf: Jv },
    Mecab { lines: Vec<UnkLine>, mode: Jv },
}
#[derive(Clone, Debug)]
enum RIn { Yomi { lb: Jv, rb: Jv, ml: Jv }, Prolonged { marks: Jv, repl: Jv } }
#[derive(Clone, Debug)]
enum RPath { Katakana { pos: Jv, minlen: Jv }, Numeric { en: Jv } }
/// a user dictionary compiled against a system dictionary with a `big` x `big` matrix
#[derive(Clone, Debug)]
struct UDicSpec { big: usize, own_pos: Vec<[String; 6]>, words: Vec<(i64, i64)> }

/// a member of `inhibitPair` / the whole value, in any JSON shape
#[derive(Clone, Debug)]
enum RMem { Arr(Vec<Jv>), NotArr(&'static str) }
#[derive(Clone, Debug)]
enum RInhJ { Absent, Other(&'static str), Members(Vec<RMem>) }

impl RInhJ {
    fn typed(pairs: &[(i64, i64)]) -> RInhJ { RInhJ::Members(pairs.iter().map(|(a, b)| RMem::Arr(vec![Jv::Int(*a as i128), Jv::Int(*b as i128)])).collect()) }
    fn json(&self) -> String {
        let v = match self {
            RInhJ::Absent => String::new(),
            RInhJ::Other(t) => format!(r#","inhibitPair":{}"#, t),
            RInhJ::Members(ms) => format!(r#","inhibitPair":[{}]"#, ms.iter().map(|m| match m {
                RMem::Arr(xs) => format!("[{}]", xs.iter().filter_map(|x| x.val()).collect::<Vec<_>>().join(",")),
                RMem::NotArr(t) => t.to_string() }).collect::<Vec<_>>().join(",")),
        };
        format!(r#"{{"class":"com.worksap.nlp.sudachi.InhibitConnectionPlugin"{}}}"#, v)
    }
    fn wire(&self) -> String {
        match self {
            RInhJ::Absent => "J-".into(), RInhJ::Other(_) => "JO".into(),
            RInhJ::Members(ms) => format!("J{}", ms.iter().map(|m| match m {
                RMem::Arr(xs) if xs.is_empty() => "E".to_string(),
                RMem::Arr(xs) => xs.iter().map(|x| match x { Jv::Strs(_) => "O".to_string(), o => o.wire() }).collect::<Vec<_>>().join("+"),
                RMem::NotArr(_) => "O".into() }).collect::<Vec<_>>().join(",")),
        }
    }
    /// the pairs, if the value is an array of two-element arrays of integers (of any size)
    fn pairs(&self) -> Option<Vec<(i128, i128)>> {
        match self {
            RInhJ::Members(ms) => ms.iter().map(|m| match m { RMem::Arr(xs) if xs.len() == 2 => match (&xs[0], &xs[1]) { (Jv::Int(a), Jv::Int(b)) => Some((*a, *b)), _ => None }, _ => None }).collect(),
            _ => None,
        }
    }
}

#[derive(Clone, Debug)]
struct RSpec { nl: usize, nr: usize, matrix: Matrix, inh: Vec<Vec<(i64, i64)>>, inh_raw: Vec<RInhJ>, raw_first: bool, input: Vec<RIn>, oov: Vec<ROov>, path: Vec<RPath>, users: Vec<UDicSpec>, tag: String }

impl RSpec {
    /// every connection-cost plugin in configuration order
    fn inh_all(&self) -> Vec<RInhJ> {
        let t: Vec<RInhJ> = self.inh.iter().map(|p| RInhJ::typed(p)).collect();
        if self.raw_first { self.inh_raw.iter().cloned().chain(t).collect() } else { t.into_iter().chain(self.inh_raw.iter().cloned()).collect() }
    }
}

fn mode_ok(m: &Jv) -> Option<bool> { match m { Jv::Absent => Some(false), Jv::Str(s) if s == "allow" => Some(true), Jv::Str(s) if s == "forbid" => Some(false), _ => None } }

fn ill(src: &'static str, field: &'static str, v: &Jv, want: &str) -> Violation {
    Violation { src, field, class: "ill-typed", what: format!("{} {} = {:?} is not {}", src, field, v, want) }
}

/// requirements of the property for a raw configuration, computed from the configuration alone
fn rviolations(spec: &RSpec, dict_pos: &[[String; 6]]) -> Vec<Violation> {
    let (nl, nr) = (spec.nl, spec.nr);
    let mut v = vec![];
    let clamp = |x: i128| -> i64 { x.max(i64::MIN as i128).min(i64::MAX as i128) as i64 };
    for (k, j) in spec.inh_all().iter().enumerate() {
        match j.pairs() {
            None => v.push(Violation { src: "inhibit", field: "inhibitPair", class: "ill-typed", what: format!("inhibit plugin {}: inhibitPair {:?} is not an array of pairs of integers", k, j) }),
            Some(pairs) => for (a, b) in pairs {
                if let Some(x) = id_violation("inhibit", "pair0", clamp(a), nl, nl, &format!("inhibit plugin {}", k)) { v.push(x); }
                if let Some(x) = id_violation("inhibit", "pair1", clamp(b), nr, nr, &format!("inhibit plugin {}", k)) { v.push(x); }
            }
        }
    }
    for p in &spec.input {
        match p {
            RIn::Yomi { lb, rb, ml } => {
                for (f, b) in [("leftBrackets", lb), ("rightBrackets", rb)] {
                    if !b.strs().map(|v| v.iter().all(|s| s.chars().count() == 1)).unwrap_or(false) { v.push(ill("yomigana", f, b, "a list of single characters")); }
                }
                if ml.int_in(0, U64MAX).is_none() { v.push(ill("yomigana", "maxYomiganaLength", ml, "an unsigned integer")); }
            }
            RIn::Prolonged { marks, repl } => {
                if !marks.strs().map(|v| v.iter().all(|s| s.chars().count() == 1)).unwrap_or(false) { v.push(ill("prolonged", "prolongedSoundMarks", marks, "a list of single characters")); }
                if !matches!(repl, Jv::Absent | Jv::Null | Jv::Str(_)) { v.push(ill("prolonged", "replacementSymbol", repl, "a string")); }
            }
        }
    }
    let mut known: Vec<String> = dict_pos.iter().map(|p| p.join(",")).collect();
    let typed = |known: &mut Vec<String>, v: &mut Vec<Violation>, src: &'static str, pos: &Jv, l: &Jv, r: &Jv, c: &Jv, mode: &Jv| {
        let m = mode_ok(mode);
        if m.is_none() { v.push(ill(src, "userPOS", mode, "allow or forbid")); }
        match pos.strs() {
            None => v.push(ill(src, "pos", pos, "a list of strings")),
            Some(p) => {
                let k = pos_key(p);
                if !(p.len() == 6 && known.contains(&k)) {
                    if m == Some(true) && p.len() == 6 { known.push(k); }
                    else { v.push(Violation { src, field: "pos", class: "forbidden-pos", what: format!("POS {} is not in the dictionary and userPOS is not allow (or it has not six components)", k) }); }
                }
            }
        }
        for (f, x, vd, idim) in [("leftId", l, nl, nr), ("rightId", r, nr, nl)] {
            match x.int_in(i64::MIN as i128, i64::MAX as i128) {
                None => v.push(ill(src, f, x, "a 64-bit integer")),
                Some(i) => if let Some(y) = id_violation(src, f, i as i64, vd, idim, src) { v.push(y); }
            }
        }
        match c.int_in(i64::MIN as i128, i64::MAX as i128) {
            None => v.push(ill(src, "cost", c, "a 64-bit integer")),
            Some(i) => if i < -32768 || i > 32767 { v.push(Violation { src, field: "cost", class: "cost-range", what: format!("{} cost {} does not fit i16", src, i) }); }
        }
    };
    for p in &spec.oov {
        match p {
            ROov::Simple { pos, l, r, c, mode } => typed(&mut known, &mut v, "simple", pos, l, r, c, mode),
            ROov::Regex { pos, l, r, c, mode, maxlen, bnd, rx, dbgf, .. } => {
                typed(&mut known, &mut v, "regex", pos, l, r, c, mode);
                if !matches!(rx, Jv::Str(_)) { v.push(ill("regex", "regex", rx, "a string")); }
                else if !regex_ok(rx) { v.push(Violation { src: "regex", field: "regex", class: "invalid-pattern", what: format!("regex {:?} does not compile", rx) }); }
                if !matches!(dbgf, Jv::Absent | Jv::Bool(_)) { v.push(ill("regex", "debug", dbgf, "a boolean")); }
                if !matches!(maxlen, Jv::Absent) && maxlen.int_in(0, U64MAX).is_none() { v.push(ill("regex", "maxLength", maxlen, "an unsigned integer")); }
                if !matches!(bnd, Jv::Absent) && !matches!(bnd, Jv::Str(s) if s == "strict" || s == "relaxed") { v.push(ill("regex", "boundaries", bnd, "strict or relaxed")); }
                // a length that cannot be added to a character offset (texts have at most 49 149 bytes): the later use `offset + max_length` overflows
                if let Some(m) = maxlen.int_in(0, U64MAX) { if m + 65_536 > U64MAX { v.push(Violation { src: "regex", field: "maxLength", class: "overflow", what: format!("regex maxLength {} cannot be added to a character offset (usize overflow)", m) }); } }
            }
            ROov::Mecab { lines, mode } => {
                let m = mode_ok(mode);
                if m.is_none() { v.push(ill("unkdef", "userPOS", mode, "allow or forbid")); }
                let um = if m == Some(true) { UMode::Allow } else { UMode::Forbid };
                for ln in lines {
                    if let Some((_, l, r, c, pos)) = &ln.parsed {
                        let k = pos_key(pos);
                        if !(pos.len() == 6 && known.contains(&k)) {
                            if um.allow() && pos.len() == 6 { known.push(k); }
                            else { v.push(Violation { src: "unkdef", field: "pos", class: "forbidden-pos", what: format!("POS {} is not in the dictionary and userPOS is not allow", k) }); }
                        }
                        if let Some(x) = id_violation("unkdef", "leftId", *l, nl, nr, "unk.def") { v.push(x); }
                        if let Some(x) = id_violation("unkdef", "rightId", *r, nr, nl, "unk.def") { v.push(x); }
                        if *c < -32768 || *c > 32767 { v.push(Violation { src: "unkdef", field: "cost", class: "cost-range", what: format!("unk.def cost {} does not fit i16", c) }); }
                    }
                }
            }
        }
    }
    for p in &spec.path {
        match p {
            RPath::Katakana { pos, minlen } => {
                match pos.strs() {
                    None => v.push(ill("katakana", "oovPOS", pos, "a list of strings")),
                    Some(p) => if !(p.len() == 6 && known.contains(&pos_key(p))) {
                        v.push(Violation { src: "katakana", field: "pos", class: "forbidden-pos", what: format!("POS {} of JoinKatakanaOov is not in the dictionary", pos_key(p)) });
                    }
                }
                if minlen.int_in(0, U64MAX).is_none() { v.push(ill("katakana", "minLength", minlen, "an unsigned integer")); }
            }
            RPath::Numeric { en } => if !matches!(en, Jv::Absent | Jv::Null | Jv::Bool(_)) { v.push(ill("numeric", "enableNormalize", en, "a boolean")); }
        }
    }
    for u in &spec.users {
        for (l, r) in &u.words {
            if let Some(x) = id_violation("userdict", "leftId", *l, nl, nr, "user dictionary word") { v.push(x); }
            if let Some(x) = id_violation("userdict", "rightId", *r, nr, nl, "user dictionary word") { v.push(x); }
        }
    }
    v
}

fn dot() -> Jv { Jv::Str(".".into()) }
/// the verdict of the regex crate on the pattern RegexOovProvider compiles ("^" is prepended unless it is there)
fn regex_ok(rx: &Jv) -> bool {
    match rx { Jv::Str(t) => { let p = if t.starts_with('^') { t.clone() } else { format!("^{}", t) }; regex::RegexBuilder::new(&p).build().is_ok() } _ => true }
}
fn noun_jv() -> Jv { Jv::Strs(pos_vec(&default_pos()[0])) }
fn int(x: i128) -> Jv { Jv::Int(x) }

/// values an integer setting is probed with: boundaries of i16/u16/i64/u64 and every other JSON shape
fn int_shapes() -> Vec<Jv> {
    vec![int(-1), int(0), int(1), int(32767), int(32768), int(65535), int(65536), int(i64::MAX as i128), int(i64::MAX as i128 + 1),
         int(U64MAX - 1), int(U64MAX), int(U64MAX + 1), int(i64::MIN as i128), int(i64::MIN as i128 - 1),
         Jv::Float("1.5"), Jv::Float("1e2"), Jv::Float("0.0"), Jv::Str("1".into()), Jv::Null, Jv::Bool(true), Jv::Other("[1]"), Jv::Other("{}"), Jv::Absent]
}

fn rbase(rng: &mut Rng, nl: usize, nr: usize, tag: String) -> RSpec {
    RSpec { nl, nr, matrix: Matrix::random(rng, nl, nr, false), inh: vec![], inh_raw: vec![], raw_first: false, input: vec![], oov: vec![], path: vec![], users: vec![], tag }
}
fn good_simple() -> ROov { ROov::Simple { pos: noun_jv(), l: int(0), r: int(0), c: int(10), mode: Jv::Absent } }

const N_RSHAPES: usize = 23;
/// directed raw cases: every shape for every numeric / enumerated / list parameter of every bundled plugin
fn rdirected(k: usize, rng: &mut Rng, ctx: &Ctx) -> Option<RSpec> {
    let shapes = int_shapes();
    debug_assert_eq!(shapes.len(), N_RSHAPES);
    // block A: 12 integer fields x 23 shapes
    let fields = 12;
    if k < fields * N_RSHAPES {
        let (f, si) = (k / N_RSHAPES, k % N_RSHAPES);
        let x = shapes[si].clone();
        let mut s = rbase(rng, 3, 3, format!("rdirected:int:{}:{}", f, si));
        let g = good_simple();
        match f {
            0 => s.oov.push(ROov::Simple { pos: noun_jv(), l: x, r: int(0), c: int(1), mode: Jv::Absent }),
            1 => s.oov.push(ROov::Simple { pos: noun_jv(), l: int(0), r: x, c: int(1), mode: Jv::Absent }),
            2 => s.oov.push(ROov::Simple { pos: noun_jv(), l: int(0), r: int(0), c: x, mode: Jv::Absent }),
            3 => s.oov.push(ROov::Regex { pos: noun_jv(), l: x, r: int(0), c: int(1), mode: Jv::Absent, maxlen: Jv::Absent, bnd: Jv::Absent, alias: si % 2 == 0, rx: dot(), dbgf: Jv::Absent }),
            4 => s.oov.push(ROov::Regex { pos: noun_jv(), l: int(0), r: x, c: int(1), mode: Jv::Absent, maxlen: Jv::Absent, bnd: Jv::Absent, alias: si % 2 == 0, rx: dot(), dbgf: Jv::Absent }),
            5 => s.oov.push(ROov::Regex { pos: noun_jv(), l: int(0), r: int(0), c: x, mode: Jv::Absent, maxlen: Jv::Absent, bnd: Jv::Absent, alias: si % 2 == 0, rx: dot(), dbgf: Jv::Absent }),
            6 => s.oov.push(ROov::Regex { pos: noun_jv(), l: int(1), r: int(2), c: int(1), mode: Jv::Absent, maxlen: x, bnd: Jv::Absent, alias: false, rx: dot(), dbgf: Jv::Absent }),
            7 => s.oov.push(ROov::Regex { pos: noun_jv(), l: int(1), r: int(2), c: int(1), mode: Jv::Absent, maxlen: x, bnd: Jv::Str("relaxed".into()), alias: false, rx: dot(), dbgf: Jv::Absent }),
            8 => { s.input.push(RIn::Yomi { lb: Jv::Strs(vec!["(".into(), "（".into()]), rb: Jv::Strs(vec![")".into(), "）".into()]), ml: x }); s.oov.push(g); }
            9 => { s.path.push(RPath::Katakana { pos: noun_jv(), minlen: x }); s.oov.push(g); }
            10 => { s.path.push(RPath::Numeric { en: x }); s.oov.push(g); }
            _ => { s.input.push(RIn::Prolonged { marks: Jv::Strs(vec!["ー".into(), "〜".into()]), repl: x }); s.oov.push(g); }
        }
        return Some(s);
    }
    let k = k - fields * N_RSHAPES;
    // block B: further maxLength / maxYomiganaLength / minLength magnitudes
    let mags: Vec<i128> = vec![2, 6, 7, 31, 32, 33, 1000, 20000, 30000, 100000, u32::MAX as i128, u32::MAX as i128 + 1, i64::MAX as i128 - 1, U64MAX - 2, U64MAX - 5, U64MAX - 6, U64MAX - 7, U64MAX - 100];
    if k < 3 * mags.len() {
        let (f, mi) = (k / mags.len(), k % mags.len());
        let x = int(mags[mi]);
        let mut s = rbase(rng, 3, 3, format!("rdirected:mag:{}:{}", f, mi));
        match f {
            0 => s.oov.push(ROov::Regex { pos: noun_jv(), l: int(0), r: int(0), c: int(1), mode: Jv::Absent, maxlen: x, bnd: if mi % 2 == 0 { Jv::Absent } else { Jv::Str("relaxed".into()) }, alias: false, rx: dot(), dbgf: Jv::Absent }),
            1 => { s.input.push(RIn::Yomi { lb: Jv::Strs(vec!["(".into()]), rb: Jv::Strs(vec![")".into()]), ml: x }); s.oov.push(good_simple()); }
            _ => { s.path.push(RPath::Katakana { pos: noun_jv(), minlen: x }); s.oov.push(good_simple()); }
        }
        return Some(s);
    }
    let k = k - 3 * mags.len();
    // block C: enumerations and lists
    let modes: Vec<Jv> = vec![Jv::Absent, Jv::Str("allow".into()), Jv::Str("forbid".into()), Jv::Str("Allow".into()), Jv::Str("ALLOW".into()), Jv::Str("".into()), Jv::Str("yes".into()), Jv::Null, Jv::Bool(true), int(1), Jv::Strs(vec!["allow".into()]), Jv::Other("{}")];
    if k < 3 * modes.len() {
        let (f, mi) = (k / modes.len(), k % modes.len());
        let m = modes[mi].clone();
        let mut s = rbase(rng, 3, 3, format!("rdirected:userPOS:{}:{}", f, mi));
        let newp = Jv::Strs(new_pos(0));
        match f {
            0 => s.oov.push(ROov::Simple { pos: newp, l: int(0), r: int(0), c: int(1), mode: m }),
            1 => s.oov.push(ROov::Regex { pos: newp, l: int(0), r: int(0), c: int(1), mode: m, maxlen: Jv::Absent, bnd: Jv::Absent, alias: true, rx: dot(), dbgf: Jv::Absent }),
            _ => { let mut lines = base_unk(&pos_vec(&default_pos()[0])); lines.push(valid_line("KANJI", 1, 1, 5, &new_pos(0))); s.oov.push(ROov::Mecab { lines, mode: m }); }
        }
        return Some(s);
    }
    let k = k - 3 * modes.len();
    let bnds: Vec<Jv> = vec![Jv::Absent, Jv::Str("strict".into()), Jv::Str("relaxed".into()), Jv::Str("Strict".into()), Jv::Str("loose".into()), Jv::Str("".into()), Jv::Null, Jv::Bool(false), int(0), Jv::Strs(vec![]), Jv::Other("{}")];
    if k < bnds.len() {
        let mut s = rbase(rng, 3, 3, format!("rdirected:boundaries:{}", k));
        s.oov.push(ROov::Regex { pos: noun_jv(), l: int(2), r: int(1), c: int(-3), mode: Jv::Absent, maxlen: int(2), bnd: bnds[k].clone(), alias: false, rx: dot(), dbgf: Jv::Absent });
        return Some(s);
    }
    let k = k - bnds.len();
    let noun = pos_vec(&default_pos()[0]);
    let lists: Vec<Jv> = vec![
        Jv::Strs(noun.clone()), Jv::Strs(noun[..5].to_vec()), Jv::Strs({ let mut p = noun.clone(); p.push("*".into()); p }), Jv::Strs(vec![]), Jv::Strs(new_pos(1)),
        Jv::Strs(vec!["名詞".into()]), Jv::Str("名詞".into()), Jv::Null, Jv::Absent, Jv::Other(r#"["名詞",1,"一般","*","*","*"]"#), Jv::Other(r#"[["名詞"]]"#), int(0), Jv::Other("{}"),
    ];
    if k < 4 * lists.len() {
        let (f, li) = (k / lists.len(), k % lists.len());
        let p = lists[li].clone();
        let mut s = rbase(rng, 3, 3, format!("rdirected:oovPOS:{}:{}", f, li));
        match f {
            0 => s.oov.push(ROov::Simple { pos: p, l: int(0), r: int(0), c: int(1), mode: Jv::Str("allow".into()) }),
            1 => s.oov.push(ROov::Regex { pos: p, l: int(0), r: int(0), c: int(1), mode: Jv::Absent, maxlen: Jv::Absent, bnd: Jv::Absent, alias: li % 2 == 1, rx: dot(), dbgf: Jv::Absent }),
            2 => { s.path.push(RPath::Katakana { pos: p, minlen: int(3) }); s.oov.push(good_simple()); }
            _ => { // the POS a path-rewrite plugin names may have been registered by an OOV provider, never by a user dictionary
                s.oov.push(ROov::Simple { pos: Jv::Strs(new_pos(1)), l: int(0), r: int(0), c: int(1), mode: Jv::Str("allow".into()) });
                s.path.push(RPath::Katakana { pos: p, minlen: int(3) });
            }
        }
        return Some(s);
    }
    let k = k - 4 * lists.len();
    let chars: Vec<Jv> = vec![
        Jv::Strs(vec!["ー".into()]), Jv::Strs(vec![]), Jv::Strs(vec!["ー".into(), "ー".into()]), Jv::Strs(vec!["ab".into()]), Jv::Strs(vec!["".into()]), Jv::Strs(vec!["e\u{301}".into()]),
        Jv::Strs(vec!["-".into(), "]".into(), "[".into(), "^".into(), "\\".into()]), Jv::Strs(vec!["&".into(), "~".into(), "-".into(), "&".into()]), Jv::Strs(vec!["👍".into()]),
        Jv::Str("ー".into()), Jv::Null, Jv::Absent, Jv::Other(r#"["ー",12540]"#), int(12540), Jv::Other("{}"),
    ];
    if k < 3 * chars.len() {
        let (f, ci) = (k / chars.len(), k % chars.len());
        let c = chars[ci].clone();
        let mut s = rbase(rng, 3, 3, format!("rdirected:chars:{}:{}", f, ci));
        match f {
            0 => s.input.push(RIn::Prolonged { marks: c, repl: if ci % 3 == 0 { Jv::Str("".into()) } else { Jv::Absent } }),
            1 => s.input.push(RIn::Yomi { lb: c, rb: Jv::Strs(vec![")".into()]), ml: int(4) }),
            _ => s.input.push(RIn::Yomi { lb: Jv::Strs(vec!["(".into()]), rb: c, ml: int(4) }),
        }
        s.oov.push(good_simple());
        return Some(s);
    }
    let k = k - 3 * chars.len();
    // block D: user dictionaries compiled against another (larger) system dictionary; error precedence
    match k {
        0..=5 => { // ids n-1, n, n+1 of the loading matrix as left / right id of a user word
            let (nl, nr) = if k < 3 { (3, 3) } else { (2, 4) };
            let n = [nl as i64 - 1, nl as i64, nl as i64 + 1][k % 3];
            let mut s = rbase(rng, nl, nr, format!("rdirected:userdict:{}", k));
            s.oov.push(good_simple());
            s.users.push(UDicSpec { big: 6, own_pos: vec![], words: vec![(0, 0), (n.min(5), 1), (1, n.min(5))] });
            Some(s)
        }
        6 => { // two user dictionaries, the second one does not fit; own POS of both
            let mut s = rbase(rng, 3, 3, "rdirected:userdict:second".into());
            s.oov.push(good_simple());
            s.users.push(UDicSpec { big: 3, own_pos: vec![NEW_POS[0].map(|x| x.to_string())], words: vec![(2, 2)] });
            s.users.push(UDicSpec { big: 5, own_pos: vec![NEW_POS[1].map(|x| x.to_string())], words: vec![(1, 1), (4, 0)] });
            Some(s)
        }
        7 => { // input-text error comes before an OOV error, an inhibit error before both
            let mut s = rbase(rng, 3, 3, "rdirected:precedence:input-before-oov".into());
            s.input.push(RIn::Yomi { lb: Jv::Strs(vec!["(".into()]), rb: Jv::Strs(vec![")".into()]), ml: int(0) });
            s.oov.push(ROov::Simple { pos: noun_jv(), l: int(9), r: int(0), c: int(1), mode: Jv::Absent });
            Some(s)
        }
        8 => { // path-rewrite error comes before NoOOVPluginProvided
            let mut s = rbase(rng, 3, 3, "rdirected:precedence:path-before-nooov".into());
            s.path.push(RPath::Katakana { pos: noun_jv(), minlen: int(-1) });
            Some(s)
        }
        9 => { // no provider, valid path plugin
            let mut s = rbase(rng, 3, 3, "rdirected:precedence:nooov".into());
            s.path.push(RPath::Katakana { pos: noun_jv(), minlen: int(1) });
            Some(s)
        }
        10 => { // everything at once, all valid
            let mut s = rbase(rng, 4, 4, "rdirected:all-plugins".into());
            s.inh.push(vec![(1, 2)]);
            s.input.push(RIn::Prolonged { marks: Jv::Strs(vec!["ー".into(), "〜".into()]), repl: Jv::Absent });
            s.input.push(RIn::Yomi { lb: Jv::Strs(vec!["(".into()]), rb: Jv::Strs(vec![")".into()]), ml: int(4) });
            s.oov.push(ROov::Regex { pos: noun_jv(), l: int(3), r: int(3), c: int(100), mode: Jv::Absent, maxlen: int(3), bnd: Jv::Str("relaxed".into()), alias: false, rx: dot(), dbgf: Jv::Absent });
            s.oov.push(ROov::Mecab { lines: base_unk(&pos_vec(&default_pos()[0])), mode: Jv::Absent });
            s.oov.push(good_simple());
            s.path.push(RPath::Numeric { en: Jv::Bool(false) });
            s.path.push(RPath::Katakana { pos: noun_jv(), minlen: int(2) });
            s.users.push(UDicSpec { big: 4, own_pos: vec![NEW_POS[0].map(|x| x.to_string())], words: vec![(3, 3), (0, 1)] });
            Some(s)
        }
        11 => { // the POS of a path-rewrite plugin exists only in a user dictionary: merged too late
            let mut s = rbase(rng, 3, 3, "rdirected:katakana-pos-in-userdict".into());
            s.oov.push(good_simple());
            s.path.push(RPath::Katakana { pos: Jv::Strs(new_pos(0)), minlen: int(2) });
            s.users.push(UDicSpec { big: 3, own_pos: vec![NEW_POS[0].map(|x| x.to_string())], words: vec![(0, 0)] });
            Some(s)
        }
        _ => rdirected3(k - 12, rng, ctx),
    }
}

/// third round: what the generators of the first two rounds never produced
fn rdirected3(k: usize, rng: &mut Rng, ctx: &Ctx) -> Option<RSpec> {
    let dict_pos = default_pos();
    // block E: POS lists of EVERY length 0..8 that agree with the FIRST / LAST POS of the dictionary as far as they go
    // (zip semantics: a lookup without the arity guard would match them) x Simple allow / Simple forbid / Regex default / JoinKatakanaOov
    if k < 2 * 9 * 4 {
        let (which, len, f) = (k / 36, (k / 4) % 9, k % 4);
        let base = pos_vec(&dict_pos[if which == 0 { 0 } else { dict_pos.len() - 1 }]);
        let mut p: Vec<String> = base.iter().take(len.min(6)).cloned().collect();
        while p.len() < len { p.push("*".into()); }
        let mut s = rbase(rng, 3, 3, format!("rdirected:pos-arity:{}:{}:{}", if which == 0 { "first" } else { "last" }, len, f));
        let p = Jv::Strs(p);
        match f {
            0 => s.oov.push(ROov::Simple { pos: p, l: int(0), r: int(0), c: int(1), mode: Jv::Str("allow".into()) }),
            1 => s.oov.push(ROov::Simple { pos: p, l: int(0), r: int(0), c: int(1), mode: Jv::Str("forbid".into()) }),
            2 => s.oov.push(ROov::Regex { pos: p, l: int(0), r: int(0), c: int(1), mode: Jv::Absent, maxlen: Jv::Absent, bnd: Jv::Absent, alias: len % 2 == 0, rx: dot(), dbgf: Jv::Absent }),
            _ => { s.oov.push(good_simple()); s.path.push(RPath::Katakana { pos: p, minlen: int(2) }); }
        }
        return Some(s);
    }
    let k = k - 72;
    // block F: maxYomiganaLength around the size limit of the regex crate, measured for the bracket sets of the case
    let sets: [(Vec<&str>, Vec<&str>); 3] = [(vec!["("], vec![")"]), (vec!["(", "（"], vec![")", "）"]), (vec!["《", "(", "[", "👍"], vec!["》"])];
    if k < 3 * 3 + 9 {
        let (lb, rb, n): (Vec<String>, Vec<String>, usize) = if k < 9 {
            let (l, r) = &sets[k / 3];
            let (l, r): (Vec<String>, Vec<String>) = (l.iter().map(|x| x.to_string()).collect(), r.iter().map(|x| x.to_string()).collect());
            let lim = yomi_limit(ctx, &l, &r);
            (l, r, lim + (k % 3) - 1)
        } else {
            (vec!["(".into()], vec![")".into()], [19_999usize, 20_000, 20_001, 25_000, 27_000, 29_999, 30_000, 40_000, 40_001][k - 9])
        };
        let mut s = rbase(rng, 3, 3, format!("rdirected:yomigana-band:{}", k));
        s.input.push(RIn::Yomi { lb: Jv::Strs(lb), rb: Jv::Strs(rb), ml: int(n as i128) });
        s.oov.push(good_simple());
        return Some(s);
    }
    let k = k - 18;
    // block G: 13, 14 (the most LexiconSet takes) and 15 user dictionaries; own POS in several of them; precedence of the id check
    if k < 5 {
        let n = [1usize, 13, 14, 15, 15][k];
        let mut s = rbase(rng, 3, 3, format!("rdirected:user-dictionaries:{}{}", n, if k == 4 { ":bad-ids-in-last" } else { "" }));
        s.oov.push(ROov::Simple { pos: Jv::Strs(new_pos(1)), l: int(0), r: int(0), c: int(1), mode: Jv::Str("allow".into()) });
        for u in 0..n {
            let own: Vec<[String; 6]> = if u % 3 == 0 { vec![NEW_POS[(u / 3) % 3].map(|x| x.to_string())] } else { vec![] };
            let words = if k == 4 && u == n - 1 { vec![(4, 0)] } else { vec![((u % 3) as i64, ((u + 1) % 3) as i64)] };
            s.users.push(UDicSpec { big: 5, own_pos: own, words });
        }
        return Some(s);
    }
    let k = k - 5;
    // block H: how unk.def numbers are read (str::parse::<i16>): sign, leading zeros, blanks, empty, non-ASCII digits, i16 limits
    let nums: [(&str, Option<i64>); 14] = [("+1", Some(1)), ("-0", Some(0)), ("01", Some(1)), ("0002", Some(2)), (" 1", None), ("1 ", None), ("", None), ("1.0", None),
        ("0x1", None), ("１", None), ("+", None), ("-", None), ("1e0", None), ("--1", None)];
    if k < nums.len() * 2 {
        let (ni, col) = (k / 2, k % 2);
        let (txt, val) = nums[ni];
        let noun = pos_vec(&dict_pos[0]);
        let mut lines = base_unk(&noun);
        let (l, r, c) = if col == 0 { (txt.to_string(), "1".to_string(), "7".to_string()) } else { ("1".to_string(), "2".to_string(), txt.to_string()) };
        let raw = format!("KANJI,{},{},{},{}", l, r, c, noun.join(","));
        let parsed = val.map(|v| if col == 0 { ("KANJI".to_string(), v, 1, 7, noun.clone()) } else { ("KANJI".to_string(), 1, 2, v, noun.clone()) });
        lines.push(UnkLine { raw, parsed });
        let mut s = rbase(rng, 3, 3, format!("rdirected:unkdef-number:{}:{}", ni, col));
        s.oov.push(ROov::Mecab { lines, mode: Jv::Absent });
        return Some(s);
    }
    let k = k - 28;
    // block I: unk.def files of odd shapes: empty, only comments, the i16 limits as costs, the same category many times
    match k {
        0 => { let mut s = rbase(rng, 3, 3, "rdirected:unkdef-empty".into()); s.oov.push(ROov::Mecab { lines: vec![], mode: Jv::Absent }); Some(s) }
        1 => { let mut s = rbase(rng, 3, 3, "rdirected:unkdef-comments-only".into());
               s.oov.push(ROov::Mecab { lines: vec![UnkLine { raw: "# nothing".into(), parsed: None }, UnkLine { raw: "".into(), parsed: None }], mode: Jv::Absent }); s.oov.push(good_simple()); Some(s) }
        2 => { let noun = pos_vec(&dict_pos[0]); let mut s = rbase(rng, 3, 3, "rdirected:unkdef-cost-limits".into());
               s.oov.push(ROov::Mecab { lines: vec![valid_line("KANJI", 2, 2, 32767, &noun), valid_line("KANJI", 0, 0, -32768, &noun), valid_line("DEFAULT", 1, 1, 0, &noun)], mode: Jv::Absent }); Some(s) }
        3 => { let noun = pos_vec(&dict_pos[0]); let mut s = rbase(rng, 3, 3, "rdirected:unkdef-same-category-x9".into());
               s.oov.push(ROov::Mecab { lines: (0..9).map(|i| valid_line("ALPHA", i % 3, (i / 3) % 3, i * 10, &noun)).collect(), mode: Jv::Absent }); Some(s) }
        4 => { // POS whose components are 1-, 2-, 3- and 4-byte characters, registered and looked up again
               let wide: Vec<String> = vec!["a".into(), "é".into(), "名".into(), "👍".into(), "é👍".into(), "*".into()];
               let mut s = rbase(rng, 3, 3, "rdirected:pos-encoding-widths".into());
               s.oov.push(ROov::Simple { pos: Jv::Strs(wide.clone()), l: int(0), r: int(0), c: int(1), mode: Jv::Str("allow".into()) });
               s.oov.push(ROov::Regex { pos: Jv::Strs(wide.clone()), l: int(1), r: int(1), c: int(1), mode: Jv::Absent, maxlen: Jv::Absent, bnd: Jv::Absent, alias: false, rx: dot(), dbgf: Jv::Absent });
               s.path.push(RPath::Katakana { pos: Jv::Strs(wide), minlen: int(1) }); Some(s) }
        6..=67 => {
            // block J: inhibitPair in every JSON shape: every element shape at both positions, members of 0/1/3 elements,
            // members that are not arrays, the key absent / not an array / empty; error precedence between two plugins
            let j = k - 6;
            let shapes = int_shapes();
            let mut s = rbase(rng, 3, 3, format!("rdirected:inhibitPair:{}", j));
            s.oov.push(good_simple());
            let one = |m: RMem| RInhJ::Members(vec![RMem::Arr(vec![int(0), int(1)]), m]);
            if j < 46 {
                let x = match shapes[j % 23].clone() { Jv::Absent => Jv::Other("[]"), x => x };
                s.inh_raw.push(one(RMem::Arr(if j < 23 { vec![x, int(1)] } else { vec![int(1), x] })));
            } else {
                match j - 46 {
                    0 => s.inh_raw.push(one(RMem::Arr(vec![]))),
                    1 => s.inh_raw.push(one(RMem::Arr(vec![int(1)]))),
                    2 => s.inh_raw.push(one(RMem::Arr(vec![int(1), int(2), int(0)]))),
                    3 => s.inh_raw.push(one(RMem::NotArr("5"))),
                    4 => s.inh_raw.push(one(RMem::NotArr("\"1,2\""))),
                    5 => s.inh_raw.push(one(RMem::NotArr("null"))),
                    6 => s.inh_raw.push(one(RMem::NotArr("{}"))),
                    7 => s.inh_raw.push(RInhJ::Absent),
                    8 => s.inh_raw.push(RInhJ::Other("null")),
                    9 => s.inh_raw.push(RInhJ::Other("5")),
                    10 => s.inh_raw.push(RInhJ::Other("\"x\"")),
                    11 => s.inh_raw.push(RInhJ::Other("{}")),
                    12 => s.inh_raw.push(RInhJ::Members(vec![])),
                    13 => s.inh_raw.push(RInhJ::Members(vec![RMem::Arr(vec![int(2), int(1)]), RMem::Arr(vec![int(2), int(1)]), RMem::Arr(vec![int(0), int(0)])])),
                    14 => { s.inh.push(vec![(3, 0)]); s.inh_raw.push(RInhJ::Absent); }                      // range error of the first plugin wins
                    _ => { s.inh.push(vec![(3, 0)]); s.inh_raw.push(RInhJ::Absent); s.raw_first = true; }   // serde error of the first plugin wins
                }
            }
            Some(s)
        }
        68..=91 => {
            // block K: the `regex` and `debug` settings of RegexOovProvider; the pattern is compiled LAST in set_up
            let j = k - 68;
            let mut s = rbase(rng, 3, 3, format!("rdirected:regex-setting:{}", j));
            let mk = |pos: Jv, l: i128, mode: Jv, rx: Jv, dbgf: Jv| ROov::Regex { pos, l: int(l), r: int(1), c: int(5), mode, maxlen: Jv::Absent, bnd: Jv::Absent, alias: false, rx, dbgf };
            let st = |t: &str| Jv::Str(t.to_string());
            let allow = Jv::Str("allow".into());
            s.oov.push(match j {
                0 => mk(noun_jv(), 1, Jv::Absent, st("^."), Jv::Absent),
                1 => mk(noun_jv(), 1, Jv::Absent, st("("), Jv::Absent),
                2 => mk(noun_jv(), 1, Jv::Absent, st("["), Jv::Absent),
                3 => mk(noun_jv(), 1, Jv::Absent, st("a{2,1}"), Jv::Absent),
                4 => mk(noun_jv(), 1, Jv::Absent, st("\\"), Jv::Absent),
                5 => mk(noun_jv(), 1, Jv::Absent, st("(?P<"), Jv::Absent),
                6 => mk(noun_jv(), 1, Jv::Absent, st(")"), Jv::Absent),             // ("*" is VALID for the crate: `^*`)
                7 => mk(noun_jv(), 1, Jv::Absent, st("(?s)."), Jv::Absent),
                8 => mk(noun_jv(), 1, Jv::Absent, Jv::Null, Jv::Absent),
                9 => mk(noun_jv(), 1, Jv::Absent, int(5), Jv::Absent),
                10 => mk(noun_jv(), 1, Jv::Absent, Jv::Absent, Jv::Absent),
                11 => mk(noun_jv(), 1, Jv::Absent, Jv::Strs(vec![".".into()]), Jv::Absent),
                12 => mk(noun_jv(), 1, Jv::Absent, dot(), Jv::Bool(true)),
                13 => mk(noun_jv(), 1, Jv::Absent, dot(), Jv::Bool(false)),
                14 => mk(noun_jv(), 1, Jv::Absent, dot(), Jv::Null),
                15 => mk(noun_jv(), 1, Jv::Absent, dot(), int(1)),
                16 => mk(noun_jv(), 1, Jv::Absent, dot(), st("true")),
                17 => mk(noun_jv(), 9, Jv::Absent, st("("), Jv::Absent),                        // the id error comes first
                18 => mk(Jv::Strs(new_pos(0)), 1, Jv::Absent, st("("), Jv::Absent),             // the POS error comes first
                19 => mk(Jv::Strs(new_pos(0)), 1, allow.clone(), st("("), Jv::Absent),          // POS registered, then ConfigError
                20 => mk(noun_jv(), 1, Jv::Absent, st("(?i)."), Jv::Absent),                     // a flag group in front of the inserted ^
                21 => mk(noun_jv(), 1, Jv::Absent, st(".|"), Jv::Absent),
                22 => mk(noun_jv(), 1, Jv::Absent, st("^^."), Jv::Absent),
                _ => mk(noun_jv(), 1, Jv::Absent, st("\\p{Han}|."), Jv::Absent),
            });
            if j == 19 { s.oov.push(good_simple()); }
            Some(s)
        }
        5 => { // two-byte single characters as brackets / sound marks (the Vec<char> test counts characters, not bytes)
               let mut s = rbase(rng, 3, 3, "rdirected:chars-two-byte".into());
               s.input.push(RIn::Prolonged { marks: Jv::Strs(vec!["é".into(), "ー".into(), "👍".into(), "-".into()]), repl: Jv::Str("é".into()) });
               s.input.push(RIn::Yomi { lb: Jv::Strs(vec!["«".into()]), rb: Jv::Strs(vec!["»".into(), "👍".into()]), ml: int(3) });
               s.oov.push(good_simple()); Some(s) }
        _ => None,
    }
}

pub const N_RDIRECTED: usize = 12 * N_RSHAPES + 3 * 18 + 3 * 12 + 11 + 4 * 13 + 3 * 15 + 12 + (72 + 18 + 5 + 28 + 6 + 62 + 24);

fn rand_int_jv(rng: &mut Rng, n: usize, chaos: usize) -> Jv {
    let k = rng.below(100);
    if k < chaos { rng.pick(&int_shapes()).clone() }
    else if k < chaos * 2 { int(*rng.pick(&boundary_vals(n)) as i128) }
    else { int(rng.below(n) as i128) }
}

fn random_rspec(rng: &mut Rng, ctx: &Ctx) -> RSpec {
    let square = rng.chance(7, 10);
    let nl = rng.range(1, 6);
    let nr = if square { nl } else { rng.range(1, 6) };
    let chaos = match rng.below(10) { 0..=3 => 0, 4..=7 => 3, _ => 10 };
    let mut s = rbase(rng, nl, nr, format!("rrandom:chaos{}", chaos));
    let dict_pos = default_pos();
    if rng.chance(1, 4) {
        let np = rng.range(1, 3);
        s.inh.push((0..np).map(|_| (if rng.below(100) < chaos { *rng.pick(&boundary_vals(nl)) } else { rng.below(nl) as i64 }, if rng.below(100) < chaos { *rng.pick(&boundary_vals(nr)) } else { rng.below(nr) as i64 })).collect());
    }
    if rng.chance(1, 12) {
        // (an absent ELEMENT does not exist in JSON: null instead)
        let elem = |rng: &mut Rng, n: usize| -> Jv { if rng.chance(1, 6) { match rng.pick(&int_shapes()).clone() { Jv::Absent => Jv::Null, x => x } } else { int(rng.below(n) as i128) } };
        let nm = rng.below(4);
        let ms: Vec<RMem> = (0..nm).map(|_| match rng.below(12) { 0 => RMem::Arr(vec![elem(rng, nl)]), 1 => RMem::Arr(vec![elem(rng, nl), elem(rng, nr), int(0)]), 2 => RMem::NotArr("7"), _ => RMem::Arr(vec![elem(rng, nl), elem(rng, nr)]) }).collect();
        s.inh_raw.push(match rng.below(14) { 0 => RInhJ::Absent, 1 => RInhJ::Other("null"), _ => RInhJ::Members(ms) });
        s.raw_first = rng.chance(1, 2);
    }
    let pos_jv = |rng: &mut Rng| -> Jv {
        let k = rng.below(100);
        if k < 72 { Jv::Strs(pos_vec(&dict_pos[rng.below(dict_pos.len())])) } else if k < 87 { Jv::Strs(new_pos(rng.below(3))) }
        else if k < 94 {
            // any length 0..8, agreeing with some POS of the dictionary as far as it goes
            let len = rng.below(9);
            let mut p: Vec<String> = pos_vec(&dict_pos[rng.below(dict_pos.len())]).into_iter().take(len.min(6)).collect();
            while p.len() < len { p.push("*".into()); }
            Jv::Strs(p)
        } else if k < 97 { Jv::Null } else { Jv::Other(r#"["名詞",1]"#) }
    };
    let mode_jv = |rng: &mut Rng| -> Jv {
        match rng.below(20) { 0..=7 => Jv::Absent, 8..=13 => Jv::Str("allow".into()), 14..=17 => Jv::Str("forbid".into()), 18 => Jv::Str("Allow".into()), _ => Jv::Null }
    };
    let usize_jv = |rng: &mut Rng, small: usize| -> Jv {
        let k = rng.below(100);
        if k < chaos { rng.pick(&int_shapes()).clone() } else if k < chaos * 2 { int(*rng.pick(&[U64MAX, U64MAX - 1, U64MAX - 3, U64MAX - 20, i64::MAX as i128, u32::MAX as i128, 100000, 30000])) } else { int(rng.below(small + 1) as i128) }
    };
    let nin = *rng.pick(&[0usize, 0, 1, 1, 2]);
    for _ in 0..nin {
        if rng.chance(1, 2) {
            let mk = |rng: &mut Rng, pool: &[&str]| -> Jv { let k = rng.below(40); if k == 0 { Jv::Strs(vec![]) } else if k == 1 { Jv::Strs(vec!["ab".into()]) } else if k == 2 { Jv::Null } else { let n = rng.range(1, pool.len()); Jv::Strs(pool[..n].iter().map(|x| x.to_string()).collect()) } };
            let lb = mk(rng, &["(", "（", "[", "《"]);
            let rb = mk(rng, &[")", "）", "]", "》"]);
            let ml = { let k = rng.below(100); if k < chaos { rng.pick(&int_shapes()).clone() } else if k < chaos * 2 { int(*rng.pick(&[0i128, 50000, 100000, u32::MAX as i128, U64MAX])) } else { int(rng.range(1, 40) as i128) } };
            if rng.chance(1, 12) {
                // the band of the regex crate's size limit, with one of the two bracket sets whose limit the directed block measured
                let (l, r): (Vec<String>, Vec<String>) = if rng.chance(1, 2) { (vec!["(".into()], vec![")".into()]) } else { (vec!["(".into(), "（".into()], vec![")".into(), "）".into()]) };
                let lim = yomi_limit(ctx, &l, &r);
                let n = *rng.pick(&[lim - 1, lim, lim + 1, lim + 2, 20_001, 23_456, 27_000, lim - 100, 30_000, 39_999]);
                s.input.push(RIn::Yomi { lb: Jv::Strs(l), rb: Jv::Strs(r), ml: int(n as i128) });
            } else {
                s.input.push(RIn::Yomi { lb, rb, ml });
            }
        } else {
            let k = rng.below(30);
            let marks = if k == 0 { Jv::Strs(vec![]) } else if k == 1 { Jv::Strs(vec!["ーー".into()]) } else if k == 2 { Jv::Str("ー".into()) } else { let pool = ["ー", "〜", "-", "~", "]", "^", "&"]; let n = rng.range(1, 5); Jv::Strs((0..n).map(|_| rng.pick(&pool).to_string()).collect()) };
            let repl = match rng.below(12) { 0 => Jv::Null, 1 => Jv::Str("".into()), 2 => int(5), 3 => Jv::Str("ーー".into()), _ => Jv::Absent };
            s.input.push(RIn::Prolonged { marks, repl });
        }
    }
    let np = if rng.chance(1, 40) { 0 } else { rng.range(1, 3) };
    for _ in 0..np {
        match rng.below(5) {
            0 | 1 => s.oov.push(ROov::Simple { pos: pos_jv(rng), l: rand_int_jv(rng, nl, chaos), r: rand_int_jv(rng, nr, chaos), c: if rng.below(100) < chaos { rng.pick(&int_shapes()).clone() } else { int(rng.below(3000) as i128 - 500) }, mode: mode_jv(rng) }),
            2 | 3 => s.oov.push(ROov::Regex { pos: pos_jv(rng), l: rand_int_jv(rng, nl, chaos), r: rand_int_jv(rng, nr, chaos), c: if rng.below(100) < chaos { rng.pick(&int_shapes()).clone() } else { int(rng.below(3000) as i128 - 500) }, mode: mode_jv(rng),
                maxlen: if rng.chance(1, 3) { Jv::Absent } else { usize_jv(rng, 8) },
                bnd: match rng.below(12) { 0..=4 => Jv::Absent, 5..=7 => Jv::Str("strict".into()), 8..=10 => Jv::Str("relaxed".into()), _ => Jv::Str("Relaxed".into()) }, alias: rng.chance(1, 2),
                // `^.` takes the other branch of `starts_with("^")`; the invalid patterns are refused by the regex crate
                rx: match rng.below(40) { 0 => Jv::Str("(".into()), 1 => Jv::Str("a{2,1}".into()), 2 => Jv::Null, 3..=12 => Jv::Str("^.".into()), _ => dot() },
                dbgf: match rng.below(30) { 0 => Jv::Null, 1 => int(1), 2 | 3 => Jv::Bool(true), 4 | 5 => Jv::Bool(false), _ => Jv::Absent } }),
            _ => {
                let mut g = Gen { rng, nl, nr, chaos, dict_pos: dict_pos.clone() };
                if let Prov::Mecab { lines, .. } = (loop { let p = g.prov(); if matches!(p, Prov::Mecab { .. }) { break p; } }) {
                    s.oov.push(ROov::Mecab { lines, mode: mode_jv(rng) });
                }
            }
        }
    }
    let npath = *rng.pick(&[0usize, 0, 1, 1, 2]);
    for _ in 0..npath {
        if rng.chance(2, 3) { s.path.push(RPath::Katakana { pos: pos_jv(rng), minlen: usize_jv(rng, 5) }); }
        else { s.path.push(RPath::Numeric { en: match rng.below(10) { 0 => int(1), 1 => Jv::Str("true".into()), 2 => Jv::Null, 3 | 4 => Jv::Bool(false), 5 => Jv::Bool(true), _ => Jv::Absent } }); }
    }
    if rng.chance(1, 3) {
        let nu = if rng.chance(1, 25) { rng.range(12, 16) } else { rng.range(1, 2) };
        for _ in 0..nu {
            let big = if rng.chance(1, 2) { nl.max(nr) } else { nl.max(nr) + rng.range(1, 3) };
            let nw = rng.range(1, 3);
            let mut words = vec![];
            // many dictionaries: keep their ids inside the matrix, so that the number of dictionaries decides the outcome
            let wild = if nu >= 12 { 40 } else { 3 };
            for _ in 0..nw { let a = if rng.chance(1, wild) { big } else { nl.min(nr) }; let b = if rng.chance(1, wild) { big } else { nl.min(nr) }; words.push((rng.below(a) as i64, rng.below(b) as i64)); }
            let own_pos = if rng.chance(1, 2) { vec![NEW_POS[rng.below(3)].map(|x| x.to_string())] } else { vec![] };
            s.users.push(UDicSpec { big, own_pos, words });
        }
    }
    s
}

/// third variant switch: the reader of the grammar section refuses a negative header number and compares bytes with bytes
/// (fix_grammar_header.patch)
fn gvariant_flag() -> char {
    let dir = crate::c07::repo_sudachi_dir();
    let read = |p: &str| std::fs::read_to_string(format!("{}/src/{}", dir, p)).unwrap_or_default();
    let gr = read("dic/grammar.rs");
    let cn = read("dic/connect.rs");
    if gr.contains("left_id_size < 0 || right_id_size < 0") && cn.contains("let end = offset + size * 2;") { '1' } else { '0' }
}

fn rvariant_flags() -> String {
    let dir = crate::c07::repo_sudachi_dir();
    let read = |p: &str| std::fs::read_to_string(format!("{}/src/{}", dir, p)).unwrap_or_default();
    let rx = read("plugin/oov/regex_oov/mod.rs");
    let dc = read("dic/dictionary.rs");
    let sat = rx.contains("saturating_add(self.max_length)");
    let udic = dc.contains("num_left()") && dc.contains("num_right()");
    format!("{}{}", if sat { '1' } else { '0' }, if udic { '1' } else { '0' })
}

fn run_rload(run: &mut Run, ctx: &Ctx, idx: usize, rng: &mut Rng, spec: &RSpec) {
    let dict_pos = default_pos();
    let (nl, nr) = (spec.nl, spec.nr);
    let rows = lexicon_rows(rng, nl.min(nr));
    let csv = csv_of(&rows, &dict_pos);
    let system = match build_system(csv.as_bytes(), spec.matrix.text().as_bytes()) {
        Ok(b) => b,
        Err(e) => { run.bump(&format!("dict-build-failed:{}", e.chars().take(30).collect::<String>())); return; }
    };
    ctx.wd.write("char.def", CHAR_DEF);
    // --- user dictionaries: compiled by the real builder against a system dictionary with the same lexicon and
    // POS but a `big` x `big` matrix, then loaded next to THIS system dictionary
    let mut users = vec![];
    let mut user_texts: Vec<String> = vec![];
    let mut declared: Vec<(u8, String, Vec<String>)> = rows.iter().map(|r| (0u8, r.surface.clone(), dict_pos[r.pos].to_vec())).collect();
    for (u, ud) in spec.users.iter().enumerate() {
        let big_m = Matrix::random(rng, ud.big, ud.big, false);
        let big_sys = match build_system(csv.as_bytes(), big_m.text().as_bytes()) { Ok(b) => b, Err(e) => { run.bump(&format!("dict-build-failed:{}", e.chars().take(30).collect::<String>())); return; } };
        let cfg0 = config_json(&ctx.wd, &[], &[simple_oov_json(0, 0, 0)], &[], &[]);
        let sysdic = match load(&cfg0, big_sys, vec![]) { Ok(d) => d, Err(e) => { run.bump(&format!("benign-load-failed:{}", e.chars().take(30).collect::<String>())); return; } };
        let mut upos = dict_pos.clone();
        upos.extend(ud.own_pos.iter().cloned());
        let mut urows = vec![];
        for (j, (l, r)) in ud.words.iter().enumerate() {
            let surf = format!("{}{}", ["ゆ", "よ", "ゃ", "ゅ"][u % 4], ["ら", "り", "る", "れ"][j % 4]);
            // the own POS are used by the first words so that they are stored
            let p = if j < ud.own_pos.len() { dict_pos.len() + j } else { 0 };
            urows.push(Row::simple(&surf, *l as i32, *r as i32, 50, p));
            declared.push((u as u8 + 1, surf.clone(), upos[p].to_vec()));
            user_texts.push(format!("あ{}い", surf));
        }
        // own POS without a word using it are not stored: give each one a word
        for j in ud.words.len()..ud.own_pos.len() { urows.push(Row::simple(&format!("ょ{}{}", u, j), 0, 0, 50, dict_pos.len() + j)); }
        match build_user(&sysdic, csv_of(&urows, &upos).as_bytes()) {
            Ok(b) => users.push(b),
            Err(e) => { run.bump(&format!("user-build-failed:{}", e.chars().take(30).collect::<String>())); return; }
        }
    }
    // --- configuration
    let mut oov_json = vec![];
    let mut oov_wire = vec![];
    for (i, p) in spec.oov.iter().enumerate() {
        match p {
            ROov::Simple { pos, l, r, c, mode } => {
                oov_json.push(format!(r#"{{"class":"com.worksap.nlp.sudachi.SimpleOovPlugin"{}{}{}{}{}}}"#, pos.json("oovPOS"), l.json("leftId"), r.json("rightId"), c.json("cost"), mode.json("userPOS")));
                oov_wire.push(format!("S:{}:{}:{}:{}:{}", pos.wire(), l.wire(), r.wire(), c.wire(), mode.wire()));
            }
            ROov::Regex { pos, l, r, c, mode, maxlen, bnd, alias, rx, dbgf } => {
                oov_json.push(format!(r#"{{"class":"com.worksap.nlp.sudachi.RegexOovProvider"{}{}{}{}{}{}{}{}{}}}"#, rx.json("regex"), pos.json(if *alias { "oovPOS" } else { "pos" }), l.json("leftId"), r.json("rightId"), c.json("cost"), mode.json("userPOS"), maxlen.json("maxLength"), bnd.json("boundaries"), dbgf.json("debug")));
                oov_wire.push(format!("R:{}:{}:{}:{}:{}:{}:{}:{}:{}:{}", pos.wire(), l.wire(), r.wire(), c.wire(), mode.wire(), maxlen.wire(), bnd.wire(), rx.wire(), dbgf.wire(), if regex_ok(rx) { 1 } else { 0 }));
                run.bump(&format!("regex-setting:{}", match rx { Jv::Str(t) if t == "." => "dot", Jv::Str(t) if t == "^." => "anchored", Jv::Str(_) => if regex_ok(rx) { "other-valid" } else { "invalid-pattern" }, _ => "not-a-string" }));
            }
            ROov::Mecab { lines, mode } => {
                let name = format!("unk{}.def", i);
                let mut text = String::new();
                for ln in lines { text.push_str(&ln.raw); text.push('\n'); }
                ctx.wd.write(&name, &text);
                oov_json.push(format!(r#"{{"class":"com.worksap.nlp.sudachi.MeCabOovPlugin","charDef":"char.def","unkDef":"{}"{}}}"#, name, mode.json("userPOS")));
                oov_wire.push(format!("M:{}:{}", hex(text.as_bytes()), mode.wire()));
            }
        }
    }
    let mut in_json = vec![];
    let mut in_wire = vec![];
    for p in &spec.input {
        match p {
            RIn::Yomi { lb, rb, ml } => {
                in_json.push(format!(r#"{{"class":"com.worksap.nlp.sudachi.IgnoreYomiganaPlugin"{}{}{}}}"#, lb.json("leftBrackets"), rb.json("rightBrackets"), ml.json("maxYomiganaLength")));
                let lim = yomi_lim(ctx, run, lb, rb, ml);
                in_wire.push(format!("Y:{}:{}:{}:{}", lb.wire(), rb.wire(), ml.wire(), lim));
            }
            RIn::Prolonged { marks, repl } => {
                in_json.push(format!(r#"{{"class":"com.worksap.nlp.sudachi.ProlongedSoundMarkPlugin"{}{}}}"#, marks.json("prolongedSoundMarks"), repl.json("replacementSymbol")));
                in_wire.push(format!("P:{}:{}", marks.wire(), repl.wire()));
            }
        }
    }
    let mut path_json = vec![];
    let mut path_wire = vec![];
    for p in &spec.path {
        match p {
            RPath::Katakana { pos, minlen } => {
                path_json.push(format!(r#"{{"class":"com.worksap.nlp.sudachi.JoinKatakanaOovPlugin"{}{}}}"#, pos.json("oovPOS"), minlen.json("minLength")));
                path_wire.push(format!("K:{}:{}", pos.wire(), minlen.wire()));
            }
            RPath::Numeric { en } => {
                path_json.push(format!(r#"{{"class":"com.worksap.nlp.sudachi.JoinNumericPlugin"{}}}"#, en.json("enableNormalize")));
                path_wire.push(format!("N:{}", en.wire()));
            }
        }
    }
    let inh_json: Vec<String> = spec.inh_all().iter().map(|j| j.json()).collect();
    let inh_wire: Vec<String> = spec.inh_all().iter().map(|j| j.wire()).collect();
    for j in &spec.inh_raw { run.bump(&format!("inhibitPair:raw-shape:{}", match j { RInhJ::Absent => "absent", RInhJ::Other(_) => "not-an-array", RInhJ::Members(ms) if ms.is_empty() => "empty-array", RInhJ::Members(_) => if j.pairs().is_some() { "pairs-of-integers" } else { "odd-members" } })); }
    let cfg_json = config_json(&ctx.wd, &in_json, &oov_json, &path_json, &inh_json);
    let udic_wire: Vec<String> = spec.users.iter().map(|u| format!("{}@{}", u.own_pos.iter().map(|p| hex_pos(p)).collect::<Vec<_>>().join(";"), u.words.iter().map(|(l, r)| format!("{}.{}", l, r)).collect::<Vec<_>>().join(","))).collect();
    let plen = PROBE.chars().count();
    let payload = format!("v={} w={} nl={} nr={} conn={} inh={} inp={} oov={} path={} udic={} pos={} numpos={} plen={} cdef={}",
        ctx.variant, ctx.variant2, nl, nr, join(spec.matrix.cells.iter(), ","), inh_wire.join(";"), in_wire.join(";"), oov_wire.join(";"), path_wire.join(";"),
        udic_wire.join("|"), dict_pos.iter().map(|p| hex_pos(p)).collect::<Vec<_>>().join(";"), hex_pos(&dict_pos[NUMERAL]), plen, hex(CHAR_DEF.as_bytes()));

    let viol = rviolations(spec, &dict_pos);
    run.bump(&format!("tag:{}", spec.tag.split(':').take(2).collect::<Vec<_>>().join(":")));
    run.bump(if nl == nr { "matrix:square" } else { "matrix:non-square" });
    for p in &spec.oov { run.bump(match p { ROov::Simple { .. } => "provider:simple", ROov::Regex { .. } => "provider:regex", ROov::Mecab { .. } => "provider:mecab" }); }
    for p in &spec.input { run.bump(match p { RIn::Yomi { .. } => "plugin:ignore-yomigana", RIn::Prolonged { .. } => "plugin:prolonged-sound-mark" }); }
    for p in &spec.path { run.bump(match p { RPath::Katakana { .. } => "plugin:join-katakana", RPath::Numeric { .. } => "plugin:join-numeric" }); }
    if !spec.users.is_empty() { run.bump("user-dictionary:compiled-against-other-matrix"); }
    run.bump(&format!("user-dictionaries:{}", match spec.users.len() { 0 => "0", 1 => "1", 2..=13 => "2-13", 14 => "14", _ => "15+" }));
    for p in &spec.oov { if let ROov::Simple { pos, .. } | ROov::Regex { pos, .. } = p { if let Some(v) = pos.strs() { run.bump(&format!("pos-arity:{}", v.len())); } } }
    for p in &spec.path { if let RPath::Katakana { pos, .. } = p { if let Some(v) = pos.strs() { run.bump(&format!("pos-arity:{}", v.len())); } } }
    for x in &viol { run.bump(&format!("requirement-violated:{}", x.key())); }

    let res = catch(|| -> Result<JapaneseDictionary, SudachiError> {
        let cfg = ConfigBuilder::from_bytes(cfg_json.as_bytes()).expect("config json").build();
        let mut data = SudachiDicData::new(Storage::Owned(system.clone()));
        for u in &users { data.add_user(Storage::Owned(u.clone())); }
        JapaneseDictionary::from_cfg_storage(&cfg, data)
    });
    let nontrivial = !viol.is_empty() || spec.oov.len() + spec.inh.len() + spec.inh_raw.len() + spec.input.len() + spec.path.len() + spec.users.len() > 1;
    match res {
        Err(p) => {
            run.bump("outcome:PANIC");
            run.case(idx, "rload", &payload, "PANIC", nontrivial);
            match viol.first() {
                Some(x) => run.fail(idx, &format!("c20:load-panic:{}", x.key()), &format!("from_cfg_storage panicked ({}): {} [{}]", p.chars().take(80).collect::<String>(), x.what, spec.tag)),
                None => run.fail(idx, "c20:load-panic:unexplained", &format!("from_cfg_storage panicked: {} [{}]", p.chars().take(120).collect::<String>(), spec.tag)),
            }
        }
        Ok(Err(e)) => {
            let k = err_kind(&e);
            run.bump(&format!("outcome:err:{}", k));
            run.case(idx, "rload", &payload, &format!("err:{}", k), nontrivial);
            if viol.is_empty() && !spec.oov.is_empty() { run.bump("rejected-without-violated-requirement"); }
        }
        Ok(Ok(dic)) => {
            run.bump("outcome:ok");
            let pl = &dic.grammar().pos_list;
            let newpos: Vec<String> = pl.iter().map(|p| hex_pos(p)).collect();
            let ib = catch(|| { let mut ib = InputBuffer::from(PROBE); ib.build(dic.grammar()).expect("build"); ib });
            let mut prov_out = vec![];
            if let Ok(ib) = &ib {
                for (i, p) in spec.oov.iter().enumerate() {
                    let plugin = &dic.oov_provider_plugins()[i];
                    let ask = |off: usize| -> Vec<Node> {
                        let mut nodes: Vec<Node> = vec![];
                        match catch(|| plugin.provide_oov(ib, off, CreatedWords::empty(), &mut nodes).map(|_| nodes)) { Ok(Ok(n)) => n, _ => vec![] }
                    };
                    match p {
                        ROov::Simple { .. } => prov_out.push(format!("S:{}", ask(0).iter().map(node_tuple).collect::<Vec<_>>().join("+"))),
                        ROov::Regex { .. } => {
                            // parameters from a node at offset 0 when there is one; what provide_oov does at offsets 0 and 1
                            let probe = |off: usize| -> (String, Option<Node>) {
                                let mut nodes: Vec<Node> = vec![];
                                match catch(|| plugin.provide_oov(ib, off, CreatedWords::empty(), &mut nodes).map(|_| nodes)) {
                                    Err(_) => ("P".into(), None),
                                    Ok(Err(_)) => ("E".into(), None),
                                    Ok(Ok(n)) => match n.first() { Some(x) => (format!("{}", x.end()), Some(x.clone())), None => ("-".into(), None) },
                                }
                            };
                            let (a0, n0) = probe(0);
                            let (a1, n1) = probe(1);
                            let params = n0.or(n1).map(|n| node_tuple(&n));
                            prov_out.push(format!("R:{}/{}/{}", params.unwrap_or_else(|| "?".into()), a0, a1));
                        }
                        ROov::Mecab { .. } => {
                            let mut parts = vec![];
                            for (off, (_, bit)) in PROBE_CATS.iter().enumerate() {
                                let ns: Vec<String> = ask(off).iter().map(node_tuple).collect();
                                if !ns.is_empty() { parts.push(format!("{}={}", bit, ns.join("+"))); }
                            }
                            prov_out.push(format!("M:{}", parts.join(",")));
                        }
                    }
                }
            } else { prov_out.push("input-buffer-panic".into()); }
            let cm = dic.grammar().conn_matrix();
            let dump = catch(|| { let mut v = vec![]; for r in 0..nr { for l in 0..nl { v.push(cm.cost(l as u16, r as u16) as i64); } } v });
            let cells = dump.clone().unwrap_or_default();
            let ans = format!("ok npos={} all={} prov={} conn={}", pl.len(), newpos.join(";"), prov_out.join(";"), join(cells.iter(), ","));
            run.case(idx, "rload", &payload, &ans, nontrivial);
            pos_list_oracle(run, idx, pl, &dict_pos, &spec.users.iter().map(|u| u.own_pos.clone()).collect::<Vec<_>>(), &spec.tag);
            word_pos_oracle(run, idx, &dic, &declared, &spec.tag);
            // ---- oracle: accepted although a requirement is violated (an ill-typed or out-of-range value)
            for x in &viol {
                if x.class == "overflow" { continue; } // a usize that is too large to be added to an offset: judged by the analysis below
                run.fail(idx, &format!("c20:accepted:{}", x.key()), &format!("configuration accepted although {} [{}]", x.what, spec.tag));
            }
            if dump.is_err() || cm.num_left() != nl || cm.num_right() != nr {
                run.fail(idx, "c20:matrix:dump", "matrix of the loaded dictionary cannot be read back in its own range");
            } else {
                let mut want: Vec<i64> = spec.matrix.cells.iter().map(|&c| c as i64).collect();
                for j in spec.inh_all() { for (a, b) in j.pairs().unwrap_or_default() { if a >= 0 && (a as usize) < nl && b >= 0 && (b as usize) < nr { want[b as usize * nl + a as usize] = 32767; } } }
                if want != cells { run.fail(idx, "c20:wrong-cell:in-range-pairs", &format!("matrix after load differs from 'exactly the inhibited cells are 32767' [{}]", spec.tag)); }
            }
            // ---- oracle: analysis (texts for the providers, the input-text / path-rewrite plugins and every user word)
            let mut extra = vec!["漢(かな)字あーー〜〜い".to_string(), "アイウあ12三ア".to_string()];
            extra.extend(user_texts.iter().cloned());
            analysis_oracle(run, idx, rng, &dic, nl, nr, &viol, &spec.tag, &extra);
        }
    }
}

// ---------------------------------------------------------------------------------------------
// gparse: the reader of the grammar section (Grammar::parse + ConnectionMatrix::from_offset_size + CowArray::from_bytes):
// where num_left / num_right, the cells and the POS list come from

fn put_str(buf: &mut Vec<u8>, s: &str) {
    let units: Vec<u16> = s.encode_utf16().collect();
    if units.len() < 127 { buf.push(units.len() as u8); } else { buf.push(((units.len() >> 8) as u8) | 0x80); buf.push((units.len() & 0xff) as u8); }
    for u in units { buf.extend(&u.to_le_bytes()); }
}

/// header numbers x how many bytes follow the header
fn gparse_spec(k: Option<usize>, rng: &mut Rng) -> (usize, Vec<Vec<String>>, i16, i16, usize, String) {
    const HDR: &[(i16, i16)] = &[(0, 0), (1, 1), (2, 3), (3, 2), (1, 0), (0, 1), (0, -1), (-1, 0), (-1, -1), (-1, 1), (1, -1), (-32768, -32768), (-32768, 2), (2, -32768),
        (32767, 1), (1, 32767), (32767, 32767), (181, 182), (255, 256), (256, 255), (127, 128), (-2, 3), (3, -2), (0, 32767), (-32768, 0)];
    let (l, r, hv) = match k {
        Some(k) => { let (l, r) = HDR[k / 7 % HDR.len()]; (l, r, k % 7) }
        None => {
            let pick = |rng: &mut Rng| -> i16 { if rng.chance(1, 8) { *rng.pick(&[-1i16, -2, -32768, 32767, 0]) } else { rng.below(7) as i16 } };
            (pick(rng), pick(rng), rng.below(7))
        }
    };
    let size: usize = if l >= 0 && r >= 0 { l as usize * r as usize } else { rng.below(12) };
    let size = if size > 70_000 { 9 } else { size };
    let have = match hv { 0 => 0, 1 => size.saturating_sub(1), 2 => size, 3 => size + 1, 4 => (2 * size).saturating_sub(1), 5 => 2 * size, _ => 2 * size + 3 };
    let off = match k { Some(k) => [0usize, 1, 7][k % 3], None => rng.below(9) };
    let npos = match k { Some(k) => k % 4, None => rng.below(4) };
    let lens = [0usize, 1, 2, 126, 127, 128, 200];
    let chars = ['a', 'é', '名', '👍', '*'];
    let mut pos = vec![];
    for i in 0..npos {
        let mut p = vec![];
        for j in 0..6 {
            let n = match k { Some(k) => lens[(k + i + j) % lens.len()], None => *rng.pick(&lens) };
            p.push((0..n).map(|x| chars[(x + i + j) % chars.len()]).collect::<String>());
        }
        pos.push(p);
    }
    let tag = format!("{}:{}x{}:{}", if k.is_some() { "gdirected" } else { "grandom" }, l, r, ["none", "size-1", "size", "size+1", "2size-1", "2size", "2size+3"][hv]);
    (off, pos, l, r, have, tag)
}

pub const N_GDIRECTED: usize = 25 * 7 + 4;

fn run_gparse(run: &mut Run, idx: usize, rng: &mut Rng, k: Option<usize>) {
    use sudachi::dic::grammar::Grammar;
    let (off, pos, l, r, have, tag) = gparse_spec(k.filter(|k| *k < 25 * 7), rng);
    let mut buf: Vec<u8> = (0..off).map(|i| (i * 37 + 11) as u8).collect();
    // the last four directed cases: the buffer ends inside the POS list / inside the header, the count is larger than the list
    let cut = k.and_then(|k| k.checked_sub(25 * 7));
    let declared = pos.len() + if cut == Some(3) { 2 } else { 0 };
    buf.extend(&(declared as u16).to_le_bytes());
    for p in &pos { for c in p { put_str(&mut buf, c); } }
    let hdr_at = buf.len();
    buf.extend(&l.to_le_bytes());
    buf.extend(&r.to_le_bytes());
    let cells: Vec<i16> = (0..(have + 1) / 2).map(|i| ((i as i64 * 7919 + 13) % 65536 - 32768) as i16).collect();
    let mut cell_bytes: Vec<u8> = cells.iter().flat_map(|c| c.to_le_bytes()).collect();
    cell_bytes.truncate(have);
    buf.extend(&cell_bytes);
    match cut { Some(0) => buf.truncate(hdr_at + 3), Some(1) => buf.truncate(hdr_at + 1), Some(2) => buf.truncate(hdr_at.saturating_sub(1).max(off)), _ => {} }
    let tag = match cut { Some(c) => format!("gdirected:cut:{}", c), None => tag };
    let payload = format!("hdr={} dbg={} off={} buf={}", gvariant_flag(), if cfg!(debug_assertions) { 1 } else { 0 }, off, hex(&buf));
    run.bump(&format!("tag:{}", tag.split(':').next().unwrap_or("")));
    run.bump(&format!("gparse:header:{}", if l < 0 || r < 0 { "negative" } else if l == 0 || r == 0 { "zero" } else if l.max(r) == 32767 { "i16-max" } else { "positive" }));
    run.bump(&format!("gparse:bytes-after-header:{}", tag.rsplit(':').next().unwrap_or("")));
    let res = catch(|| Grammar::parse(&buf, off).map(|g| {
        let cm = g.conn_matrix();
        let (nl, nr) = (cm.num_left(), cm.num_right());
        let probes = nl > 0 && nr > 0 && nl <= 65536 && nr <= 65536;
        let first = if probes { cm.cost(0, 0).to_string() } else { "-".into() };
        let last = if probes { cm.cost((nl - 1) as u16, (nr - 1) as u16).to_string() } else { "-".into() };
        let pl: Vec<String> = g.pos_list.iter().map(|p| p.iter().map(|c| c.chars().count().to_string()).collect::<Vec<_>>().join(",")).collect();
        (g.pos_list.len(), nl, nr, g.storage_size, first, last, pl.join(";"), g.pos_list.clone())
    }));
    match res {
        Err(_) => { run.bump("gparse:PANIC"); run.bump(&format!("gparse:PANIC:{}", if l < 0 || r < 0 { "negative-header" } else { "matrix-cut-short" })); run.case(idx, "gparse", &payload, "PANIC", true); }
        Ok(Err(e)) => { let kd = err_kind(&e); run.bump(&format!("gparse:err:{}", kd)); run.case(idx, "gparse", &payload, &format!("err:{}", kd), true); }
        Ok(Ok((npos, nl, nr, storage, first, last, pl, plist))) => {
            run.bump("gparse:ok");
            run.case(idx, "gparse", &payload, &format!("ok npos={} nl={} nr={} storage={} first={} last={} pos={}", npos, nl, nr, storage, first, last, pl), true);
            // oracle (independent of the model): what was parsed is what was written
            if l >= 0 && r >= 0 {
                let want_first = cells.first().map(|c| c.to_string()).unwrap_or("-".into());
                let li = (l as usize * r as usize).wrapping_sub(1);
                let want_last = cells.get(li).map(|c| c.to_string()).unwrap_or("-".into());
                if nl != l as usize || nr != r as usize || nl > 32767 || nr > 32767 || (l > 0 && r > 0 && (first != want_first || last != want_last))
                    || plist != pos || storage != buf.len() - off - (have - 2 * nl * nr) {
                    run.fail(idx, "c20:gparse:dims", &format!("Grammar::parse of a {}x{} header gives {}x{}, cells {}..{} (written {}..{}), {} POS (written {}), storage {} [{}]", l, r, nl, nr, first, last, want_first, want_last, npos, pos.len(), storage, tag));
                }
            } else {
                run.bump("gparse:negative-header-accepted");
            }
        }
    }
}

pub fn run(run: &mut Run) {
    run.rule = "load: directed = every value of {-1,0,n-1,n,n+1,32767,32768,65535,65536} for leftId/rightId/cost of Simple, Regex, one unk.def line \
and both members of an inhibit pair on 3x3, 1x1, 2x4, 4x2 matrices; POS existing/new/arity 5/arity 7 x allow/forbid/default x provider; hand-written stacks \
(no provider, same new POS twice, two inhibit plugins, error precedence, D15a/D16 witnesses, user-dictionary POS order); random = stacks of 0-4 providers and 0-2 \
inhibit plugins over 1..6 x 1..6 matrices with 0/4/15 % boundary values, optional user dictionaries. Every accepted configuration tokenises three texts that \
make every provider fire. lat: real Lattice + ConnectionMatrix over random candidate nodes (ids in and out of range). non-trivial = a requirement is violated \
or more than one plugin is configured; distinct by payload".into();
    let ctx = Ctx { wd: Workdir::new("c20"), variant: variant_flags(), variant2: rvariant_flags(), yomi: Default::default() };
    run.extra.insert("variant".into(), serde_json::json!(format!("{}+{}+{}", ctx.variant, ctx.variant2, gvariant_flag())));
    let n = run.opts.count;
    // one case in five beyond the directed block is a lattice case
    for idx in 0..n {
        if !run.wants(idx) { continue; }
        let mut rng = Rng::for_case(run.opts.seed, idx);
        if idx < N_DIRECTED {
            if let Some(spec) = directed(idx, &mut rng) { run_load(run, &ctx, idx, &mut rng, &spec); }
        } else if idx < N_DIRECTED + N_RDIRECTED {
            if let Some(spec) = rdirected(idx - N_DIRECTED, &mut rng, &ctx) { run_rload(run, &ctx, idx, &mut rng, &spec); }
        } else if idx < N_DIRECTED + N_RDIRECTED + N_GDIRECTED {
            run_gparse(run, idx, &mut rng, Some(idx - N_DIRECTED - N_RDIRECTED));
        } else if idx % 20 == 9 {
            run_gparse(run, idx, &mut rng, None);
        } else if idx % 5 == 1 {
            let spec = random_rspec(&mut rng, &ctx);
            run_rload(run, &ctx, idx, &mut rng, &spec);
        } else if idx % 5 == 4 {
            run_lat(run, idx, &mut rng);
        } else {
            let spec = random_spec(&mut rng);
            run_load(run, &ctx, idx, &mut rng, &spec);
        }
    }
    run.extra.remove("examples_seen");
}
