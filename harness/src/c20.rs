//! C20: out-of-range plugin parameters are rejected when the dictionary is loaded.
//!
//! ops:
//!   load  a whole configuration (matrix nl x nr, POS list, inhibit plugins, OOV providers, user
//!         dictionaries) -> outcome class of `JapaneseDictionary::from_cfg_storage` under `catch`;
//!         for an accepted configuration: final POS list, the parameters every provider attaches to
//!         its nodes (through the public `provide_oov`), the connection matrix after the edits.
//!         Then every accepted configuration tokenises texts that make each provider fire
//!         (debug assertions on): the oracle of "no accepted configuration can index outside the matrix".
//!   lat   the real `Lattice` + `ConnectionMatrix` driven with arbitrary candidate nodes -> ok /
//!         err:Disconnect / PANIC (which ids make `ConnectionMatrix::cost` trip).
use crate::common::*;
use crate::dict::*;
use sudachi::analysis::created::CreatedWords;
use sudachi::analysis::lattice::Lattice;
use sudachi::analysis::node::{LatticeNode, RightId};
use sudachi::analysis::stateful_tokenizer::StatefulTokenizer;
use sudachi::analysis::stateless_tokenizer::DictionaryAccess;
use sudachi::analysis::{Mode, Node};
use sudachi::config::ConfigBuilder;
use sudachi::dic::connect::ConnectionMatrix;
use sudachi::dic::dictionary::JapaneseDictionary;
use sudachi::dic::storage::{Storage, SudachiDicData};
use sudachi::dic::word_id::WordId;
use sudachi::error::SudachiError;
use sudachi::input_text::InputBuffer;

/// character classes and MeCab category definitions used by every C20 configuration:
/// one class per probe character, every class `invoke=1 group=0 length=1` (one node per unk.def line)
const CHAR_DEF: &str = "0x0030..0x0039 NUMERIC\n0x0061..0x007A ALPHA\n0x3041..0x309F HIRAGANA\n0x30A1..0x30FF KATAKANA\n0x4E00..0x9FFF KANJI\n\
DEFAULT 1 0 1\nNUMERIC 1 0 1\nALPHA 1 0 1\nHIRAGANA 1 0 1\nKATAKANA 1 0 1\nKANJI 1 0 1\n";
/// one character per category, in the order DEFAULT NUMERIC ALPHA HIRAGANA KATAKANA KANJI
const PROBE: &str = "!1aえエ漢";
const PROBE_CATS: &[(&str, u32)] = &[("DEFAULT", 1), ("NUMERIC", 16), ("ALPHA", 32), ("HIRAGANA", 64), ("KATAKANA", 128), ("KANJI", 4)];
const TEXTS: &[&str] = &["!1aえエ漢", "東京ア!x7", "いう!漢a"];

const NEW_POS: &[[&str; 6]] = &[
    ["名詞", "普通名詞", "新規", "*", "*", "*"],
    ["感動詞", "一般", "*", "*", "*", "*"],
    ["名詞", "普通名詞", "一般", "*", "*", "x"],
];

#[derive(Clone, Debug, PartialEq)]
enum UMode { Allow, Forbid, Default }

impl UMode {
    fn allow(&self) -> bool { *self == UMode::Allow }
    fn json(&self) -> String {
        match self { UMode::Allow => r#","userPOS":"allow""#.into(), UMode::Forbid => r#","userPOS":"forbid""#.into(), UMode::Default => String::new() }
    }
    fn wire(&self) -> &'static str { if self.allow() { "a" } else { "f" } }
}

#[derive(Clone, Debug)]
struct UnkLine {
    /// the raw line as written to unk.def
    raw: String,
    /// structured reading (None for comments, blanks and lines the reader must reject for their shape)
    parsed: Option<(String, i64, i64, i64, Vec<String>)>,
}

#[derive(Clone, Debug)]
enum Prov {
    Simple { pos: Vec<String>, l: i64, r: i64, c: i64, mode: UMode },
    Regex { pos: Vec<String>, l: i64, r: i64, c: i64, mode: UMode, alias: bool },
    Mecab { lines: Vec<UnkLine>, mode: UMode },
}

#[derive(Clone, Debug)]
struct Spec {
    nl: usize,
    nr: usize,
    matrix: Matrix,
    inh: Vec<Vec<(i64, i64)>>,
    provs: Vec<Prov>,
    user_pos: Vec<Vec<[String; 6]>>,
    tag: String,
}

/// one requirement of the property that the configuration does not meet
#[derive(Clone, Debug)]
struct Violation { src: &'static str, field: &'static str, class: &'static str, what: String }

impl Violation {
    fn key(&self) -> String { format!("{}:{}:{}", self.src, self.field, self.class) }
}

fn boundary_vals(n: usize) -> Vec<i64> {
    let n = n as i64;
    vec![-1, 0, n - 1, n, n + 1, 32767, 32768, 65535, 65536]
}

/// `x` is given as a connection id validated against `vd` and used as an index bounded by `idim`
fn id_violation(src: &'static str, field: &'static str, x: i64, vd: usize, idim: usize, what: &str) -> Option<Violation> {
    if x >= 0 && (x as usize) < idim { return None; }
    let class = if x < 0 { "neg" } else if x as usize == vd { "eq-dim" } else if (x as usize) < vd { "nonsquare" } else { "above" };
    Some(Violation { src, field, class, what: format!("{} {}={} does not index the {} ids of the {} matrix", what, field, x, idim, "connection") })
}

fn pos_key(p: &[String]) -> String { p.join(",") }

/// requirements of the property, evaluated on the configuration itself (independent of the model):
/// ids index the dimension they are used on at analysis, costs fit i16, POS exists or userPOS=allow
fn violations(spec: &Spec, dict_pos: &[[String; 6]]) -> Vec<Violation> {
    let (nl, nr) = (spec.nl, spec.nr);
    let mut v = vec![];
    for (k, pairs) in spec.inh.iter().enumerate() {
        for (a, b) in pairs {
            // set_connect_cost(left, right): left is bounded by num_left, right by num_right
            if let Some(x) = id_violation("inhibit", "pair0", *a, nl, nl, &format!("inhibit plugin {}", k)) { v.push(x); }
            if let Some(x) = id_violation("inhibit", "pair1", *b, nr, nr, &format!("inhibit plugin {}", k)) { v.push(x); }
        }
    }
    // POS known so far: the dictionary's, then whatever earlier providers registered
    let mut known: Vec<String> = dict_pos.iter().map(|p| p.join(",")).collect();
    let mut pos_req = |v: &mut Vec<Violation>, src: &'static str, pos: &[String], mode: &UMode| {
        let k = pos_key(pos);
        if pos.len() == 6 && known.contains(&k) { return; }
        if mode.allow() { if pos.len() == 6 { known.push(k); } return; }
        v.push(Violation { src, field: "pos", class: "forbidden-pos", what: format!("POS {} is not in the dictionary and userPOS is not allow", k) });
    };
    for p in &spec.provs {
        match p {
            Prov::Simple { pos, l, r, c, mode } | Prov::Regex { pos, l, r, c, mode, .. } => {
                let src = if matches!(p, Prov::Simple { .. }) { "simple" } else { "regex" };
                pos_req(&mut v, src, pos, mode);
                // a node's left id is the `right` argument of conn.cost (bounded by num_right), its right
                // id the `left` argument (bounded by num_left); the code validates left against num_left
                if let Some(x) = id_violation(src, "leftId", *l, nl, nr, src) { v.push(x); }
                if let Some(x) = id_violation(src, "rightId", *r, nr, nl, src) { v.push(x); }
                if *c < -32768 || *c > 32767 {
                    v.push(Violation { src, field: "cost", class: "cost-range", what: format!("{} cost {} does not fit i16", src, c) });
                }
            }
            Prov::Mecab { lines, mode } => {
                for ln in lines {
                    if let Some((_, l, r, c, pos)) = &ln.parsed {
                        pos_req(&mut v, "unkdef", pos, mode);
                        if let Some(x) = id_violation("unkdef", "leftId", *l, nl, nr, "unk.def") { v.push(x); }
                        if let Some(x) = id_violation("unkdef", "rightId", *r, nr, nl, "unk.def") { v.push(x); }
                        if *c < -32768 || *c > 32767 {
                            v.push(Violation { src: "unkdef", field: "cost", class: "cost-range", what: format!("unk.def cost {} does not fit i16", c) });
                        }
                    }
                }
            }
        }
    }
    v
}

// ---------------------------------------------------------------------------------------------
// generation

fn pos_vec(p: &[String; 6]) -> Vec<String> { p.to_vec() }
fn new_pos(i: usize) -> Vec<String> { NEW_POS[i % NEW_POS.len()].iter().map(|s| s.to_string()).collect() }

fn valid_line(cat: &str, l: i64, r: i64, c: i64, pos: &[String]) -> UnkLine {
    UnkLine { raw: format!("{},{},{},{},{}", cat, l, r, c, pos.join(",")), parsed: Some((cat.to_string(), l, r, c, pos.to_vec())) }
}

/// lines that make the MeCab provider cover every probe category with valid parameters
fn base_unk(pos: &[String]) -> Vec<UnkLine> {
    PROBE_CATS.iter().map(|(c, _)| valid_line(c, 0, 0, 100, pos)).collect()
}

struct Gen<'a> { rng: &'a mut Rng, nl: usize, nr: usize, chaos: usize, dict_pos: Vec<[String; 6]> }

impl<'a> Gen<'a> {
    fn id(&mut self, n: usize) -> i64 {
        if self.rng.below(100) < self.chaos { *self.rng.pick(&boundary_vals(n)) } else { self.rng.below(n) as i64 }
    }
    fn cost(&mut self) -> i64 {
        if self.rng.below(100) < self.chaos {
            *self.rng.pick(&[-32769i64, -32768, -1, 0, 32767, 32768, 65535, 65536, -65536])
        } else { self.rng.below(3000) as i64 - 500 }
    }
    fn pos(&mut self) -> Vec<String> {
        let k = self.rng.below(100);
        if k < 70 { pos_vec(&self.dict_pos[self.rng.below(self.dict_pos.len())].clone()) }
        else if k < 92 { new_pos(self.rng.below(3)) }
        else if k < 96 { let mut p = pos_vec(&self.dict_pos[0].clone()); p.pop(); p }
        else { let mut p = new_pos(0); p.push("*".into()); p }
    }
    fn mode(&mut self) -> UMode { match self.rng.below(3) { 0 => UMode::Allow, 1 => UMode::Forbid, _ => UMode::Default } }
    fn prov(&mut self) -> Prov {
        match self.rng.below(3) {
            0 => Prov::Simple { pos: self.pos(), l: self.id(self.nl), r: self.id(self.nr), c: self.cost(), mode: self.mode() },
            1 => Prov::Regex { pos: self.pos(), l: self.id(self.nl), r: self.id(self.nr), c: self.cost(), mode: self.mode(), alias: self.rng.chance(1, 2) },
            _ => {
                let n = self.rng.range(1, 6);
                let mut lines = vec![];
                for _ in 0..n {
                    let k = self.rng.below(100);
                    if k < 6 { lines.push(UnkLine { raw: (*self.rng.pick(&["# comment", "", "   ", "#DEFAULT,0,0,0"])).to_string(), parsed: None }); continue; }
                    let cat = if k < 9 { "GREEK" } else if k < 11 { "FOO" } else { self.rng.pick(PROBE_CATS).0 };
                    let (l, r, c, pos) = (self.id(self.nl), self.id(self.nr), self.cost(), self.pos());
                    // cols[4..10] is the POS: a seventh component is ignored, a missing one makes the line too short
                    let mut ln = UnkLine {
                        raw: format!("{},{},{},{},{}", cat, l, r, c, pos.join(",")),
                        parsed: if pos.len() >= 6 { Some((cat.to_string(), l, r, c, pos[..6].to_vec())) } else { None },
                    };
                    if self.rng.chance(1, 40) {
                        // too few columns: the shape is rejected before any value is looked at
                        ln = UnkLine { raw: format!("{},{},{},{},{}", cat, l, r, c, pos[..pos.len().min(4)].join(",")), parsed: None };
                    } else if self.rng.chance(1, 30) && pos.len() == 6 {
                        ln.raw.push_str(",extra");
                    } else if self.rng.chance(1, 30) {
                        ln.raw = format!("  {}  ", ln.raw);
                    }
                    lines.push(ln);
                }
                Prov::Mecab { lines, mode: self.mode() }
            }
        }
    }
}

const MATRICES: &[(usize, usize)] = &[(3, 3), (1, 1), (2, 4), (4, 2)];

/// directed cases: every boundary value for every id/cost/pair member of every source, on square and
/// non-square matrices; POS present/absent x allow/forbid/default x arity for every provider
fn directed(idx: usize, rng: &mut Rng) -> Option<Spec> {
    let dict_pos = default_pos();
    let noun = pos_vec(&dict_pos[0]);
    let nvals = 9;
    let per_matrix = 4 * 3 * nvals;
    let block1 = MATRICES.len() * per_matrix;
    if idx < block1 {
        let (nl, nr) = MATRICES[idx / per_matrix];
        let k = idx % per_matrix;
        let (src, field, vi) = (k / (3 * nvals), (k / nvals) % 3, k % nvals);
        let matrix = Matrix::random(rng, nl, nr, false);
        let dim = match field { 0 => nl, 1 => nr, _ => nl };
        let val = boundary_vals(dim)[vi];
        let cval = [-32769i64, -32768, -1, 0, 32767, 32768, 65535, 65536, 1][vi];
        let (l, r, c) = match field { 0 => (val, 0, 10), 1 => (0, val, 10), _ => (0, 0, cval) };
        let mut spec = Spec { nl, nr, matrix, inh: vec![], provs: vec![], user_pos: vec![], tag: format!("directed:{}:{}:{}", src, field, vi) };
        match src {
            0 => spec.provs.push(Prov::Simple { pos: noun.clone(), l, r, c, mode: UMode::Default }),
            1 => spec.provs.push(Prov::Regex { pos: noun.clone(), l, r, c, mode: UMode::Default, alias: vi % 2 == 0 }),
            2 => {
                let mut lines = base_unk(&noun);
                lines.insert(1 + vi % 3, valid_line(PROBE_CATS[vi % 6].0, l, r, c, &noun));
                spec.provs.push(Prov::Mecab { lines, mode: UMode::Default });
            }
            _ => {
                // inhibit pairs: member 0, member 1, both
                let other0 = rng.below(nl) as i64;
                let other1 = rng.below(nr) as i64;
                let pair = match field { 0 => (boundary_vals(nl)[vi], other1), 1 => (other0, boundary_vals(nr)[vi]), _ => (boundary_vals(nl)[vi], boundary_vals(nr)[vi]) };
                let mut pairs = vec![(rng.below(nl) as i64, rng.below(nr) as i64)];
                pairs.push(pair);
                spec.inh.push(pairs);
                spec.provs.push(Prov::Simple { pos: noun.clone(), l: 0, r: 0, c: 10, mode: UMode::Default });
            }
        }
        return Some(spec);
    }
    let k = idx - block1;
    // POS: kind(3) x which pos(4: existing, new, arity 5, arity 7) x mode(3)
    if k < 36 {
        let (kind, which, m) = (k / 12, (k / 3) % 4, k % 3);
        let pos = match which { 0 => pos_vec(&dict_pos[2]), 1 => new_pos(0), 2 => { let mut p = noun.clone(); p.pop(); p }, _ => { let mut p = new_pos(1); p.push("*".into()); p } };
        let mode = match m { 0 => UMode::Allow, 1 => UMode::Forbid, _ => UMode::Default };
        let (nl, nr) = (3, 3);
        let mut spec = Spec { nl, nr, matrix: Matrix::random(rng, nl, nr, false), inh: vec![], provs: vec![], user_pos: vec![], tag: format!("directed:pos:{}:{}:{}", kind, which, m) };
        match kind {
            0 => spec.provs.push(Prov::Simple { pos, l: 1, r: 2, c: -5, mode }),
            1 => spec.provs.push(Prov::Regex { pos, l: 1, r: 2, c: -5, mode, alias: which % 2 == 0 }),
            _ => {
                let mut lines = base_unk(&noun);
                let raw = format!("KANJI,1,2,-5,{}", pos.join(","));
                lines.push(UnkLine { raw, parsed: if pos.len() >= 6 { Some(("KANJI".into(), 1, 2, -5, pos[..6].to_vec())) } else { None } });
                spec.provs.push(Prov::Mecab { lines, mode });
            }
        }
        return Some(spec);
    }
    let k = k - 36;
    // a few hand-written stacks
    let (nl, nr) = (3, 3);
    let base = |rng: &mut Rng, tag: &str| Spec { nl, nr, matrix: Matrix::random(rng, nl, nr, false), inh: vec![], provs: vec![], user_pos: vec![], tag: tag.to_string() };
    match k {
        0 => { // no OOV provider at all
            Some(base(rng, "directed:no-oov"))
        }
        1 => { // the same new POS registered by two providers: one id
            let mut s = base(rng, "directed:same-new-pos-twice");
            s.provs.push(Prov::Simple { pos: new_pos(0), l: 0, r: 0, c: 0, mode: UMode::Allow });
            s.provs.push(Prov::Regex { pos: new_pos(0), l: 1, r: 1, c: 1, mode: UMode::Forbid, alias: false });
            s.provs.push(Prov::Mecab { lines: vec![valid_line("KANJI", 2, 2, 2, &new_pos(0)), valid_line("KANJI", 1, 2, 3, &new_pos(1))], mode: UMode::Allow });
            Some(s)
        }
        2 => { // inhibit error wins over a later OOV error; pairs of two plugins applied in order
            let mut s = base(rng, "directed:two-inhibit");
            s.inh.push(vec![(0, 1), (2, 2)]);
            s.inh.push(vec![(1, 0)]);
            s.provs.push(Prov::Simple { pos: noun.clone(), l: 2, r: 2, c: 7, mode: UMode::Default });
            Some(s)
        }
        3 => { // pair that does not fit i16 together with an invalid provider: serde error comes first
            let mut s = base(rng, "directed:inhibit-serde-first");
            s.inh.push(vec![(0, 40000)]);
            s.provs.push(Prov::Simple { pos: new_pos(0), l: 2, r: 2, c: 7, mode: UMode::Forbid });
            Some(s)
        }
        4 => { // out-of-range pair is only looked at after the providers were set up
            let mut s = base(rng, "directed:inhibit-oob-after-oov-error");
            s.inh.push(vec![(3, 0)]);
            s.provs.push(Prov::Simple { pos: noun.clone(), l: 7, r: 2, c: 7, mode: UMode::Default });
            Some(s)
        }
        5 => { // DESIGN §2.7 D16 witness on a 10x10 matrix
            let mut s = Spec { nl: 10, nr: 10, matrix: Matrix::random(rng, 10, 10, false), inh: vec![vec![(10, 0)]], provs: vec![], user_pos: vec![], tag: "directed:D16".into() };
            s.provs.push(Prov::Simple { pos: noun.clone(), l: 0, r: 0, c: 0, mode: UMode::Default });
            Some(s)
        }
        6 => { // DESIGN §2.3 example line: simple left=10 on 10x10
            let mut s = Spec { nl: 10, nr: 10, matrix: Matrix::random(rng, 10, 10, false), inh: vec![], provs: vec![], user_pos: vec![], tag: "directed:D15a".into() };
            s.provs.push(Prov::Simple { pos: noun.clone(), l: 10, r: 0, c: 0, mode: UMode::Default });
            Some(s)
        }
        7 => { // user dictionary POS come after the POS registered by plugins
            let mut s = base(rng, "directed:user-pos-order");
            s.provs.push(Prov::Simple { pos: new_pos(1), l: 0, r: 0, c: 0, mode: UMode::Allow });
            s.user_pos.push(vec![NEW_POS[0].map(|x| x.to_string()), NEW_POS[2].map(|x| x.to_string())]);
            Some(s)
        }
        _ => None,
    }
}

pub const N_DIRECTED: usize = 4 * 4 * 3 * 9 + 36 + 8;

fn random_spec(rng: &mut Rng) -> Spec {
    let square = rng.chance(7, 10);
    let nl = rng.range(1, 6);
    let nr = if square { nl } else { rng.range(1, 6) };
    let extreme = rng.chance(1, 4);
    let matrix = Matrix::random(rng, nl, nr, extreme);
    let chaos = match rng.below(10) { 0..=2 => 0, 3..=7 => 4, _ => 15 };
    let dict_pos = default_pos();
    let mut inh = vec![];
    let ninh = *rng.pick(&[0usize, 0, 1, 1, 2]);
    for _ in 0..ninh {
        let np = rng.below(4);
        let mut pairs = vec![];
        for _ in 0..np {
            let a = if rng.below(100) < chaos * 2 { *rng.pick(&boundary_vals(nl)) } else { rng.below(nl) as i64 };
            let b = if rng.below(100) < chaos * 2 { *rng.pick(&boundary_vals(nr)) } else { rng.below(nr) as i64 };
            pairs.push((a, b));
        }
        inh.push(pairs);
    }
    let mut g = Gen { rng, nl, nr, chaos, dict_pos };
    let np = if g.rng.chance(1, 40) { 0 } else { g.rng.range(1, 4) };
    let mut provs: Vec<Prov> = (0..np).map(|_| g.prov()).collect();
    // one injected boundary value in an otherwise tame configuration
    if chaos == 4 && !provs.is_empty() && g.rng.chance(1, 2) {
        let i = g.rng.below(provs.len());
        let bl = *g.rng.pick(&boundary_vals(nl));
        let br = *g.rng.pick(&boundary_vals(nr));
        let which = g.rng.below(2);
        match &mut provs[i] {
            Prov::Simple { l, r, .. } | Prov::Regex { l, r, .. } => { if which == 0 { *l = bl } else { *r = br } }
            Prov::Mecab { lines, .. } => {
                let noun = pos_vec(&g.dict_pos[0]);
                let cat = g.rng.pick(PROBE_CATS).0;
                lines.push(if which == 0 { valid_line(cat, bl, 0, 5, &noun) } else { valid_line(cat, 0, br, 5, &noun) });
            }
        }
    }
    let mut user_pos = vec![];
    if g.rng.chance(1, 6) {
        let nu = g.rng.range(1, 2);
        for _ in 0..nu {
            let k = g.rng.range(1, 2);
            user_pos.push((0..k).map(|_| NEW_POS[g.rng.below(3)].map(|x| x.to_string())).collect());
        }
    }
    Spec { nl, nr, matrix, inh, provs, user_pos, tag: format!("random:chaos{}", chaos) }
}

// ---------------------------------------------------------------------------------------------
// running the real code

fn json_str_list(v: &[String]) -> String {
    format!("[{}]", v.iter().map(|s| serde_json::to_string(s).unwrap()).collect::<Vec<_>>().join(","))
}

fn err_kind(e: &SudachiError) -> String {
    match e {
        SudachiError::ErrWithContext { cause, .. } => err_kind(cause),
        other => format!("{:?}", other).chars().take_while(|c| c.is_alphanumeric()).collect(),
    }
}

fn lexicon_rows(rng: &mut Rng, n: usize) -> Vec<Row> {
    let words = ["あ", "い", "う", "ア", "東京", "京"];
    words.iter().enumerate().map(|(p, w)| Row::simple(w, rng.below(n) as i32, rng.below(n) as i32, rng.below(2000) as i32 - 200, p)).collect()
}

fn variant_flags() -> String {
    let dir = crate::c07::repo_sudachi_dir();
    let read = |p: &str| std::fs::read_to_string(format!("{}/src/{}", dir, p)).unwrap_or_default();
    let cp = read("util/check_params.rs");
    let mc = read("plugin/oov/mecab_oov/mod.rs");
    let ic = read("plugin/connect_cost/inhibit_connection.rs");
    let json_ge = cp.contains("ux >= self.conn_matrix().num_left()") && cp.contains("ux >= self.conn_matrix().num_right()");
    let unk_ge = mc.contains("as usize >= grammar.conn_matrix().num_left()") && mc.contains("as usize >= grammar.conn_matrix().num_right()");
    let inh_checked = ic.contains("num_left()") && ic.contains("num_right()");
    let b = |x: bool| if x { '1' } else { '0' };
    format!("{}{}{}{}", b(json_ge), b(unk_ge), b(inh_checked), b(cfg!(debug_assertions)))
}

fn hex_pos<S: AsRef<str>>(p: &[S]) -> String {
    hex(p.iter().map(|s| s.as_ref()).collect::<Vec<_>>().join(",").as_bytes())
}

fn node_tuple(n: &Node) -> String {
    format!("{}:{}:{}:{}", n.left_id(), n.right_id(), n.cost(), n.word_id().word())
}

struct Ctx { wd: Workdir, variant: String }

/// human-readable form of a configuration (for the evidence file)
fn describe(spec: &Spec) -> String {
    let m = |m: &UMode| match m { UMode::Allow => "allow", UMode::Forbid => "forbid", UMode::Default => "-" };
    let mut parts = vec![format!("{}x{}", spec.nl, spec.nr)];
    for pairs in &spec.inh { parts.push(format!("Inhibit{:?}", pairs)); }
    for p in &spec.provs {
        parts.push(match p {
            Prov::Simple { pos, l, r, c, mode } => format!("Simple(l={},r={},c={},pos={},userPOS={})", l, r, c, pos.join("/"), m(mode)),
            Prov::Regex { pos, l, r, c, mode, .. } => format!("Regex(l={},r={},c={},pos={},userPOS={})", l, r, c, pos.join("/"), m(mode)),
            Prov::Mecab { lines, mode } => format!("MeCab([{}],userPOS={})", lines.iter().map(|l| l.raw.trim().to_string()).collect::<Vec<_>>().join(" | "), m(mode)),
        });
    }
    for u in &spec.user_pos { parts.push(format!("UserDict({} POS)", u.len())); }
    parts.join(" ")
}

fn note_example(run: &mut Run, idx: usize, spec: &Spec, answer: &str) {
    let key = format!("{}|{}", spec.tag.split(':').take(2).collect::<Vec<_>>().join(":"), answer.split(' ').next().unwrap_or(""));
    let seen = run.extra.entry("examples_seen".into()).or_insert_with(|| serde_json::json!([]));
    let arr = seen.as_array_mut().unwrap();
    if arr.len() >= 40 || arr.iter().any(|x| x == &serde_json::json!(key)) { return; }
    arr.push(serde_json::json!(key));
    let mut a = answer.to_string();
    if a.len() > 160 { a.truncate(160); a.push_str("..."); }
    let ex = run.extra.entry("examples".into()).or_insert_with(|| serde_json::json!([]));
    ex.as_array_mut().unwrap().push(serde_json::json!(format!("idx={} [{}] {} => {}", idx, spec.tag, describe(spec), a)));
}

fn run_load(run: &mut Run, ctx: &Ctx, idx: usize, rng: &mut Rng, spec: &Spec) {
    let dict_pos = default_pos();
    let (nl, nr) = (spec.nl, spec.nr);
    // --- the dictionary: fixed small lexicon whose ids index both dimensions
    let rows = lexicon_rows(rng, nl.min(nr));
    let csv = csv_of(&rows, &dict_pos);
    let system = match build_system(csv.as_bytes(), spec.matrix.text().as_bytes()) {
        Ok(b) => b,
        Err(e) => { run.bump(&format!("dict-build-failed:{}", e.chars().take(30).collect::<String>())); return; }
    };
    // --- user dictionaries with their own POS (built against a benign load of the same system dictionary)
    let mut users = vec![];
    if !spec.user_pos.is_empty() {
        ctx.wd.write("char.def", CHAR_DEF);
        let cfg0 = config_json(&ctx.wd, &[], &[simple_oov_json(0, 0, 0)], &[], &[]);
        let sysdic = match load(&cfg0, system.clone(), vec![]) { Ok(d) => d, Err(e) => { run.bump(&format!("benign-load-failed:{}", e.chars().take(30).collect::<String>())); return; } };
        for (u, plist) in spec.user_pos.iter().enumerate() {
            let mut upos = dict_pos.clone();
            let mut urows = vec![];
            for (j, p) in plist.iter().enumerate() {
                upos.push(p.clone());
                urows.push(Row::simple(&format!("ゆ{}{}", u, j), 0, 0, 50, upos.len() - 1));
            }
            match build_user(&sysdic, csv_of(&urows, &upos).as_bytes()) {
                Ok(b) => users.push(b),
                Err(e) => { run.bump(&format!("user-build-failed:{}", e.chars().take(30).collect::<String>())); return; }
            }
        }
    }
    // the POS list a user dictionary stores: its rows' POS that the system does not have, first use first
    let user_pos_wire: Vec<Vec<Vec<String>>> = spec.user_pos.iter().map(|pl| {
        let mut seen: Vec<Vec<String>> = vec![];
        for p in pl { let v = p.to_vec(); if !seen.contains(&v) { seen.push(v); } }
        seen
    }).collect();

    // --- configuration files
    ctx.wd.write("char.def", CHAR_DEF);
    let mut oov_json = vec![];
    let mut oov_wire = vec![];
    for (i, p) in spec.provs.iter().enumerate() {
        match p {
            Prov::Simple { pos, l, r, c, mode } => {
                oov_json.push(format!(r#"{{"class":"com.worksap.nlp.sudachi.SimpleOovPlugin","oovPOS":{},"leftId":{},"rightId":{},"cost":{}{}}}"#, json_str_list(pos), l, r, c, mode.json()));
                oov_wire.push(format!("S:{}:{}:{}:{}:{}", hex_pos(pos), l, r, c, mode.wire()));
            }
            Prov::Regex { pos, l, r, c, mode, alias } => {
                oov_json.push(format!(r#"{{"class":"com.worksap.nlp.sudachi.RegexOovProvider","{}":{},"leftId":{},"rightId":{},"cost":{},"regex":"."{}}}"#,
                    if *alias { "oovPOS" } else { "pos" }, json_str_list(pos), l, r, c, mode.json()));
                oov_wire.push(format!("R:{}:{}:{}:{}:{}", hex_pos(pos), l, r, c, mode.wire()));
            }
            Prov::Mecab { lines, mode } => {
                let name = format!("unk{}.def", i);
                let mut text = String::new();
                for (j, ln) in lines.iter().enumerate() {
                    text.push_str(&ln.raw);
                    text.push_str(if j % 5 == 4 { "\r\n" } else { "\n" });
                }
                ctx.wd.write(&name, &text);
                oov_json.push(format!(r#"{{"class":"com.worksap.nlp.sudachi.MeCabOovPlugin","charDef":"char.def","unkDef":"{}"{}}}"#, name, mode.json()));
                oov_wire.push(format!("M:{}:{}", hex(text.as_bytes()), mode.wire()));
            }
        }
    }
    let inh_json: Vec<String> = spec.inh.iter().map(|pairs| {
        format!(r#"{{"class":"com.worksap.nlp.sudachi.InhibitConnectionPlugin","inhibitPair":[{}]}}"#,
            pairs.iter().map(|(a, b)| format!("[{},{}]", a, b)).collect::<Vec<_>>().join(","))
    }).collect();
    let inh_wire: Vec<String> = spec.inh.iter().map(|pairs| format!("I{}", pairs.iter().map(|(a, b)| format!("{}:{}", a, b)).collect::<Vec<_>>().join(","))).collect();
    let cfg_json = config_json(&ctx.wd, &[], &oov_json, &[], &inh_json);

    let payload = format!("v={} nl={} nr={} conn={} inh={} oov={} upos={} pos={} cdef={}",
        ctx.variant, nl, nr, join(spec.matrix.cells.iter(), ","),
        inh_wire.join(";"), oov_wire.join(";"),
        user_pos_wire.iter().map(|pl| pl.iter().map(|p| hex_pos(p)).collect::<Vec<_>>().join(";")).collect::<Vec<_>>().join("|"),
        dict_pos.iter().map(|p| hex_pos(p)).collect::<Vec<_>>().join(";"),
        hex(CHAR_DEF.as_bytes()));

    let viol = violations(spec, &dict_pos);
    run.bump(&format!("tag:{}", spec.tag.split(':').take(2).collect::<Vec<_>>().join(":")));
    run.bump(if nl == nr { "matrix:square" } else { "matrix:non-square" });
    for p in &spec.provs {
        run.bump(match p { Prov::Simple { .. } => "provider:simple", Prov::Regex { .. } => "provider:regex", Prov::Mecab { .. } => "provider:mecab" });
    }
    if !spec.inh.is_empty() { run.bump("provider:inhibit"); }
    for x in &viol { run.bump(&format!("requirement-violated:{}", x.key())); }

    // --- the real loader
    let res = catch(|| -> Result<JapaneseDictionary, SudachiError> {
        let cfg = ConfigBuilder::from_bytes(cfg_json.as_bytes()).expect("config json").build();
        let mut data = SudachiDicData::new(Storage::Owned(system.clone()));
        for u in &users { data.add_user(Storage::Owned(u.clone())); }
        JapaneseDictionary::from_cfg_storage(&cfg, data)
    });
    let nontrivial = !viol.is_empty() || spec.provs.len() + spec.inh.len() > 1;
    match res {
        Err(p) => {
            run.bump("outcome:PANIC");
            run.case(idx, "load", &payload, "PANIC", nontrivial);
            note_example(run, idx, spec, "PANIC");
            let cause = viol.iter().find(|x| x.src == "inhibit");
            match cause {
                Some(x) => run.fail(idx, &format!("c20:load-panic:{}", x.key()), &format!("from_cfg_storage panicked ({}): {} [{}]", p.chars().take(80).collect::<String>(), x.what, spec.tag)),
                None => run.fail(idx, "c20:load-panic:unexplained", &format!("from_cfg_storage panicked: {} [{}]", p.chars().take(120).collect::<String>(), spec.tag)),
            }
        }
        Ok(Err(e)) => {
            let k = err_kind(&e);
            run.bump(&format!("outcome:err:{}", k));
            run.case(idx, "load", &payload, &format!("err:{}", k), nontrivial);
            note_example(run, idx, spec, &format!("err:{}", k));
            if viol.is_empty() && !spec.provs.is_empty() { run.bump("rejected-without-violated-requirement"); }
        }
        Ok(Ok(dic)) => {
            run.bump("outcome:ok");
            // final POS list
            let pl = &dic.grammar().pos_list;
            let newpos: Vec<String> = pl.iter().skip(dict_pos.len()).map(|p| hex_pos(p)).collect();
            // parameters attached by every provider, through the public trait
            let ib = catch(|| { let mut ib = InputBuffer::from(PROBE); ib.build(dic.grammar()).expect("build"); ib });
            let mut prov_out = vec![];
            let mut pos_checks: Vec<(Option<usize>, Vec<String>)> = vec![];
            if let Ok(ib) = &ib {
                for (i, p) in spec.provs.iter().enumerate() {
                    let plugin = &dic.oov_provider_plugins()[i];
                    let mut ask = |off: usize| -> Vec<String> {
                        let mut nodes: Vec<Node> = vec![];
                        match catch(|| plugin.provide_oov(ib, off, CreatedWords::empty(), &mut nodes)) {
                            Ok(Ok(_)) => nodes.iter().map(node_tuple).collect(),
                            Ok(Err(_)) => vec!["E".to_string()],
                            Err(_) => vec!["P".to_string()],
                        }
                    };
                    let pid_of = |t: &String| -> Option<usize> { t.rsplit(':').next().and_then(|x| x.parse().ok()) };
                    match p {
                        Prov::Simple { pos, .. } | Prov::Regex { pos, .. } => {
                            let ns = ask(0);
                            for t in &ns { pos_checks.push((pid_of(t), pos.clone())); }
                            prov_out.push(format!("{}:{}", if matches!(p, Prov::Simple { .. }) { "S" } else { "R" }, ns.join("+")));
                        }
                        Prov::Mecab { lines, .. } => {
                            let mut parts = vec![];
                            for (off, (cname, bit)) in PROBE_CATS.iter().enumerate() {
                                let ns = ask(off);
                                let want: Vec<&Vec<String>> = lines.iter().filter_map(|l| l.parsed.as_ref()).filter(|x| x.0 == *cname).map(|x| &x.4).collect();
                                if want.len() == ns.len() {
                                    for (t, w) in ns.iter().zip(want) { pos_checks.push((pid_of(t), w.clone())); }
                                } else {
                                    run.fail(idx, "c20:unkdef:node-count", &format!("category {}: {} nodes for {} unk.def lines [{}]", cname, ns.len(), want.len(), spec.tag));
                                }
                                if !ns.is_empty() { parts.push(format!("{}={}", bit, ns.join("+"))); }
                            }
                            prov_out.push(format!("M:{}", parts.join(",")));
                        }
                    }
                }
            } else {
                prov_out.push("input-buffer-panic".into());
            }
            // the matrix after the edits
            let cm = dic.grammar().conn_matrix();
            let mut cells: Vec<i64> = vec![];
            let dump = catch(|| { let mut v = vec![]; for r in 0..nr { for l in 0..nl { v.push(cm.cost(l as u16, r as u16) as i64); } } v });
            let dims_ok = cm.num_left() == nl && cm.num_right() == nr;
            if let Ok(v) = &dump { cells = v.clone(); }
            let ans = format!("ok npos={} new={} prov={} conn={}", pl.len(), newpos.join(";"), prov_out.join(";"), join(cells.iter(), ","));
            run.case(idx, "load", &payload, &ans, nontrivial);
            note_example(run, idx, spec, &ans);

            // ---- oracle 1: accepted although a requirement of the property is violated
            for x in &viol {
                run.fail(idx, &format!("c20:accepted:{}", x.key()), &format!("configuration accepted although {} [{}]", x.what, spec.tag));
            }
            // ---- oracle 2: inhibited pairs change exactly their own cells
            if dump.is_err() || !dims_ok {
                run.fail(idx, "c20:matrix:dump", "matrix of the loaded dictionary cannot be read back in its own range");
            } else {
                let mut want: Vec<i64> = spec.matrix.cells.iter().map(|&c| c as i64).collect();
                for pairs in &spec.inh { for (a, b) in pairs {
                    if *a >= 0 && (*a as usize) < nl && *b >= 0 && (*b as usize) < nr { want[*b as usize * nl + *a as usize] = 32767; }
                } }
                if want != cells {
                    let diff: Vec<String> = (0..want.len()).filter(|&i| want[i] != cells[i]).map(|i| format!("({},{}): {} want {}", i % nl, i / nl, cells[i], want[i])).collect();
                    let k = if viol.iter().any(|x| x.src == "inhibit") { "c20:wrong-cell:inhibit:out-of-range-pair" } else { "c20:wrong-cell:in-range-pairs" };
                    run.fail(idx, k, &format!("matrix after load differs from 'exactly the inhibited cells are 32767': {} [{}]", diff.join("; "), spec.tag));
                }
            }
            // ---- oracle 3: every POS a provider was given resolves to an entry of the final POS list that
            // equals it (existing -> its id, absent + allow -> the appended id); nothing already present
            // is registered a second time (the violations above cover 'forbid')
            let plugin_part = pl.len() - user_pos_wire.iter().map(|x| x.len()).sum::<usize>();
            for (pid, want) in &pos_checks {
                let ok = match pid { Some(i) if *i < pl.len() => pl[*i] == *want, _ => false };
                if !ok {
                    run.fail(idx, "c20:pos:wrong-id", &format!("POS {} of a provider resolves to id {:?} = {:?} [{}]", want.join(","), pid, pid.and_then(|i| pl.get(i)), spec.tag));
                    break;
                }
            }
            for i in dict_pos.len()..plugin_part.min(pl.len()) {
                if pl[..i].contains(&pl[i]) {
                    run.fail(idx, "c20:pos:duplicate-registered", &format!("POS {} registered although already present [{}]", pl[i].join(","), spec.tag));
                    break;
                }
            }
            // ---- oracle 4: analysis never indexes outside the matrix
            let mut fired = false;
            let bad_ids = viol.iter().any(|x| x.field == "leftId" || x.field == "rightId");
            if !cfg!(debug_assertions) && bad_ids {
                // release build: the read outside the matrix is undefined behaviour, it cannot be observed safely
                run.bump("analysis:skipped-in-release(accepted-bad-id)");
            }
            for text in TEXTS {
                if !cfg!(debug_assertions) && bad_ids { break; }
                let r = catch(|| {
                    let mut tok = StatefulTokenizer::new(&dic, Mode::C);
                    tok.reset().push_str(text);
                    let r = tok.do_tokenize();
                    let rows = tok.verif_lattice().verif_rows();
                    (r.is_ok(), rows)
                });
                match r {
                    Err(p) => {
                        run.bump("analysis:PANIC");
                        let idv = viol.iter().find(|x| x.field == "leftId" || x.field == "rightId");
                        match idv {
                            Some(x) => run.fail(idx, &format!("c20:analysis:{}", x.key()), &format!("tokenising {:?} with the accepted configuration panicked ({}); {} [{}]", text, p.chars().take(80).collect::<String>(), x.what, spec.tag)),
                            None => run.fail(idx, "c20:analysis:unexplained", &format!("tokenising {:?} with the accepted configuration panicked: {} [{}]", text, p.chars().take(120).collect::<String>(), spec.tag)),
                        }
                        fired = true;
                        break;
                    }
                    Ok((ok, rows)) => {
                        run.bump(if ok { "analysis:ok" } else { "analysis:err" });
                        // every node of the lattice carries ids inside the matrix (what a release build would read)
                        for row in &rows { for &(_, _, l, r_, _, raw, _, _, _) in row {
                            if (l as usize) >= nr || (r_ as usize) >= nl {
                                let idv = viol.iter().find(|x| x.field == "leftId" || x.field == "rightId");
                                let k = idv.map(|x| x.key()).unwrap_or_else(|| "unexplained".into());
                                run.fail(idx, &format!("c20:analysis:{}", k), &format!("lattice of {:?} holds a node (word id {:#x}) with left {} right {} outside the {}x{} matrix [{}]", text, raw, l, r_, nl, nr, spec.tag));
                                fired = true;
                            }
                        } }
                    }
                }
            }
            if viol.iter().any(|x| x.field == "leftId" || x.field == "rightId") && !fired { run.bump("bad-id-accepted-but-not-exercised-by-texts"); }
        }
    }
}

fn run_lat(run: &mut Run, idx: usize, rng: &mut Rng) {
    let nl = rng.range(1, 5);
    let nr = if rng.chance(2, 3) { nl } else { rng.range(1, 5) };
    let len = rng.range(1, 5);
    let wild = rng.chance(1, 3);
    let n = rng.range(0, 8);
    let mut nodes: Vec<(usize, usize, usize, usize)> = vec![];
    for _ in 0..n {
        let b = rng.below(len);
        let e = if wild && rng.chance(1, 12) { len + 1 } else { rng.range(b + 1, len) };
        let left = if wild && rng.chance(1, 6) { *rng.pick(&[nr, nr + 1, nl, 65535]) } else { rng.below(nr) };
        let right = if wild && rng.chance(1, 6) { *rng.pick(&[nl, nl + 1, nr, 65535]) } else { rng.below(nl) };
        nodes.push((b, e, left, right));
    }
    nodes.sort_by_key(|x| x.0);
    let payload = format!("dbg={} nl={} nr={} ncell={} len={} nodes={}", if cfg!(debug_assertions) { 1 } else { 0 }, nl, nr, nl * nr, len,
        nodes.iter().map(|x| format!("{}:{}:{}:{}", x.0, x.1, x.2, x.3)).collect::<Vec<_>>().join(","));
    if !cfg!(debug_assertions) && !nodes.iter().all(|x| x.2 < nr && x.3 < nl) {
        // release build: ConnectionMatrix::cost would read out of bounds (undefined behaviour); not executed
        run.bump("lat:skipped-in-release");
        return;
    }
    let data = vec![0u8; nl * nr * 2];
    let res = catch(|| {
        let conn = ConnectionMatrix::from_offset_size(&data, 0, nl, nr).expect("matrix");
        let mut lat = Lattice::default();
        lat.reset(len);
        for &(b, e, l, r) in &nodes {
            lat.insert(Node::new(b as u16, e as u16, l as u16, r as u16, 0, WordId::new(0, 1)), &conn);
        }
        lat.connect_eos(&conn).is_ok()
    });
    let in_range = nodes.iter().all(|x| x.1 <= len && x.2 < nr && x.3 < nl);
    run.bump(if in_range { "lat:in-range" } else { "lat:out-of-range" });
    match res {
        Err(p) => {
            run.bump("lat:PANIC");
            run.case(idx, "lat", &payload, "PANIC", true);
            if in_range {
                run.fail(idx, "c20:lat:in-range-panic", &format!("lattice over nodes whose ids all index the matrix panicked: {}", p.chars().take(100).collect::<String>()));
            }
        }
        Ok(true) => { run.bump("lat:ok"); run.case(idx, "lat", &payload, "ok", n > 1); }
        Ok(false) => { run.bump("lat:disconnect"); run.case(idx, "lat", &payload, "err:Disconnect", n > 1); }
    }
}

pub fn run(run: &mut Run) {
    run.rule = "load: directed = every value of {-1,0,n-1,n,n+1,32767,32768,65535,65536} for leftId/rightId/cost of Simple, Regex, one unk.def line \
and both members of an inhibit pair on 3x3, 1x1, 2x4, 4x2 matrices; POS existing/new/arity 5/arity 7 x allow/forbid/default x provider; hand-written stacks \
(no provider, same new POS twice, two inhibit plugins, error precedence, D15a/D16 witnesses, user-dictionary POS order); random = stacks of 0-4 providers and 0-2 \
inhibit plugins over 1..6 x 1..6 matrices with 0/4/15 % boundary values, optional user dictionaries. Every accepted configuration tokenises three texts that \
make every provider fire. lat: real Lattice + ConnectionMatrix over random candidate nodes (ids in and out of range). non-trivial = a requirement is violated \
or more than one plugin is configured; distinct by payload".into();
    let ctx = Ctx { wd: Workdir::new("c20"), variant: variant_flags() };
    run.extra.insert("variant".into(), serde_json::json!(ctx.variant));
    let n = run.opts.count;
    // one case in five beyond the directed block is a lattice case
    for idx in 0..n {
        if !run.wants(idx) { continue; }
        let mut rng = Rng::for_case(run.opts.seed, idx);
        if idx < N_DIRECTED {
            if let Some(spec) = directed(idx, &mut rng) { run_load(run, &ctx, idx, &mut rng, &spec); }
        } else if idx % 5 == 4 {
            run_lat(run, idx, &mut rng);
        } else {
            let spec = random_spec(&mut rng);
            run_load(run, &ctx, idx, &mut rng, &spec);
        }
    }
    run.extra.remove("examples_seen");
}
