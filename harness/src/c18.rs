//! C18: one loaded dictionary shared by concurrent tokenizers.  Every session runs in a fresh child
//! process so that the first use of every lazily initialised static races between the threads.
use crate::c01::world_for;
use crate::common::*;
use crate::dict::*;
use crate::world::*;
use std::collections::HashMap;
use std::process::Command;
use std::sync::atomic::{AtomicUsize, Ordering};
use std::sync::{Barrier, Mutex};
use sudachi::analysis::stateful_tokenizer::StatefulTokenizer;
use sudachi::analysis::Mode;
use sudachi::dic::dictionary::JapaneseDictionary;
use sudachi::prelude::*;
use sudachi::sentence_splitter::{SentenceSplitter, SplitSentences};

fn assert_send_sync<T: Send + Sync>() {}

/// repetitions of every thread's operation list after the recorded first round
const ROUNDS: usize = 40;

#[derive(Clone)]
enum Op {
    Tok(String, Mode),
    Sent(String),
}

fn perform<'a>(dic: &'a JapaneseDictionary, tok: &mut StatefulTokenizer<&'a JapaneseDictionary>, ml: &mut MorphemeList<&'a JapaneseDictionary>, op: &Op) -> String {
    let r = catch(|| match op {
        Op::Tok(text, mode) => {
            tok.set_mode(*mode);
            tok.reset().push_str(text);
            match tok.do_tokenize() {
                Err(e) => format!("err:{}", err_class(&e)),
                Ok(()) => {
                    if ml.collect_results(tok).is_err() { return "err:collect".to_string(); }
                    let mut s = String::new();
                    for m in ml.iter() {
                        s.push_str(&format!("{}:{}:{}:{}:{}:{}:{}|", m.begin(), m.end(), m.word_id().as_raw(), m.part_of_speech().join(","), m.normalized_form(), m.dictionary_form(), m.total_cost()));
                    }
                    s
                }
            }
        }
        Op::Sent(text) => {
            let sp = SentenceSplitter::new().with_checker(dic.lexicon());
            sp.split(text).map(|(r, _)| format!("{}-{}", r.start, r.end)).collect::<Vec<_>>().join(",")
        }
    });
    r.unwrap_or_else(|p| format!("PANIC:{}", p.chars().take(60).collect::<String>()))
}

fn fingerprint(w: &World) -> u64 {
    let dic = &w.dic;
    let mut h: u64 = 0xcbf29ce484222325;
    let mut feed = |s: &str| { for b in s.bytes() { h ^= b as u64; h = h.wrapping_mul(0x100000001b3); } h ^= 0xff; h = h.wrapping_mul(0x100000001b3); };
    for p in dic.grammar().pos_list.iter() { feed(&p.join(",")); }
    let cm = dic.grammar().conn_matrix();
    for b in 0..cm.num_right() { for a in 0..cm.num_left() { feed(&cm.cost(a as u16, b as u16).to_string()); } }
    let mut sizes = vec![w.lex.rows.len()];
    for u in &w.users { sizes.push(u.len()); }
    for (d, n) in sizes.iter().enumerate() {
        for i in 0..*n {
            if let Ok(wid) = sudachi::dic::word_id::WordId::checked(d as u8, i as u32) {
                if let Ok(wi) = dic.lexicon().get_word_info(wid) {
                    feed(&format!("{}|{}|{}|{}|{}|{:?}|{:?}|{:?}", wi.surface(), wi.pos_id(), wi.normalized_form(), wi.reading_form(), wi.dictionary_form_word_id(), wi.a_unit_split(), wi.b_unit_split(), wi.synonym_group_ids()));
                }
                let p = dic.lexicon().get_word_param(wid);
                feed(&format!("{:?}", p));
            }
        }
    }
    h
}

/// one multi-threaded session (child process); prints one JSON line
pub fn child(run: &mut Run) {
    assert_send_sync::<JapaneseDictionary>();
    let idx = run.opts.only.unwrap_or(0);
    let mut rng = Rng::for_case(run.opts.seed, idx);
    let mut o = WorldOpts::default();
    o.always_fallback = idx % 5 != 4;
    let w = match world_for(run.opts.seed, "C18", idx, &o) {
        Ok(w) => w,
        Err(e) => { println!("{}", serde_json::json!({"world_error": e})); return; }
    };
    let nthreads = *rng.pick(&[2usize, 4, 8, 16]);
    let mut all_ops: Vec<Vec<Op>> = vec![];
    for _ in 0..nthreads {
        let k = rng.range(4, 14);
        let mut ops = vec![];
        for _ in 0..k {
            let t = if rng.chance(1, 10) { "あ".repeat(20000) } else { gen_text(&mut rng, &w, 16) };
            ops.push(if rng.chance(1, 5) { Op::Sent(format!("{}。{}", t.chars().take(40).collect::<String>(), gen_text(&mut rng, &w, 6))) } else { Op::Tok(t, mode_of(rng.below(3))) });
        }
        all_ops.push(ops);
    }
    let fp_before = fingerprint(&w);
    // threads share the world's dictionary by reference (scoped threads): the same object, not a clone
    let counter = AtomicUsize::new(0);
    let events: Mutex<Vec<(usize, usize, usize, String)>> = Mutex::new(vec![]);
    let barrier = Barrier::new(nthreads);
    let repeats = AtomicUsize::new(0);
    let repeats_bad: Mutex<Vec<String>> = Mutex::new(vec![]);
    let dref: &JapaneseDictionary = &w.dic;
    std::thread::scope(|sc| {
        for (t, ops) in all_ops.iter().enumerate() {
            let counter = &counter;
            let events = &events;
            let barrier = &barrier;
            let repeats = &repeats;
            let repeats_bad = &repeats_bad;
            sc.spawn(move || {
                let mut tok = StatefulTokenizer::new(dref, Mode::C);
                let mut ml = MorphemeList::empty(dref);
                barrier.wait();
                let mut first: Vec<String> = vec![];
                for (k, op) in ops.iter().enumerate() {
                    let r = perform(dref, &mut tok, &mut ml, op);
                    let seq = counter.fetch_add(1, Ordering::SeqCst);
                    first.push(r.clone());
                    events.lock().unwrap().push((seq, t, k, r));
                    if (t + k) % 3 == 0 { std::thread::yield_now(); }
                }
                // further rounds over the same operations (short texts only): a torn read of shared state needs
                // many tries to show; every repetition must give what the first round gave
                for _round in 0..ROUNDS {
                    for (k, op) in ops.iter().enumerate() {
                        if let Op::Tok(t2, _) = op { if t2.len() > 2000 { continue; } }
                        let r = perform(dref, &mut tok, &mut ml, op);
                        if r != first[k] {
                            repeats_bad.lock().unwrap().push(format!("thread {} op {}: repetition gave {:?}, first round {:?}", t, k, r.chars().take(100).collect::<String>(), first[k].chars().take(100).collect::<String>()));
                        }
                        repeats.fetch_add(1, Ordering::Relaxed);
                    }
                }
            });
        }
    });
    let fp_after = fingerprint(&w);
    // sequential baseline: every thread's operations alone, same dictionary
    let mut intern: HashMap<String, usize> = HashMap::new();
    let mut id_of = |s: &str| -> usize { let n = intern.len() + 1; *intern.entry(s.to_string()).or_insert(n) };
    let mut op_ids: Vec<Vec<usize>> = vec![];
    let mut res: Vec<(usize, usize)> = vec![];
    let mut next = 1;
    let mut base: Vec<Vec<String>> = vec![];
    for ops in &all_ops {
        let mut tok = StatefulTokenizer::new(dref, Mode::C);
        let mut ml = MorphemeList::empty(dref);
        let mut ids = vec![];
        let mut outs = vec![];
        for op in ops {
            let r = perform(dref, &mut tok, &mut ml, op);
            ids.push(next);
            res.push((next, id_of(&r)));
            outs.push(r);
            next += 1;
        }
        op_ids.push(ids);
        base.push(outs);
    }
    let mut ev = events.into_inner().unwrap();
    ev.sort_by_key(|e| e.0);
    let sched: Vec<usize> = ev.iter().map(|e| e.1).collect();
    let trace: Vec<String> = ev.iter().map(|e| format!("{}:{}", e.1, id_of(&e.3))).collect();
    let mut mism = repeats_bad.into_inner().unwrap();
    for e in &ev {
        if base[e.1][e.2] != e.3 {
            mism.push(format!("thread {} op {}: concurrent {:?} vs alone {:?}", e.1, e.2, e.3.chars().take(120).collect::<String>(), base[e.1][e.2].chars().take(120).collect::<String>()));
        }
    }
    let panics = ev.iter().filter(|e| e.3.starts_with("PANIC")).count();
    println!("{}", serde_json::json!({
        "threads": nthreads, "world": w.desc.join(" "),
        "ops": op_ids.iter().map(|v| if v.is_empty() { "-".to_string() } else { join(v.iter(), ",") }).collect::<Vec<_>>().join(";"),
        "res": res.iter().map(|(a, b)| format!("{}:{}", a, b)).collect::<Vec<_>>().join(","),
        "sched": join(sched.iter(), ","), "trace": trace.join(","),
        "fp_before": fp_before.to_string(), "fp_after": fp_after.to_string(), "mismatches": mism, "panics": panics,
        "events": ev.len(), "repetitions": repeats.load(Ordering::Relaxed),
    }));
}

pub fn run(run: &mut Run) {
    run.rule = "each case = one child process: a random world (all plugin kinds, user dictionaries), N in {2,4,8,16} threads \
started behind a barrier (first use of every lazy static races), each with its own StatefulTokenizer over the SAME dictionary \
object and a random stream of analyses (modes A/B/C, 60 KB texts, sentence splitting); the observed global order of completions \
is replayed by the scheduler model; non-trivial = at least two threads interleaved (schedule is not a concatenation of per-thread blocks); \
plus Python threads over tokenizers of one Dictionary".into();
    let exe = std::env::current_exe().unwrap();
    let n = run.opts.count;
    for idx in 0..n {
        if !run.wants(idx) { continue; }
        let outp = Command::new(&exe).arg("C18CHILD").arg("--seed").arg(run.opts.seed.to_string()).arg("--only").arg(idx.to_string()).arg("--out").arg(&run.opts.out).output();
        let line_hdr = format!("C18 session idx={}", idx);
        let outp = match outp {
            Ok(o) => o,
            Err(e) => { run.fail_with_line(idx, &line_hdr, "c18:spawn", &format!("{}", e)); continue; }
        };
        let stdout = String::from_utf8_lossy(&outp.stdout).to_string();
        let v: Option<serde_json::Value> = stdout.lines().rev().find_map(|l| serde_json::from_str(l).ok());
        let Some(v) = v.filter(|_| outp.status.success()) else {
            run.bump("outcome:child-crash");
            run.fail_with_line(idx, &line_hdr, "c18:crash", &format!("session process died: status {:?}, stderr tail {}", outp.status.code(), String::from_utf8_lossy(&outp.stderr).chars().rev().take(300).collect::<String>().chars().rev().collect::<String>()));
            continue;
        };
        if v.get("world_error").is_some() { run.bump("world-error"); continue; }
        let sched: Vec<usize> = v["sched"].as_str().unwrap_or("").split(',').filter_map(|x| x.parse().ok()).collect();
        let mut switches = 0;
        for k in 1..sched.len() { if sched[k] != sched[k - 1] { switches += 1; } }
        let threads = v["threads"].as_u64().unwrap_or(0) as usize;
        run.bump(&format!("threads:{}", threads));
        run.bump_by("events", sched.len() as u64);
        run.bump_by("repeated-analyses", v["repetitions"].as_u64().unwrap_or(0));
        run.bump_by("context-switches-observed", switches as u64);
        let payload = format!("ops={} res={} sched={}", v["ops"].as_str().unwrap_or(""), v["res"].as_str().unwrap_or(""), v["sched"].as_str().unwrap_or(""));
        let ans = format!("ok trace={}", v["trace"].as_str().unwrap_or(""));
        run.case(idx, "run", &payload, &ans, switches >= threads);
        if let Some(m) = v["mismatches"].as_array() {
            if !m.is_empty() {
                run.fail(idx, "c18:trace", &format!("{} results differ from the single-threaded run, first: {} | world {}", m.len(), m[0], v["world"]));
                continue;
            }
        }
        if v["fp_before"] != v["fp_after"] {
            run.fail(idx, "c18:dictionary-modified", &format!("dictionary fingerprint changed during the session: {} -> {}", v["fp_before"], v["fp_after"]));
            continue;
        }
        if v["panics"].as_u64().unwrap_or(0) > 0 { run.bump("sessions-with-panicking-analyses(same alone: C03)"); }
    }
    // Python threads sharing one Dictionary
    let root = std::env::var("VERIF_ROOT").unwrap_or_else(|_| "/verif".to_string());
    let pkg = format!("{}/.build/py/pkg", root);
    if std::path::Path::new(&format!("{}/sudachipy/sudachipy.so", pkg)).exists() && run.opts.only.is_none() {
        let rounds = if run.opts.thorough { 6 } else { 2 };
        for r in 0..rounds {
            let outp = Command::new("python3").arg(format!("{}/pyharness/run_threads.py", root)).arg(&pkg).arg((run.opts.seed + r as u64).to_string()).output();
            run.bump("python-thread-sessions");
            match outp {
                Ok(o) if o.status.success() && String::from_utf8_lossy(&o.stdout).contains("\"ok\": true") => { run.bump("python-thread-sessions-ok"); }
                Ok(o) => run.fail_with_line(n + r, &format!("C18 pythreads round={}", r), "c18:python-threads", &format!("status {:?}: {} {}", o.status.code(), String::from_utf8_lossy(&o.stdout).chars().take(400).collect::<String>(), String::from_utf8_lossy(&o.stderr).chars().rev().take(300).collect::<String>().chars().rev().collect::<String>())),
                Err(e) => run.fail_with_line(n + r, "C18 pythreads", "c18:python-spawn", &format!("{}", e)),
            }
        }
    } else if run.opts.only.is_none() {
        run.fail_with_line(n, "C18 pythreads", "c18:python-not-built", "the Python extension was not built");
    }
}
