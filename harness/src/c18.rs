//! C18: one loaded dictionary shared by concurrent tokenizers.  Every session runs in a fresh child
//! process so that the first use of every lazily initialised static races between the threads; the
//! lazily initialised statics are the once-cells of the model (`CELL_NAMES` = `Sched.cellNames`), and the
//! shared-state sites of the source are compared with the allow-list `c18_shared_state.txt` on every run.
use crate::c01::world_for;
use crate::common::*;
use crate::dict::*;
use crate::world::*;
use std::collections::HashMap;
use std::process::Command;
use std::sync::atomic::{AtomicUsize, Ordering};
use std::sync::{Barrier, Mutex};
use sudachi::analysis::stateful_tokenizer::StatefulTokenizer;
use sudachi::analysis::Mode;
use sudachi::dic::dictionary::JapaneseDictionary;
use sudachi::prelude::*;
use sudachi::sentence_splitter::{SentenceSplitter, SplitSentences};

fn assert_send_sync<T: Send + Sync>() {}

/// repetitions of every thread's operation list after the recorded first round
const ROUNDS: usize = 40;

#[derive(Clone)]
enum Op {
    Tok(String, Mode),
    Sent(String),
    /// compile a user dictionary against the shared dictionary (reads its grammar and lexicon)
    Build(String, bool),
}

/// The initialise-once cells of the model (`Sched.cellNames`, same order): every `static ref` of a `lazy_static!`
/// block in non-test code under sudachi/src.  The inventory case compares this list with the source.
pub const CELL_NAMES: [&str; 13] = ["SENTENCE_BREAKER", "ITEMIZE_HEADER", "SPACES", "PARENTHESIS", "PROHIBITED_BOS", "QUOTE_MARKER",
    "EOS_ITEMIZE_HEADER", "CHAR_TO_NUM", "UNICODE_LITERAL", "WORD_ID_LITERAL", "SPLIT_REGEX", "EMPTY_LINE", "CURRENT_EXE_DIR"];

/// Which once-cells an operation asks for.  NOT observed in the binary (a `lazy_static!` cannot be asked whether it is
/// initialised): derived from the operation kind, the configuration and the text by reading the guards in front of
/// every static (sentence_detector.rs get_eos/parenthesis_level/prohibited_bos/is_continuous_phrase,
/// numeric_parser::append, build/parse.rs unescape*, build/lexicon.rs parse_split); an upper bound where the guard
/// is the result of a regex match.
fn touch_of(dic: &JapaneseDictionary, has_join_numeric: bool, op: &Op, result: &str) -> Vec<usize> {
    use sudachi::dic::category_type::CategoryType;
    use unicode_normalization::UnicodeNormalization;
    let mut t = vec![];
    match op {
        Op::Tok(text, _) => {
            if has_join_numeric && !result.starts_with("err:") && !result.starts_with("PANIC") {
                let cc = &dic.grammar().character_category;
                let num = |c: char| c != '.' && c != ',' && cc.get_category_types(c).intersects(CategoryType::NUMERIC | CategoryType::KANJINUMERIC);
                if text.chars().any(num) || text.nfkc().any(num) { t.push(7); }
            }
        }
        Op::Sent(text) => {
            if !text.is_empty() {
                t.push(0);
                let breaker = text.chars().any(|c| "。？！♪…?!.．・‥".contains(c)) || text.contains("<br") || text.contains("<BR");
                if breaker {
                    t.extend([1, 3, 4, 5]);
                    if text.chars().any(|c| c == 'と' || c == 'や' || c == 'の') { t.push(6); }
                }
                if text.chars().count() > 4096 { t.push(2); }
            }
        }
        Op::Build(_, has_split) => {
            t.push(8);
            if *has_split { t.push(9); }
        }
    }
    t.sort();
    t
}

fn perform<'a>(dic: &'a JapaneseDictionary, tok: &mut StatefulTokenizer<&'a JapaneseDictionary>, ml: &mut MorphemeList<&'a JapaneseDictionary>, op: &Op) -> String {
    let r = catch(|| match op {
        Op::Tok(text, mode) => {
            tok.set_mode(*mode);
            tok.reset().push_str(text);
            match tok.do_tokenize() {
                Err(e) => format!("err:{}", err_class(&e)),
                Ok(()) => {
                    if ml.collect_results(tok).is_err() { return "err:collect".to_string(); }
                    let mut s = String::new();
                    for m in ml.iter() {
                        s.push_str(&format!("{}:{}:{}:{}:{}:{}:{}|", m.begin(), m.end(), m.word_id().as_raw(), m.part_of_speech().join(","), m.normalized_form(), m.dictionary_form(), m.total_cost()));
                    }
                    s
                }
            }
        }
        Op::Sent(text) => {
            let sp = SentenceSplitter::new().with_checker(dic.lexicon());
            sp.split(text).map(|(r, _)| format!("{}-{}", r.start, r.end)).collect::<Vec<_>>().join(",")
        }
        Op::Build(csv, _) => match build_user(dic, csv.as_bytes()) {
            Ok(bytes) => { let mut h: u64 = 0xcbf29ce484222325; for b in &bytes { h ^= *b as u64; h = h.wrapping_mul(0x100000001b3); } format!("built:{}:{:016x}", bytes.len(), h) }
            Err(e) => format!("err:build:{}", e.chars().take(60).collect::<String>()),
        },
    });
    r.unwrap_or_else(|p| format!("PANIC:{}", p.chars().take(60).collect::<String>()))
}

fn fingerprint(w: &World) -> u64 {
    let dic = &w.dic;
    let mut h: u64 = 0xcbf29ce484222325;
    let mut feed = |s: &str| { for b in s.bytes() { h ^= b as u64; h = h.wrapping_mul(0x100000001b3); } h ^= 0xff; h = h.wrapping_mul(0x100000001b3); };
    for p in dic.grammar().pos_list.iter() { feed(&p.join(",")); }
    let cm = dic.grammar().conn_matrix();
    for b in 0..cm.num_right() { for a in 0..cm.num_left() { feed(&cm.cost(a as u16, b as u16).to_string()); } }
    let mut sizes = vec![w.lex.rows.len()];
    for u in &w.users { sizes.push(u.len()); }
    for (d, n) in sizes.iter().enumerate() {
        for i in 0..*n {
            if let Ok(wid) = sudachi::dic::word_id::WordId::checked(d as u8, i as u32) {
                if let Ok(wi) = dic.lexicon().get_word_info(wid) {
                    feed(&format!("{}|{}|{}|{}|{}|{:?}|{:?}|{:?}", wi.surface(), wi.pos_id(), wi.normalized_form(), wi.reading_form(), wi.dictionary_form_word_id(), wi.a_unit_split(), wi.b_unit_split(), wi.synonym_group_ids()));
                }
                let p = dic.lexicon().get_word_param(wid);
                feed(&format!("{:?}", p));
            }
        }
    }
    h
}

/// reload the world's dictionary with EVERY bundled plugin enabled: the three input-text plugins, the three OOV
/// providers, both path-rewrite plugins and the connection-cost plugin (a race needs the racy code to run)
fn enable_every_plugin(rng: &mut Rng, w: &mut World) -> Result<(), String> {
    let n = w.matrix.nl.min(w.matrix.nr);
    w.wd.write("unk_gen.def", &unk_def(rng, n));
    let mut input = vec![
        r#"{"class":"com.worksap.nlp.sudachi.DefaultInputTextPlugin","rewriteDef":"rewrite.def"}"#.to_string(),
        r#"{"class":"com.worksap.nlp.sudachi.ProlongedSoundMarkPlugin","prolongedSoundMarks":["ー","〜","～"],"replacementSymbol":"ー"}"#.to_string(),
        format!(r#"{{"class":"com.worksap.nlp.sudachi.IgnoreYomiganaPlugin","leftBrackets":["(","（","《"],"rightBrackets":[")","）","》"],"maxYomiganaLength":{}}}"#, rng.range(3, 5)),
    ];
    if rng.chance(1, 3) { let k = rng.below(3); let x = input.remove(k); input.push(x); }
    let re = *rng.pick(&["[0-9a-z]+", "[ア-ン]+", "[a-z0-9]{2,}"]);
    let oov = vec![
        r#"{"class":"com.worksap.nlp.sudachi.MeCabOovPlugin","charDef":"char_full.def","unkDef":"unk_gen.def"}"#.to_string(),
        format!(r#"{{"class":"com.worksap.nlp.sudachi.RegexOovProvider","regex":"{}","leftId":{},"rightId":{},"cost":{},"oovPOS":{},"maxLength":{},"boundaries":"{}"}}"#,
            re, rng.below(n), rng.below(n), rng.below(5000), OOV_POS_JSON, rng.range(2, 8), if rng.chance(1, 2) { "strict" } else { "relaxed" }),
        simple_oov_json(rng.below(n) as i64, rng.below(n) as i64, rng.below(12000) as i64),
    ];
    let mut pr = vec![
        format!(r#"{{"class":"com.worksap.nlp.sudachi.JoinNumericPlugin","enableNormalize":{}}}"#, rng.chance(1, 2)),
        format!(r#"{{"class":"com.worksap.nlp.sudachi.JoinKatakanaOovPlugin","oovPOS":{},"minLength":{}}}"#, OOV_POS_JSON, rng.below(4)),
    ];
    if rng.chance(1, 3) { pr.swap(0, 1); }
    let pairs: Vec<String> = (0..rng.range(1, 3)).map(|_| format!("[{},{}]", rng.below(n), rng.below(n))).collect();
    let conn = vec![format!(r#"{{"class":"com.worksap.nlp.sudachi.InhibitConnectionPlugin","inhibitPair":[{}]}}"#, pairs.join(","))];
    let cfg = config_json_cd(&w.wd, "char_full.def", &input, &oov, &pr, &conn);
    let dic = load(&cfg, w.system_bin.clone(), w.user_bins.clone())?;
    w.dic = dic;
    w.cfg = cfg;
    w.has_fallback = true;
    w.has_path_rewrite = true;
    w.desc = vec!["EVERY-PLUGIN input:default+psm+yomigana oov:mecab+regex+simple rewrite:numeric+katakana conn:inhibit".to_string(), format!("users:{}", w.users.len())];
    Ok(())
}

/// texts that make each bundled plugin do something: bracketed readings after kanji (IgnoreYomigana), runs of prolonged
/// sound marks, numerals with separators and units (JoinNumeric + CHAR_TO_NUM), katakana runs (JoinKatakanaOov, MeCab),
/// latin/digit runs (Regex provider), characters of rewrite.def (DefaultInputText)
const EXERCISE: &[&str] = &["東京都に行(い)く", "京都(きょうと)", "山（やま）と川(かわ)", "漢《かん》字", "二千十円", "3万5千", "1,234.5円", "一億二千万",
    "12,345", "〇.五", "1.千5", "アイウエオ", "コンピューター", "スーパーマーケット", "ｶﾞｷﾞｸﾞ", "すごーーーい", "えーーっ〜〜", "abc123", "x9", "ＡＢＣ１２３",
    "特許庁長官殿御中", "ΑΒΓ", "абв", "㍿と①"];

fn gen_exercise(rng: &mut Rng, w: &World) -> String {
    let mut s = String::new();
    for _ in 0..rng.range(1, 4) {
        if rng.chance(1, 3) { s.push_str(&gen_text(rng, w, 5)); }
        s.push_str(*rng.pick(EXERCISE));
    }
    s
}

/// one multi-threaded session (child process); prints one JSON line
pub fn child(run: &mut Run) {
    assert_send_sync::<JapaneseDictionary>();
    let idx = run.opts.only.unwrap_or(0);
    let mut rng = Rng::for_case(run.opts.seed, idx);
    let mut o = WorldOpts::default();
    o.always_fallback = idx % 5 != 4;
    let mut w = match world_for(run.opts.seed, "C18", idx, &o) {
        Ok(w) => w,
        Err(e) => { println!("{}", serde_json::json!({"world_error": e})); return; }
    };
    // every second session: a dictionary with every bundled plugin and texts that exercise each of them
    let full = idx % 2 == 0;
    if full {
        let mut r2 = Rng::for_case(run.opts.seed ^ 0xf011, idx);
        if let Err(e) = enable_every_plugin(&mut r2, &mut w) { println!("{}", serde_json::json!({"world_error": e})); return; }
    }
    let has_join_numeric = w.cfg.contains("JoinNumericPlugin");
    // cells the main thread initialised while it built the world (before any session thread exists)
    let mut pre: Vec<usize> = vec![8, 10, 11];
    let has_split = |r: &Row| r.split_a != "*" || r.split_b != "*" || r.wstruct != "*";
    if w.lex.rows.iter().any(has_split) || w.users.iter().any(|u| u.iter().any(has_split)) { pre.push(9); }
    pre.sort();
    let nthreads = *rng.pick(&[2usize, 4, 8, 16]);
    let mut all_ops: Vec<Vec<Op>> = vec![];
    for _ in 0..nthreads {
        let k = rng.range(4, 14);
        let mut ops = vec![];
        for _ in 0..k {
            if full && rng.chance(1, 10) {
                // a user dictionary compiled against the shared dictionary while the others analyse
                let mut rows = vec![Row::simple(&gen_exercise(&mut rng, &w).chars().take(6).collect::<String>(), 0, 0, 100, 0)];
                let split = rng.chance(1, 2);
                if split { let mut r = Row::simple("二千十", 0, 0, 200, 0); r.mode = 'C'; r.split_a = "0/1".into(); rows.push(r); }
                ops.push(Op::Build(csv_of(&rows, &default_pos()), split));
                continue;
            }
            let t = if rng.chance(1, 10) { "あ".repeat(20000) } else if full && rng.chance(2, 3) { gen_exercise(&mut rng, &w) } else { gen_text(&mut rng, &w, 16) };
            ops.push(if rng.chance(1, 5) {
                if rng.chance(1, 12) { Op::Sent(format!("{}{}", "あ ".repeat(2100), gen_text(&mut rng, &w, 6))) }
                else { Op::Sent(format!("{}。{}", t.chars().take(40).collect::<String>(), gen_text(&mut rng, &w, 6))) }
            } else { Op::Tok(t, mode_of(rng.below(3))) });
        }
        all_ops.push(ops);
    }
    let alone_only = std::env::var("C18_ALONE").is_ok();
    let fp_before = fingerprint(&w);
    // threads share the world's dictionary by reference (scoped threads): the same object, not a clone
    let counter = AtomicUsize::new(0);
    let events: Mutex<Vec<(usize, usize, usize, String)>> = Mutex::new(vec![]);
    let barrier = Barrier::new(nthreads);
    let repeats = AtomicUsize::new(0);
    let repeats_bad: Mutex<Vec<String>> = Mutex::new(vec![]);
    let dref: &JapaneseDictionary = &w.dic;
    std::thread::scope(|sc| {
        for (t, ops) in all_ops.iter().enumerate() {
            if alone_only { break; }
            let counter = &counter;
            let events = &events;
            let barrier = &barrier;
            let repeats = &repeats;
            let repeats_bad = &repeats_bad;
            sc.spawn(move || {
                let mut tok = StatefulTokenizer::new(dref, Mode::C);
                let mut ml = MorphemeList::empty(dref);
                barrier.wait();
                let mut first: Vec<String> = vec![];
                for (k, op) in ops.iter().enumerate() {
                    let r = perform(dref, &mut tok, &mut ml, op);
                    let seq = counter.fetch_add(1, Ordering::SeqCst);
                    first.push(r.clone());
                    events.lock().unwrap().push((seq, t, k, r));
                    if (t + k) % 3 == 0 { std::thread::yield_now(); }
                }
                // further rounds over the same operations (short texts only): a torn read of shared state needs
                // many tries to show; every repetition must give what the first round gave
                for _round in 0..ROUNDS {
                    for (k, op) in ops.iter().enumerate() {
                        if let Op::Tok(t2, _) = op { if t2.len() > 2000 { continue; } }
                        let r = perform(dref, &mut tok, &mut ml, op);
                        if r != first[k] {
                            repeats_bad.lock().unwrap().push(format!("thread {} op {}: repetition gave {:?}, first round {:?}", t, k, r.chars().take(100).collect::<String>(), first[k].chars().take(100).collect::<String>()));
                        }
                        repeats.fetch_add(1, Ordering::Relaxed);
                    }
                }
            });
        }
    });
    let fp_after = fingerprint(&w);
    // sequential baseline: every thread's operations alone, same dictionary
    let mut intern: HashMap<String, usize> = HashMap::new();
    let mut id_of = |s: &str| -> usize { let n = intern.len() + 1; *intern.entry(s.to_string()).or_insert(n) };
    let mut op_ids: Vec<Vec<usize>> = vec![];
    let mut res: Vec<(usize, usize)> = vec![];
    let mut next = 1;
    let mut base: Vec<Vec<String>> = vec![];
    for ops in &all_ops {
        let mut tok = StatefulTokenizer::new(dref, Mode::C);
        let mut ml = MorphemeList::empty(dref);
        let mut ids = vec![];
        let mut outs = vec![];
        for op in ops {
            let r = perform(dref, &mut tok, &mut ml, op);
            ids.push(next);
            res.push((next, id_of(&r)));
            outs.push(r);
            next += 1;
        }
        op_ids.push(ids);
        base.push(outs);
    }
    let mut ev = events.into_inner().unwrap();
    ev.sort_by_key(|e| e.0);
    let sched: Vec<usize> = ev.iter().map(|e| e.1).collect();
    let trace: Vec<String> = ev.iter().map(|e| format!("{}:{}", e.1, id_of(&e.3))).collect();
    let mut mism = repeats_bad.into_inner().unwrap();
    for e in &ev {
        if base[e.1][e.2] != e.3 {
            mism.push(format!("thread {} op {}: concurrent {:?} vs alone {:?}", e.1, e.2, e.3.chars().take(120).collect::<String>(), base[e.1][e.2].chars().take(120).collect::<String>()));
        }
    }
    let panics = ev.iter().filter(|e| e.3.starts_with("PANIC")).count();
    // hash over the text of every single-threaded result, in operation order
    let mut reshash: u64 = 0xcbf29ce484222325;
    for r in base.iter().flatten() { for b in r.bytes() { reshash ^= b as u64; reshash = reshash.wrapping_mul(0x100000001b3); } reshash ^= 0xff; reshash = reshash.wrapping_mul(0x100000001b3); }
    // once-cells: what every operation asks for, who came first in the observed order, what is initialised at the end
    let mut touch: Vec<String> = vec![];
    let mut touch_of_op: HashMap<(usize, usize), Vec<usize>> = HashMap::new();
    for (t, ops) in all_ops.iter().enumerate() {
        for (k, op) in ops.iter().enumerate() {
            let tc = touch_of(dref, has_join_numeric, op, &base[t][k]);
            if !tc.is_empty() { touch.push(format!("{}:{}", op_ids[t][k], join(tc.iter(), "."))); }
            touch_of_op.insert((t, k), tc);
        }
    }
    let mut owner: Vec<Option<usize>> = vec![None; CELL_NAMES.len()];
    let mut inited: Vec<bool> = vec![false; CELL_NAMES.len()];
    for c in &pre { inited[*c] = true; }
    let mut init_log: Vec<String> = vec![];
    for e in &ev {
        for c in &touch_of_op[&(e.1, e.2)] {
            if !inited[*c] { inited[*c] = true; owner[*c] = Some(e.1); init_log.push(format!("{}:{}", c, e.1)); }
        }
    }
    let cells_final: Vec<usize> = (0..CELL_NAMES.len()).filter(|c| inited[*c]).collect();
    let first_touch: Vec<String> = (0..CELL_NAMES.len()).filter_map(|c| owner[c].map(|t| format!("{}:thread{}", CELL_NAMES[c], t))).collect();
    println!("{}", serde_json::json!({
        "threads": nthreads, "world": w.desc.join(" "), "full": full, "reshash": reshash.to_string(),
        "touch": if touch.is_empty() { "-".to_string() } else { touch.join(",") },
        "pre": if pre.is_empty() { "-".to_string() } else { join(pre.iter(), ",") },
        "fp": (fp_before % 1000003).to_string(),
        "init": init_log.join(","), "cells": join(cells_final.iter(), ","), "first_touch": first_touch,
        "kinds": { "tok": all_ops.iter().flatten().filter(|o| matches!(o, Op::Tok(..))).count(), "sent": all_ops.iter().flatten().filter(|o| matches!(o, Op::Sent(..))).count(), "build": all_ops.iter().flatten().filter(|o| matches!(o, Op::Build(..))).count(),
            "build_ok": base.iter().flatten().filter(|r| r.starts_with("built:")).count(), "tok_err": base.iter().flatten().filter(|r| r.starts_with("err:") && !r.starts_with("err:build")).count() },
        "ops": op_ids.iter().map(|v| if v.is_empty() { "-".to_string() } else { join(v.iter(), ",") }).collect::<Vec<_>>().join(";"),
        "res": res.iter().map(|(a, b)| format!("{}:{}", a, b)).collect::<Vec<_>>().join(","),
        "sched": join(sched.iter(), ","), "trace": trace.join(","),
        "fp_before": fp_before.to_string(), "fp_after": fp_after.to_string(), "mismatches": mism, "panics": panics,
        "events": ev.len(), "repetitions": repeats.load(Ordering::Relaxed),
    }));
}

// ---------------------------------------------------------------------------------------------------------------
// static inventory of shared-state sites (statics, once-cells, locks, atomics, interior mutability, thread locals,
// Send/Sync assertions, GIL releases, lifetime-erasing transmutes, raw pointers) in the tree the harness is linked to

/// root of the repository the harness is built against (parent of the `sudachi` path dependency in harness/Cargo.toml)
pub fn repo_root() -> String {
    let root = std::env::var("VERIF_ROOT").unwrap_or_else(|_| "/verif".into());
    let toml = std::fs::read_to_string(format!("{}/harness/Cargo.toml", root)).unwrap_or_default();
    let dir = toml.lines().find_map(|l| {
        let l = l.trim();
        if l.starts_with("sudachi") && l.contains("path") { l.split("path").nth(1).and_then(|r| r.split('"').nth(1)).map(|x| x.to_string()) } else { None }
    }).unwrap_or_else(|| "/repo/sudachi".to_string());
    dir.trim_end_matches('/').trim_end_matches("/sudachi").to_string()
}

pub struct Site { pub file: String, pub pattern: String, pub count: usize, pub lines: Vec<usize>, pub static_ref: bool }

fn rs_files(dir: &std::path::Path, out: &mut Vec<std::path::PathBuf>) {
    let Ok(rd) = std::fs::read_dir(dir) else { return };
    let mut es: Vec<_> = rd.filter_map(|e| e.ok()).collect();
    es.sort_by_key(|e| e.file_name());
    for e in es {
        let p = e.path();
        let name = e.file_name().to_string_lossy().to_string();
        if p.is_dir() {
            if name == "tests" || name == "testing" || name == "test" { continue; }
            rs_files(&p, out);
        } else if name.ends_with(".rs") && name != "test.rs" && name != "tests.rs" && !name.ends_with("_test.rs") {
            out.push(p);
        }
    }
}

/// non-test code of one file, comments removed, line structure kept
fn code_lines(src: &str) -> Vec<String> {
    let mut out = vec![];
    let mut in_block = false;
    let lines: Vec<&str> = src.lines().collect();
    for (i, l) in lines.iter().enumerate() {
        // an inline test module ends the production code of the file
        if l.trim() == "#[cfg(test)]" {
            if let Some(nx) = lines[i + 1..].iter().find(|x| !x.trim().is_empty()) {
                let nx = nx.trim();
                if nx.starts_with("mod ") && nx.ends_with('{') { break; }
            }
        }
        let mut line = String::new();
        let cs: Vec<char> = l.chars().collect();
        let mut k = 0;
        while k < cs.len() {
            if in_block {
                if cs[k] == '*' && k + 1 < cs.len() && cs[k + 1] == '/' { in_block = false; k += 2; } else { k += 1; }
            } else if cs[k] == '/' && k + 1 < cs.len() && cs[k + 1] == '*' { in_block = true; k += 2; }
            else if cs[k] == '/' && k + 1 < cs.len() && cs[k + 1] == '/' { break; }
            else { line.push(cs[k]); k += 1; }
        }
        out.push(line);
    }
    out
}

pub fn scan_inventory(root: &str) -> Vec<Site> {
    use regex::Regex;
    let pats: Vec<(&str, Regex)> = vec![
        ("lazy_static!", Regex::new(r"\blazy_static!").unwrap()),
        ("once-type", Regex::new(r"\b(GILOnceCell|OnceCell|OnceLock|LazyLock|LazyCell|Lazy|Once)\b").unwrap()),
        ("thread-local", Regex::new(r"\bthread_local!|\bThreadLocal\b|\bLocalKey\b").unwrap()),
        ("lock", Regex::new(r"\b(Mutex|RwLock|Condvar|Barrier)\b").unwrap()),
        ("cell", Regex::new(r"\b(RefCell|UnsafeCell|Cell|SyncUnsafeCell)\b").unwrap()),
        ("atomic", Regex::new(r"\bAtomic[A-Z][A-Za-z0-9]*\b|\bsync::atomic\b").unwrap()),
        ("unsafe-impl-send-sync", Regex::new(r"unsafe\s+impl(\s*<[^>]*>)?\s+(Send|Sync)\b").unwrap()),
        ("allow_threads", Regex::new(r"\ballow_threads\b").unwrap()),
        ("rc", Regex::new(r"\bRc\b").unwrap()),
        ("transmute", Regex::new(r"\btransmute\b").unwrap()),
        ("raw-mut-pointer", Regex::new(r"\*mut\b|\bas_mut_ptr\b|\bfrom_raw_parts_mut\b").unwrap()),
        ("dso-library", Regex::new(r"\bLibrary\b").unwrap()),
    ];
    let stat = Regex::new(r"\bstatic\s+(ref\s+|mut\s+)?([A-Za-z_][A-Za-z0-9_]*)\s*:").unwrap();
    let mut files = vec![];
    for sub in ["sudachi/src", "python/src"] { rs_files(std::path::Path::new(&format!("{}/{}", root, sub)), &mut files); }
    // modules declared `#[cfg(test)] mod x;` are test code wherever their file is
    let mut test_mods: Vec<std::path::PathBuf> = vec![];
    for f in &files {
        let Ok(src) = std::fs::read_to_string(f) else { continue };
        let ls: Vec<&str> = src.lines().collect();
        for (i, l) in ls.iter().enumerate() {
            if l.trim() != "#[cfg(test)]" { continue; }
            let Some(nx) = ls[i + 1..].iter().find(|x| !x.trim().is_empty()) else { continue };
            let nx = nx.trim().trim_start_matches("pub(crate) ").trim_start_matches("pub ");
            if let Some(name) = nx.strip_prefix("mod ").and_then(|r| r.strip_suffix(';')) {
                let stem = f.file_stem().unwrap().to_string_lossy().to_string();
                let base = if stem == "mod" || stem == "lib" || stem == "main" { f.parent().unwrap().to_path_buf() } else { f.parent().unwrap().join(&stem) };
                test_mods.push(base.join(format!("{}.rs", name.trim())));
                test_mods.push(base.join(name.trim()));
            }
        }
    }
    files.retain(|f| !test_mods.iter().any(|t| f == t || f.starts_with(t)));
    let mut sites: Vec<Site> = vec![];
    for f in files {
        let Ok(src) = std::fs::read_to_string(&f) else { continue };
        let rel = f.to_string_lossy().trim_start_matches(root).trim_start_matches('/').to_string();
        let lines = code_lines(&src);
        let mut add = |pattern: String, line: usize, n: usize, sr: bool| {
            if let Some(s) = sites.iter_mut().find(|s| s.file == rel && s.pattern == pattern) { s.count += n; s.lines.push(line); }
            else { sites.push(Site { file: rel.clone(), pattern, count: n, lines: vec![line], static_ref: sr }); }
        };
        for (i, l) in lines.iter().enumerate() {
            for (name, re) in &pats {
                let n = re.find_iter(l).count();
                if n > 0 { add(name.to_string(), i + 1, n, false); }
            }
            for c in stat.captures_iter(l) {
                let kind = match c.get(1).map(|m| m.as_str().trim()) { Some("mut") => "static-mut", Some("ref") => "static-ref", _ => "static" };
                add(format!("{}:{}", kind, &c[2]), i + 1, 1, kind == "static-ref");
            }
        }
    }
    sites.sort_by(|a, b| (a.file.as_str(), a.pattern.as_str()).cmp(&(b.file.as_str(), b.pattern.as_str())));
    sites
}

/// `vharness C18INVENTORY`: the sites found now, in the format of c18_shared_state.txt (class `?` = to be classified)
pub fn print_inventory() {
    for s in scan_inventory(&repo_root()) {
        println!("? {} {} {} # line{} {}", s.file, s.pattern, s.count, if s.lines.len() > 1 { "s" } else { "" }, join(s.lines.iter(), ","));
    }
}

/// the committed allow-list: `class file pattern count # comment`
fn read_allow_list() -> Vec<(String, String, String, usize)> {
    let root = std::env::var("VERIF_ROOT").unwrap_or_else(|_| "/verif".into());
    let txt = std::fs::read_to_string(format!("{}/c18_shared_state.txt", root)).unwrap_or_default();
    let mut out = vec![];
    for l in txt.lines() {
        let l = l.split('#').next().unwrap_or("").trim();
        let f: Vec<&str> = l.split_whitespace().collect();
        if f.len() == 4 { if let Ok(n) = f[3].parse() { out.push((f[0].to_string(), f[1].to_string(), f[2].to_string(), n)); } }
    }
    out.sort_by(|a, b| (a.1.as_str(), a.2.as_str()).cmp(&(b.1.as_str(), b.2.as_str())));
    out
}

/// the inventory case: sites in the source now (implementation side) vs the committed allow-list the model's cell
/// list was written against (model side).  A NEW or changed site breaks the tie: the check then searches other seeds
/// for a failing session and, finding none, reports `no-failing-input-found` - it never passes over a new site silently.
fn inventory_case(run: &mut Run, idx: usize) {
    let sites = scan_inventory(&repo_root());
    let allow = read_allow_list();
    let payload = format!("allow={}", allow.iter().map(|a| format!("{}|{}|{}|{}", a.0, a.1, a.2, a.3)).collect::<Vec<_>>().join(";"));
    let mut found: Vec<String> = sites.iter().filter(|s| s.static_ref).map(|s| s.pattern.split(':').nth(1).unwrap_or("").to_string()).collect();
    let mut cells: Vec<String> = CELL_NAMES.iter().filter(|n| found.iter().any(|f| f == *n)).map(|n| n.to_string()).collect();
    found.retain(|f| !CELL_NAMES.contains(&f.as_str()));
    found.sort();
    cells.extend(found);
    let ans = format!("ok sites={} cells={}", sites.iter().map(|s| format!("{}|{}|{}", s.file, s.pattern, s.count)).collect::<Vec<_>>().join(";"), cells.join(","));
    run.case(idx, "inventory", &payload, &ans, true);
    run.bump_by("inventory:sites-in-source", sites.len() as u64);
    for a in &allow { run.bump(&format!("inventory:class:{}", a.0)); }
    let newsites: Vec<String> = sites.iter().filter(|s| !allow.iter().any(|a| a.1 == s.file && a.2 == s.pattern && a.3 == s.count))
        .map(|s| format!("{}:{} {} x{}", s.file, join(s.lines.iter(), ","), s.pattern, s.count)).collect();
    let gone: Vec<String> = allow.iter().filter(|a| !sites.iter().any(|s| a.1 == s.file && a.2 == s.pattern && a.3 == s.count)).map(|a| format!("{} {} x{}", a.1, a.2, a.3)).collect();
    run.bump_by("inventory:sites-not-in-allow-list", newsites.len() as u64);
    run.bump_by("inventory:allow-list-entries-not-in-source", gone.len() as u64);
    run.extra.insert("shared_state_inventory".into(), serde_json::json!({"repo": repo_root(), "sites": sites.len(), "not_in_allow_list": newsites, "no_longer_in_source": gone}));
}

/// `Command::output()` with a deadline.  A session whose threads deadlock never prints its result: that is a violation of
/// "each thread obtains exactly the result a single-threaded run gives" (liveness half), reported as `c18:hang` with the
/// session as replay - and the check itself must not wait for ever.  A normal session takes well under a second (quick
/// tier) resp. a few seconds (60 KB texts); the deadline is two orders of magnitude above that.
fn output_timeout(cmd: &mut Command, secs: u64) -> Result<std::process::Output, String> {
    use std::io::Read;
    use std::process::Stdio;
    let mut ch = cmd.stdin(Stdio::null()).stdout(Stdio::piped()).stderr(Stdio::piped()).spawn().map_err(|e| format!("spawn: {}", e))?;
    let mut so = ch.stdout.take().unwrap();
    let mut se = ch.stderr.take().unwrap();
    let t1 = std::thread::spawn(move || { let mut b = vec![]; let _ = so.read_to_end(&mut b); b });
    let t2 = std::thread::spawn(move || { let mut b = vec![]; let _ = se.read_to_end(&mut b); b });
    let start = std::time::Instant::now();
    let status = loop {
        match ch.try_wait() {
            Ok(Some(st)) => break Some(st),
            Ok(None) => {
                if start.elapsed().as_secs() >= secs { let _ = ch.kill(); let _ = ch.wait(); break None; }
                std::thread::sleep(std::time::Duration::from_millis(20));
            }
            Err(e) => return Err(format!("wait: {}", e)),
        }
    };
    let stdout = t1.join().unwrap_or_default();
    let stderr = t2.join().unwrap_or_default();
    match status {
        Some(status) => Ok(std::process::Output { status, stdout, stderr }),
        None => Err(format!("HANG: no result after {} s (killed); stderr tail {}", secs, String::from_utf8_lossy(&stderr).chars().rev().take(200).collect::<String>().chars().rev().collect::<String>())),
    }
}

/// deadline of one session process in seconds (`C18_SESSION_TIMEOUT` overrides)
fn session_deadline() -> u64 { std::env::var("C18_SESSION_TIMEOUT").ok().and_then(|x| x.parse().ok()).unwrap_or(180) }

pub fn run(run: &mut Run) {
    run.rule = "each session case = one child process: a random world (all plugin kinds, user dictionaries; every second session a \
dictionary with EVERY bundled plugin - 3 input-text, 3 OOV, 2 path-rewrite, InhibitConnection - and texts that exercise each), N in {2,4,8,16} \
threads started behind a barrier (first use of every lazy static races), each with its own StatefulTokenizer over the SAME dictionary object and a \
random stream of analyses (modes A/B/C, 60 KB texts), sentence splittings and user-dictionary builds against the shared dictionary, then 40 \
repetition rounds; every result must equal the single-threaded result in the same process and in a second, fresh, single-threaded process (no \
static initialised); the observed global order of completions is replayed by the once-cell scheduler model (trace, who initialised which lazy \
static, cells initialised at the end); non-trivial = at least two threads interleaved (schedule is not a concatenation of per-thread blocks); \
plus one inventory case (shared-state sites in the source vs c18_shared_state.txt) and Python threads over tokenizers of one Dictionary".into();
    let exe = std::env::current_exe().unwrap();
    let n = run.opts.count;
    for idx in 0..n {
        if !run.wants(idx) { continue; }
        let outp = output_timeout(Command::new(&exe).arg("C18CHILD").arg("--seed").arg(run.opts.seed.to_string()).arg("--only").arg(idx.to_string()).arg("--out").arg(&run.opts.out), session_deadline());
        let line_hdr = format!("C18 session idx={}", idx);
        let outp = match outp {
            Ok(o) => o,
            Err(e) if e.starts_with("HANG") => {
                // liveness: some thread never obtained its result (a deadlock on shared state); the single-threaded
                // reference of the same session must terminate, otherwise the hang is not a matter of sharing
                let alone = output_timeout(Command::new(&exe).env("C18_ALONE", "1").arg("C18CHILD").arg("--seed").arg(run.opts.seed.to_string()).arg("--only").arg(idx.to_string()).arg("--out").arg(&run.opts.out), session_deadline());
                run.bump("outcome:session-hang");
                let key = if alone.is_ok() { "c18:hang" } else { "c18:hang-also-alone" };
                run.fail_with_line(idx, &line_hdr, key, &format!("the concurrent session never finished ({}); the same operations single-threaded in a fresh process {}", e, if alone.is_ok() { "finish" } else { "do not finish either" }));
                continue;
            }
            Err(e) => { run.fail_with_line(idx, &line_hdr, "c18:spawn", &format!("{}", e)); continue; }
        };
        let stdout = String::from_utf8_lossy(&outp.stdout).to_string();
        let v: Option<serde_json::Value> = stdout.lines().rev().find_map(|l| serde_json::from_str(l).ok());
        let Some(v) = v.filter(|_| outp.status.success()) else {
            run.bump("outcome:child-crash");
            run.fail_with_line(idx, &line_hdr, "c18:crash", &format!("session process died: status {:?}, stderr tail {}", outp.status.code(), String::from_utf8_lossy(&outp.stderr).chars().rev().take(300).collect::<String>().chars().rev().collect::<String>()));
            continue;
        };
        if v.get("world_error").is_some() { run.bump("world-error"); continue; }
        let sched: Vec<usize> = v["sched"].as_str().unwrap_or("").split(',').filter_map(|x| x.parse().ok()).collect();
        let mut switches = 0;
        for k in 1..sched.len() { if sched[k] != sched[k - 1] { switches += 1; } }
        let threads = v["threads"].as_u64().unwrap_or(0) as usize;
        run.bump(&format!("threads:{}", threads));
        run.bump_by("events", sched.len() as u64);
        run.bump_by("repeated-analyses", v["repetitions"].as_u64().unwrap_or(0));
        run.bump_by("context-switches-observed", switches as u64);
        if v["full"].as_bool().unwrap_or(false) { run.bump("sessions-with-every-bundled-plugin"); }
        for k in ["tok", "sent", "build", "build_ok", "tok_err"] { run.bump_by(&format!("ops:{}", k), v["kinds"][k].as_u64().unwrap_or(0)); }
        if let Some(ft) = v["first_touch"].as_array() {
            for x in ft {
                let x = x.as_str().unwrap_or("");
                run.bump(&format!("first-touch:{}:by-a-session-thread", x.split(':').next().unwrap_or("")));
                if !x.ends_with(":thread0") { run.bump("first-touch:not-by-thread-0"); }
            }
        }
        let payload = format!("ops={} res={} sched={} fp={} ncells={} pre={} touch={}", v["ops"].as_str().unwrap_or(""), v["res"].as_str().unwrap_or(""), v["sched"].as_str().unwrap_or(""),
            v["fp"].as_str().unwrap_or("0"), CELL_NAMES.len(), v["pre"].as_str().unwrap_or("-"), v["touch"].as_str().unwrap_or("-"));
        let ans = format!("ok trace={} init={} cells={}", v["trace"].as_str().unwrap_or(""), v["init"].as_str().unwrap_or(""), v["cells"].as_str().unwrap_or(""));
        run.case(idx, "run", &payload, &ans, switches >= threads);
        if let Some(m) = v["mismatches"].as_array() {
            if !m.is_empty() {
                run.fail(idx, "c18:trace", &format!("{} results differ from the single-threaded run, first: {} | world {}", m.len(), m[0], v["world"]));
                continue;
            }
        }
        // the reference of the theorems is a thread alone FROM THE ALL-UNINITIALISED STATE: the same operations, single-threaded,
        // in another fresh process (the in-process baseline above runs after the session, on initialised statics)
        let alone = output_timeout(Command::new(&exe).env("C18_ALONE", "1").arg("C18CHILD").arg("--seed").arg(run.opts.seed.to_string()).arg("--only").arg(idx.to_string()).arg("--out").arg(&run.opts.out), session_deadline());
        let va: Option<serde_json::Value> = alone.ok().and_then(|o| String::from_utf8_lossy(&o.stdout).lines().rev().find_map(|l| serde_json::from_str(l).ok()));
        match va {
            Some(va) if va["res"] == v["res"] && va["reshash"] == v["reshash"] && va["fp_before"] == v["fp_before"] => run.bump("alone-process-baselines-equal"),
            Some(va) => { run.fail(idx, "c18:alone-process", &format!("single-threaded results in a fresh process (no static initialised) differ from the results after the session: reshash {} vs {}, fingerprint {} vs {} | world {}", va["reshash"], v["reshash"], va["fp_before"], v["fp_before"], v["world"])); continue; }
            None => { run.fail(idx, "c18:alone-crash", "the single-threaded reference process died"); continue; }
        }
        if v["fp_before"] != v["fp_after"] {
            run.fail(idx, "c18:dictionary-modified", &format!("dictionary fingerprint changed during the session: {} -> {}", v["fp_before"], v["fp_after"]));
            continue;
        }
        if v["panics"].as_u64().unwrap_or(0) > 0 { run.bump("sessions-with-panicking-analyses(same alone: C03)"); }
    }
    if run.wants(n + 100) { inventory_case(run, n + 100); }
    // Python threads sharing one Dictionary
    let root = std::env::var("VERIF_ROOT").unwrap_or_else(|_| "/verif".to_string());
    let pkg = format!("{}/.build/py/pkg", root);
    if std::path::Path::new(&format!("{}/sudachipy/sudachipy.so", pkg)).exists() && run.opts.only.is_none() {
        let rounds = if run.opts.thorough { 6 } else { 2 };
        for r in 0..rounds {
            let outp = output_timeout(Command::new("python3").arg(format!("{}/pyharness/run_threads.py", root)).arg(&pkg).arg((run.opts.seed + r as u64).to_string()), 4 * session_deadline());
            run.bump("python-thread-sessions");
            match outp {
                Ok(o) if o.status.success() && String::from_utf8_lossy(&o.stdout).contains("\"ok\": true") => { run.bump("python-thread-sessions-ok"); }
                Ok(o) => run.fail_with_line(n + r, &format!("C18 pythreads round={}", r), "c18:python-threads", &format!("status {:?}: {} {}", o.status.code(), String::from_utf8_lossy(&o.stdout).chars().take(400).collect::<String>(), String::from_utf8_lossy(&o.stderr).chars().rev().take(300).collect::<String>().chars().rev().collect::<String>())),
                Err(e) if e.starts_with("HANG") => run.fail_with_line(n + r, &format!("C18 pythreads round={}", r), "c18:python-hang", &e),
                Err(e) => run.fail_with_line(n + r, "C18 pythreads", "c18:python-spawn", &format!("{}", e)),
            }
        }
    } else if run.opts.only.is_none() {
        run.fail_with_line(n, "C18 pythreads", "c18:python-not-built", "the Python extension was not built");
    }
}
