//! C12: layered user dictionaries keep ids, parts of speech and references straight.
//!
//! Kinds of case lines:
//!  * `wid`    — `WordId` packing at the boundaries of the 4+28 bit layout;
//!  * `lexset` — `LexiconSet::{new, append, lookup, get_word_info}` driven directly with real `Lexicon`s parsed from
//!               compiled dictionaries, arbitrary POS offsets / system POS counts, up to 17 lexicons;
//!  * `stack`  — the whole pipeline: system dictionary compiled by the real `DictBuilder`, 0..15 user dictionaries
//!               compiled against the loaded system dictionary, OOV plugins registering POS (`userPOS`), the real
//!               `JapaneseDictionary::from_cfg_storage`, every word's info through `LexiconSet::get_word_info`,
//!               and the morphemes (plus their A/B splits) of a few texts — in about half of the cases on RECYCLED
//!               objects (one tokenizer, one morpheme list, two split lists that analysed other texts before);
//!               load order: InhibitConnection plugins, rows stored with cost i16::MIN (re-estimated by
//!               `Lexicon::update_cost` over the dictionary as it is when that user dictionary is merged), the cost of
//!               every word and the inhibited cells after the load.
//!  * `poslimit` — the merged POS list at the edge of what a `u16` id addresses (finding P2 and its repair): real user dictionaries
//!               with up to 32 767 own parts of speech, loads with exactly 65 536 / 65 537 / many more entries.
//!  * `reads`  — user dictionaries compiled by ONE `DictBuilder::new_user` that is given 1-4 CSV sources and is used further after
//!               `read_lexicon` REJECTED some of them at their k-th line (the rows in front of that line stay in the builder and
//!               are compiled): what each call returned, the POS table that was written, the stored POS ids, and the loaded stack.
//! Strings are interned per case (the model only compares them).
use crate::common::*;
use crate::dict::*;
use std::collections::HashMap;
use sudachi::analysis::stateful_tokenizer::StatefulTokenizer;
use sudachi::analysis::Mode;
use sudachi::analysis::stateless_tokenizer::DictionaryAccess;
use sudachi::dic::dictionary::JapaneseDictionary;
use sudachi::dic::lexicon_set::LexiconSet;
use sudachi::dic::subset::InfoSubset;
use sudachi::dic::word_id::WordId;
use sudachi::dic::DictionaryLoader;
use sudachi::prelude::*;

const POOL: &[[&str; 6]] = &[
    ["名詞", "普通名詞", "一般", "*", "*", "*"],
    ["名詞", "数詞", "*", "*", "*", "*"],
    ["助詞", "格助詞", "*", "*", "*", "*"],
    ["補助記号", "一般", "*", "*", "*", "*"],
    ["動詞", "一般", "*", "*", "五段-カ行", "終止形-一般"],
    ["名詞", "固有名詞", "地名", "一般", "*", "*"],
    ["名詞", "固有名詞", "人名", "*", "*", "*"],
    ["名詞", "固有名詞", "人名", "姓", "*", "*"],
    ["名詞", "固有名詞", "ユーザ", "*", "*", "*"],
    ["名詞", "普通名詞", "一般", "*", "*", "ユ"],
    ["感動詞", "*", "*", "*", "*", "*"],
    ["動詞", "一般", "*", "*", "五段-カ行", "連用形-一般"],
];

const SURF_CHARS: &[char] = &['あ', 'い', 'う', '東', '京'];
const READ_CHARS: &[char] = &['ア', 'イ', 'ウ'];
const OOV_CHUNKS: &[&str] = &["ab", "a", "1", "12", "。", "xyz", "え", "都", "z9"];

fn pool_vec() -> Vec<[String; 6]> {
    POOL.iter().map(|p| [p[0].into(), p[1].into(), p[2].into(), p[3].into(), p[4].into(), p[5].into()]).collect()
}

fn pos_strings(i: usize) -> Vec<String> {
    POOL[i].iter().map(|s| s.to_string()).collect()
}

#[derive(Default)]
struct Intern {
    map: HashMap<String, usize>,
}

impl Intern {
    fn tok(&mut self, s: &str) -> usize {
        let n = self.map.len();
        *self.map.entry(s.to_string()).or_insert(n)
    }
    fn pos<S: AsRef<str>>(&mut self, p: &[S]) -> String {
        p.iter().map(|c| self.tok(c.as_ref()).to_string()).collect::<Vec<_>>().join(".")
    }
}

#[derive(Clone, Debug, PartialEq)]
enum UnitSpec {
    /// reference by number into the dictionary being built (`U<j>` in a user dictionary, `<j>` in the system one)
    Own(usize),
    /// reference by number into the system dictionary (user dictionaries only)
    Sys(usize),
    InlOwn(usize),
    InlSys(usize),
    InlDangling,
    OwnOut,
    SysOut,
}

#[derive(Clone, Debug)]
struct GRow {
    row: Row,
    a: Vec<UnitSpec>,
    b: Vec<UnitSpec>,
    w: Vec<UnitSpec>,
    tag: String,
}

#[derive(Clone, Debug, Default)]
struct GDict {
    rows: Vec<GRow>,
}

fn inline_csv(surface: &str, pos: usize, reading: &str) -> String {
    format!("{},{},{}", surface, POOL[pos].join(","), reading)
}

struct Ctx<'a> {
    user: bool,
    sys: &'a GDict,
}

fn unit_csv(u: &UnitSpec, me: &GDict, cx: &Ctx) -> String {
    match u {
        UnitSpec::Own(j) => if cx.user { format!("U{}", j) } else { format!("{}", j) },
        UnitSpec::Sys(j) => format!("{}", j),
        UnitSpec::InlOwn(j) => { let r = &me.rows[*j].row; inline_csv(&r.surface, r.pos, &r.reading) }
        UnitSpec::InlSys(j) => { let r = &cx.sys.rows[*j].row; inline_csv(&r.headword, r.pos, &r.reading) }
        UnitSpec::InlDangling => inline_csv("無", 0, "ム"),
        UnitSpec::OwnOut => if cx.user { format!("U{}", me.rows.len()) } else { format!("{}", me.rows.len()) },
        UnitSpec::SysOut => format!("{}", cx.sys.rows.len()),
    }
}

fn unit_wire(u: &UnitSpec, me: &GDict, cx: &Ctx, it: &mut Intern) -> String {
    let inl = |it: &mut Intern, s: &str, p: usize, r: &str| format!("I,{},{},{}", it.tok(s), it.pos(&POOL[p]), it.tok(r));
    match u {
        UnitSpec::Own(j) => if cx.user { format!("U{}", j) } else { format!("{}", j) },
        UnitSpec::Sys(j) => format!("{}", j),
        UnitSpec::InlOwn(j) => { let r = &me.rows[*j].row; inl(it, &r.surface, r.pos, &r.reading) }
        UnitSpec::InlSys(j) => { let r = &cx.sys.rows[*j].row; inl(it, &r.headword, r.pos, &r.reading) }
        UnitSpec::InlDangling => inl(it, "無", 0, "ム"),
        UnitSpec::OwnOut => if cx.user { format!("U{}", me.rows.len()) } else { format!("{}", me.rows.len()) },
        UnitSpec::SysOut => format!("{}", cx.sys.rows.len()),
    }
}

fn units_csv(us: &[UnitSpec], me: &GDict, cx: &Ctx) -> String {
    if us.is_empty() { "*".into() } else { us.iter().map(|u| unit_csv(u, me, cx)).collect::<Vec<_>>().join("/") }
}

fn units_wire(us: &[UnitSpec], me: &GDict, cx: &Ctx, it: &mut Intern) -> String {
    if us.is_empty() { "*".into() } else { us.iter().map(|u| unit_wire(u, me, cx, it)).collect::<Vec<_>>().join("/") }
}

/// fill the CSV columns of the rows from the structured units
fn finish_dict(d: &mut GDict, cx: &Ctx) {
    let snapshot = d.clone();
    for r in d.rows.iter_mut() {
        r.row.split_a = units_csv(&r.a, &snapshot, cx);
        r.row.split_b = units_csv(&r.b, &snapshot, cx);
        r.row.wstruct = units_csv(&r.w, &snapshot, cx);
    }
}

fn dict_wire(d: &GDict, cx: &Ctx, it: &mut Intern) -> String {
    d.rows.iter().map(|r| {
        let mode = match r.row.mode { 'A' => 0, 'B' => 1, _ => 2 };
        format!("{}:{}:{}:{}:{}:{}:{}:{}", it.tok(&r.row.surface), it.tok(&r.row.headword), it.tok(&r.row.reading), mode,
            it.pos(&POOL[r.row.pos]), units_wire(&r.a, d, cx, it), units_wire(&r.b, d, cx, it), units_wire(&r.w, d, cx, it))
    }).collect::<Vec<_>>().join(";")
}

fn unit_surface(u: &UnitSpec, me: &GDict, sys: &GDict) -> String {
    match u {
        UnitSpec::Own(j) | UnitSpec::InlOwn(j) => me.rows[*j].row.surface.clone(),
        UnitSpec::Sys(j) | UnitSpec::InlSys(j) => sys.rows[*j].row.surface.clone(),
        _ => "無".into(),
    }
}

struct GenOpts {
    user: bool,
    pos_choices: Vec<usize>,
    nsimple: usize,
    ncompound: usize,
    broken: bool,
    n_ids: usize,
    tagp: String,
}

fn gen_dict(rng: &mut Rng, sys: &GDict, o: &GenOpts) -> GDict {
    let mut d = GDict::default();
    let id = |rng: &mut Rng| rng.below(o.n_ids) as i32;
    for _ in 0..o.nsimple {
        let mut surface = rand_word(rng, SURF_CHARS, 2);
        let mut pos = *rng.pick(&o.pos_choices);
        let mut reading = rand_word(rng, READ_CHARS, 2);
        if o.user && !sys.rows.is_empty() && rng.chance(1, 4) {
            // the same (surface, POS, reading) as a system word: inline references become ambiguous between the layers
            let s = &rng.pick(&sys.rows).row;
            if s.headword == s.surface { surface = s.surface.clone(); pos = s.pos; reading = s.reading.clone(); }
        }
        let cost = if o.user { rng.below(3000) as i32 - 500 } else { rng.below(6000) as i32 };
        let mut row = Row::simple(&surface, id(rng), id(rng), cost, pos);
        row.reading = reading;
        if rng.chance(1, 6) { row.headword = rand_word(rng, SURF_CHARS, 2); }
        // never the first row: a dictionary without any indexed row is defect D4 (C06), not C12's business
        if !d.rows.is_empty() && rng.chance(1, 12) { row.left = -1; row.right = -1; }
        d.rows.push(GRow { row, a: vec![], b: vec![], w: vec![], tag: String::new() });
    }
    for _ in 0..o.ncompound {
        let n = rng.range(2, 3);
        let mut units = vec![];
        for _ in 0..n {
            let own_simple = rng.below(o.nsimple.max(1));
            let u = if o.user && !sys.rows.is_empty() {
                match rng.below(6) {
                    0 | 1 => UnitSpec::Own(own_simple),
                    2 => UnitSpec::Sys(rng.below(sys.rows.len())),
                    3 => UnitSpec::InlOwn(own_simple),
                    4 => UnitSpec::InlSys(rng.below(sys.rows.len())),
                    _ => UnitSpec::Own(own_simple),
                }
            } else if rng.chance(1, 3) { UnitSpec::InlOwn(own_simple) } else { UnitSpec::Own(own_simple) };
            units.push(u);
        }
        if o.broken && rng.chance(1, 2) {
            let k = rng.below(units.len());
            units[k] = rng.pick(&[UnitSpec::InlDangling, UnitSpec::OwnOut, UnitSpec::SysOut]).clone();
            if !o.user && units[k] == UnitSpec::SysOut { units[k] = UnitSpec::OwnOut; }
        }
        let surface: String = units.iter().map(|u| unit_surface(u, &d, sys)).collect();
        let mut row = Row::simple(&surface, id(rng), id(rng), rng.below(4000) as i32 - 800, *rng.pick(&o.pos_choices));
        row.reading = rand_word(rng, READ_CHARS, 3);
        let (a, b) = match rng.below(4) {
            0 => { row.mode = 'B'; (units.clone(), vec![]) }
            1 => { row.mode = 'C'; (units.clone(), units.clone()) }
            2 => { row.mode = 'C'; (units.clone(), vec![]) }
            _ => { row.mode = 'C'; (vec![], units.clone()) }
        };
        if o.broken && rng.chance(1, 4) { row.mode = 'A'; }
        let all_refs = units.iter().all(|u| matches!(u, UnitSpec::Own(_) | UnitSpec::Sys(_)));
        let w = if all_refs && rng.chance(1, 2) { units.clone() } else { vec![] };
        d.rows.push(GRow { row, a, b, w, tag: String::new() });
    }
    if d.rows.len() > 1 && rng.chance(1, 2) {
        // reorder the rows: forward references (a compound before its units), inline units whose POS is new at that point
        let n = d.rows.len();
        let mut order: Vec<usize> = (0..n).collect();
        for i in (1..n).rev() { let j = rng.below(i + 1); order.swap(i, j); }
        // order[newpos] = oldpos
        let mut newpos = vec![0usize; n];
        for (np, &op) in order.iter().enumerate() { newpos[op] = np; }
        let old = d.rows.clone();
        let remap = |us: &Vec<UnitSpec>| -> Vec<UnitSpec> {
            us.iter().map(|u| match u { UnitSpec::Own(j) => UnitSpec::Own(newpos[*j]), UnitSpec::InlOwn(j) => UnitSpec::InlOwn(newpos[*j]), x => x.clone() }).collect()
        };
        d.rows = order.iter().map(|&op| { let mut r = old[op].clone(); r.a = remap(&r.a); r.b = remap(&r.b); r.w = remap(&r.w); r }).collect();
        if d.rows[0].row.left < 0 { d.rows[0].row.left = 0; d.rows[0].row.right = 0; }
    }
    for (i, r) in d.rows.iter_mut().enumerate() {
        r.tag = format!("#{}w{}", o.tagp, i);
        r.row.norm = r.tag.clone();
    }
    let cx = Ctx { user: o.user, sys };
    finish_dict(&mut d, &cx);
    d
}

struct PlugGen {
    json: Vec<String>,
    /// the `handle_user_pos` calls in order: (allow, POS strings)
    calls: Vec<(bool, Vec<String>)>,
    unk: Option<String>,
}

fn mode_str(allow: bool) -> &'static str { if allow { "allow" } else { "forbid" } }

fn pos_json(p: &[String]) -> String {
    format!("[{}]", p.iter().map(|s| format!("\"{}\"", s)).collect::<Vec<_>>().join(","))
}

/// OOV plugin stack; `known` = POS (pool indices) certainly present in the system dictionary
fn gen_plugins(rng: &mut Rng, n_ids: usize, known: &[usize], sabotage: bool, quiet: bool) -> PlugGen {
    let mut g = PlugGen { json: vec![], calls: vec![], unk: None };
    let mut registered: Vec<usize> = known.to_vec();
    let mut choose = |rng: &mut Rng, registered: &mut Vec<usize>| -> (bool, Vec<String>) {
        // (allow?, pos): forbid only for POS that are present, unless sabotaged
        let p = if rng.chance(1, 3) { *rng.pick(known) } else { rng.range(0, POOL.len() - 1) };
        let present = registered.contains(&p);
        let allow = if present { rng.chance(1, 2) } else { true };
        if !present { registered.push(p); }
        (allow, pos_strings(p))
    };
    let nextra = if quiet { 0 } else { rng.below(3) };
    for _ in 0..nextra {
        let kind = rng.below(3);
        match if kind == 1 && g.unk.is_some() { 0 } else { kind } {
            0 => {
                let (allow, p) = choose(rng, &mut registered);
                g.json.push(format!(
                    r#"{{"class":"com.worksap.nlp.sudachi.RegexOovProvider","regex":"[a-z0-9]+","leftId":{},"rightId":{},"cost":{},"oovPOS":{},"maxLength":8,"boundaries":"relaxed","userPOS":"{}"}}"#,
                    rng.below(n_ids), rng.below(n_ids), rng.below(5000), pos_json(&p), mode_str(allow)));
                g.calls.push((allow, p));
            }
            1 => {
                let nl = rng.range(1, 3);
                let mut unk = String::new();
                // one mode for the whole plugin: allow unless every POS is present
                let mut lines = vec![];
                let mut any_new = false;
                for _ in 0..nl {
                    let before = registered.len();
                    let (_, p) = choose(rng, &mut registered);
                    if registered.len() != before { any_new = true; }
                    lines.push(p);
                }
                let allow = any_new || rng.chance(1, 2);
                for p in &lines {
                    let cat = *rng.pick(&["DEFAULT", "ALPHA", "NUMERIC", "HIRAGANA", "KANJI", "SYMBOL"]);
                    unk.push_str(&format!("{},{},{},{},{}\n", cat, rng.below(n_ids), rng.below(n_ids), rng.below(6000), p.join(",")));
                    g.calls.push((allow, p.clone()));
                }
                g.unk = Some(unk);
                g.json.push(format!(r#"{{"class":"com.worksap.nlp.sudachi.MeCabOovPlugin","charDef":"char.def","unkDef":"unk_c12.def","userPOS":"{}"}}"#, mode_str(allow)));
            }
            _ => {
                let (allow, p) = choose(rng, &mut registered);
                g.json.push(format!(
                    r#"{{"class":"com.worksap.nlp.sudachi.SimpleOovPlugin","oovPOS":{},"leftId":{},"rightId":{},"cost":{},"userPOS":"{}"}}"#,
                    pos_json(&p), rng.below(n_ids), rng.below(n_ids), rng.below(9000), mode_str(allow)));
                g.calls.push((allow, p));
            }
        }
    }
    // the fallback provider, last
    let (mut allow, mut p) = if quiet { (false, pos_strings(known[0])) } else { choose(rng, &mut registered) };
    if sabotage {
        match rng.below(2) {
            0 => { allow = false; p = vec!["名詞".into(), "未登録".into(), "*".into(), "*".into(), "*".into(), "*".into()]; }
            _ => { allow = true; p = vec!["名詞".into(), "五つ".into(), "*".into(), "*".into(), "*".into()]; }
        }
    }
    g.json.push(format!(
        r#"{{"class":"com.worksap.nlp.sudachi.SimpleOovPlugin","oovPOS":{},"leftId":{},"rightId":{},"cost":{},"userPOS":"{}"}}"#,
        pos_json(&p), rng.below(n_ids), rng.below(n_ids), 5000 + rng.below(9000), mode_str(allow)));
    g.calls.push((allow, p));
    g
}

#[derive(Clone, Debug)]
struct MObs {
    raw: u32,
    did: i32,
    pos_id: u16,
    pos: Vec<String>,
    norm: String,
    surface: String,
}

fn mobs<T: DictionaryAccess>(m: &Morpheme<T>) -> MObs {
    MObs {
        raw: m.word_id().as_raw(), did: m.dictionary_id(), pos_id: m.part_of_speech_id(), pos: m.part_of_speech().to_vec(),
        norm: m.normalized_form().to_string(), surface: m.surface().to_string(),
    }
}

type Observed = Vec<(MObs, Vec<MObs>, Vec<MObs>)>;

fn observe(dic: &JapaneseDictionary, text: &str) -> Result<Result<Observed, String>, String> {
    catch(|| {
        let mut tok = StatefulTokenizer::new(dic, Mode::C);
        tok.reset().push_str(text);
        tok.do_tokenize().map_err(|e| err_class(&e))?;
        let mut ml = MorphemeList::empty(dic);
        ml.collect_results(&mut tok).map_err(|e| err_class(&e))?;
        let mut out = vec![];
        for m in ml.iter() {
            let mut sa = ml.empty_clone();
            let mut sb = ml.empty_clone();
            let ra = m.split_into(Mode::A, &mut sa).map_err(|e| err_class(&e))?;
            let rb = m.split_into(Mode::B, &mut sb).map_err(|e| err_class(&e))?;
            let va: Vec<MObs> = if ra { sa.iter().map(|x| mobs(&x)).collect() } else { vec![] };
            let vb: Vec<MObs> = if rb { sb.iter().map(|x| mobs(&x)).collect() } else { vec![] };
            out.push((mobs(&m), va, vb));
        }
        Ok(out)
    })
}

/// A long-lived analyser: ONE `StatefulTokenizer` and ONE `MorphemeList` (plus the two lists the A/B splits are written to)
/// used for every text of a case, the way a server keeps them.  `collect_results` swaps the tokenizer's buffers with the
/// list's, so what an analysis finds in the tokenizer is what the call BEFORE LAST left in the list.
struct Recycled<'a> {
    tok: StatefulTokenizer<&'a JapaneseDictionary>,
    ml: MorphemeList<&'a JapaneseDictionary>,
    sa: MorphemeList<&'a JapaneseDictionary>,
    sb: MorphemeList<&'a JapaneseDictionary>,
    /// what the objects went through, for the failure message
    log: Vec<String>,
}

impl<'a> Recycled<'a> {
    fn new(dic: &'a JapaneseDictionary) -> Recycled<'a> {
        let ml = MorphemeList::empty(dic);
        let sa = ml.empty_clone();
        let sb = ml.empty_clone();
        Recycled { tok: StatefulTokenizer::new(dic, Mode::C), ml, sa, sb, log: vec![] }
    }

    /// 1-4 other analyses on the same objects before the text under test: longer and shorter texts, the empty text, a text
    /// that is rejected (too long), other modes, analyses whose result is never collected, splits left in the split lists
    fn warm_up(&mut self, rng: &mut Rng, text: &str, pool: &[String]) {
        let n = rng.range(1, 4);
        for _ in 0..n {
            let kind = rng.below(8);
            let t: String = match kind {
                0 => String::new(),
                1 => "a".repeat(49150 + rng.below(3)),                       // rejected: InputTooLong
                2 => { let cs: Vec<char> = text.chars().collect(); cs[..rng.below(cs.len() + 1)].iter().collect() } // shorter (a prefix)
                3 => { let mut l = text.to_string(); for _ in 0..rng.range(1, 6) { l.push_str(rng.pick(pool).as_str()); } l } // longer, same start
                4 => { let mut l = String::new(); for _ in 0..rng.range(3, 12) { l.push_str(rng.pick(pool).as_str()); } l }   // longer, unrelated
                5 => rng.pick(pool).clone(),
                6 => { let mut l = rng.pick(pool).clone(); l.push_str(text); l }                                     // same end, shifted
                _ => rng.pick(OOV_CHUNKS).to_string(),
            };
            let mode = *rng.pick(&[Mode::C, Mode::C, Mode::A, Mode::B]);
            let collect = !rng.chance(1, 5);
            let splits = rng.chance(1, 2);
            let r = catch(|| -> Result<usize, String> {
                self.tok.set_mode(mode);
                self.tok.reset().push_str(&t);
                self.tok.do_tokenize().map_err(|e| err_class(&e))?;
                if collect {
                    self.ml.collect_results(&mut self.tok).map_err(|e| err_class(&e))?;
                    if splits {
                        for m in self.ml.iter() {
                            self.sa.clear(); self.sb.clear();
                            let _ = m.split_into(Mode::A, &mut self.sa);
                            let _ = m.split_into(Mode::B, &mut self.sb);
                        }
                    }
                }
                Ok(self.ml.len())
            });
            let shown: String = if t.len() > 40 { format!("<{} bytes>", t.len()) } else { t.clone() };
            self.log.push(format!("{:?}/{:?}/{}{}", shown, mode, if collect { "collected" } else { "left" },
                match &r { Ok(Ok(_)) => String::new(), Ok(Err(e)) => format!("/{}", e), Err(_) => "/PANIC".into() }));
        }
    }

    fn observe(&mut self, text: &str) -> Result<Result<Observed, String>, String> {
        self.log.push(format!("{:?}", text));
        catch(|| {
            self.tok.set_mode(Mode::C);
            self.tok.reset().push_str(text);
            self.tok.do_tokenize().map_err(|e| err_class(&e))?;
            self.ml.collect_results(&mut self.tok).map_err(|e| err_class(&e))?;
            let mut out = vec![];
            for m in self.ml.iter() {
                self.sa.clear();
                self.sb.clear();
                let ra = m.split_into(Mode::A, &mut self.sa).map_err(|e| err_class(&e))?;
                let rb = m.split_into(Mode::B, &mut self.sb).map_err(|e| err_class(&e))?;
                let va: Vec<MObs> = if ra { self.sa.iter().map(|x| mobs(&x)).collect() } else { vec![] };
                let vb: Vec<MObs> = if rb { self.sb.iter().map(|x| mobs(&x)).collect() } else { vec![] };
                out.push((mobs(&m), va, vb));
            }
            Ok(out)
        })
    }
}

fn same_observed(a: &Result<Result<Observed, String>, String>, b: &Result<Result<Observed, String>, String>) -> bool {
    let key = |m: &MObs| (m.raw, m.did, m.pos_id, m.pos.clone(), m.norm.clone(), m.surface.clone());
    match (a, b) {
        (Ok(Ok(x)), Ok(Ok(y))) => x.len() == y.len() && x.iter().zip(y.iter()).all(|(p, q)| {
            key(&p.0) == key(&q.0) && p.1.iter().map(key).collect::<Vec<_>>() == q.1.iter().map(key).collect::<Vec<_>>()
                && p.2.iter().map(key).collect::<Vec<_>>() == q.2.iter().map(key).collect::<Vec<_>>()
        }),
        (Ok(Err(x)), Ok(Err(y))) => x == y,
        (Err(_), Err(_)) => true,
        _ => false,
    }
}

#[derive(Clone, Debug)]
struct WObs {
    pos_id: u16,
    a: Vec<u32>,
    b: Vec<u32>,
    w: Vec<u32>,
    surface: String,
    norm: String,
    reading: String,
    hwlen: usize,
}

fn word_obs(dic: &JapaneseDictionary, d: usize, w: usize) -> Result<Result<WObs, String>, String> {
    catch(|| {
        let wi = dic.lexicon().get_word_info(WordId::new(d as u8, w as u32)).map_err(|e| err_class(&e))?;
        Ok(WObs {
            pos_id: wi.pos_id(),
            a: wi.a_unit_split().iter().map(|x| x.as_raw()).collect(),
            b: wi.b_unit_split().iter().map(|x| x.as_raw()).collect(),
            w: wi.word_structure().iter().map(|x| x.as_raw()).collect(),
            surface: wi.surface().to_string(), norm: wi.normalized_form().to_string(), reading: wi.reading_form().to_string(),
            hwlen: wi.head_word_length(),
        })
    })
}

fn star<T: ToString>(v: &[T]) -> String { if v.is_empty() { "*".into() } else { join(v.iter().map(|x| x.to_string()), ",") } }

fn build_kind(e: &str) -> String {
    for (pat, k) in [
        ("InvalidSplitWordReference", "SplitRef"), ("InvalidSplit", "InvalidSplit"), ("InvalidFieldSize", "FieldSize"),
        ("InvalidWordId", "InvalidWordId"), ("PosLimitExceeded", "PosLimit"), ("InvalidSize", "InvalidSize"),
    ] {
        if e.contains(pat) { return k.into(); }
    }
    if e.starts_with("PANIC") { if std::env::var("VERIF_DEBUG").is_ok() { eprintln!("{}", e); } return "PANIC".into(); }
    format!("Other({})", e.chars().take(80).collect::<String>())
}

fn load_kind(e: &str) -> String {
    if e.starts_with("PANIC") { return "PANIC:Load".into(); }
    for (pat, k) in [("TooManyDictionaries", "TooManyDictionaries"), ("InvalidPartOfSpeech", "InvalidPos"), ("InvalidDataFormat", "InvalidData"), ("EosBosDisconnect", "Disconnect")] {
        if e.contains(pat) { return format!("err:Load:{}", k); }
    }
    format!("err:Load:Other({})", e.chars().take(80).collect::<String>())
}

/// acceptable targets of a declared unit: (dictionary, row) pairs
fn declared_targets(u: &UnitSpec, d: usize, me: &GDict, sys: &GDict) -> Vec<(usize, usize)> {
    let matching = |s: &str, p: usize, r: &str| -> Vec<(usize, usize)> {
        let mut v = vec![];
        for (j, x) in me.rows.iter().enumerate() {
            if x.row.surface == s && x.row.pos == p && x.row.reading == r { v.push((d, j)); }
        }
        if d != 0 {
            for (j, x) in sys.rows.iter().enumerate() {
                if x.row.headword == s && x.row.pos == p && x.row.reading == r { v.push((0, j)); }
            }
        }
        v
    };
    match u {
        UnitSpec::Own(j) => vec![(d, *j)],
        UnitSpec::Sys(j) => vec![(0, *j)],
        UnitSpec::InlOwn(j) => { let r = &me.rows[*j].row; matching(&r.surface, r.pos, &r.reading) }
        UnitSpec::InlSys(j) => { let r = &sys.rows[*j].row; matching(&r.headword, r.pos, &r.reading) }
        _ => vec![],
    }
}

struct Stack {
    sys: GDict,
    users: Vec<GDict>,
    plug: PlugGen,
    base_plug: bool,
    n_ids: usize,
    matrix: Matrix,
    texts: Vec<String>,
    /// `inhibitPair` lists, one per configured InhibitConnectionPlugin
    conn: Vec<Vec<(usize, usize)>>,
}

/// the smallest instance of finding P1: system POS {P0}, fallback provider registering X (userPOS allow), one user
/// dictionary compiled against the dictionary loaded with that plugin: a row with the new POS Y and a row with X
fn minimal_p1(rng: &mut Rng) -> Stack {
    let mk = |surface: &str, pos: usize, tag: &str| -> GRow {
        let mut row = Row::simple(surface, 0, 0, 100, pos);
        row.reading = "ア".into();
        row.norm = tag.into();
        GRow { row, a: vec![], b: vec![], w: vec![], tag: tag.into() }
    };
    let sys = GDict { rows: vec![mk("あ", 0, "#0w0")] };
    let user = GDict { rows: vec![mk("い", 8, "#1w0"), mk("う", 6, "#1w1")] };
    let x = pos_strings(6);
    let plug = PlugGen {
        json: vec![format!(r#"{{"class":"com.worksap.nlp.sudachi.SimpleOovPlugin","oovPOS":{},"leftId":0,"rightId":0,"cost":9000,"userPOS":"allow"}}"#, pos_json(&x))],
        calls: vec![(true, x)], unk: None,
    };
    Stack { sys, users: vec![user], plug, base_plug: true, n_ids: 2, matrix: Matrix::random(rng, 2, 2, false), texts: vec!["あいう".into(), "い".into()], conn: vec![] }
}

fn gen_stack(rng: &mut Rng, directed: Option<usize>) -> Stack {
    if directed == Some(7) { return minimal_p1(rng); }
    let n_ids = rng.range(2, 4);
    let matrix = Matrix::random(rng, n_ids, n_ids, false);
    let nsyspos = rng.range(2, 6);
    let empty = GDict::default();
    let so = GenOpts {
        user: false, pos_choices: (0..nsyspos).collect(), nsimple: rng.range(2, 5), ncompound: rng.below(3),
        broken: directed.is_none() && rng.chance(1, 60), n_ids, tagp: "0".into(),
    };
    let sys = gen_dict(rng, &empty, &so);
    let known: Vec<usize> = {
        // POS certainly in the system dictionary: those of its rows
        let mut v: Vec<usize> = sys.rows.iter().map(|r| r.row.pos).collect();
        v.sort(); v.dedup(); v
    };
    let mut nusers = match rng.below(12) {
        0 => 0, 1 | 2 => 1, 3 | 4 => 2, 5 => 3, 6 => 13, 7 => 14, 8 => 15, _ => rng.range(0, 15),
    };
    let mut quiet = false;
    let mut sabotage = directed.is_none() && rng.chance(1, 30);
    let mut base_plug = directed.is_none() && rng.chance(1, 8);
    match directed {
        Some(0) => { nusers = 0; }
        Some(1) => { nusers = 1; }
        Some(2) => { nusers = 14; }
        Some(3) => { nusers = 15; }
        Some(4) => { nusers = 2; quiet = true; }
        Some(5) => { nusers = 3; base_plug = true; }
        Some(6) => { nusers = 2; sabotage = true; }
        _ => {}
    }
    let plug = gen_plugins(rng, n_ids, &known, sabotage, quiet);
    // user POS: a few shared "new" POS so that the dictionaries overlap with each other and with the plugins
    let shared: Vec<usize> = (0..rng.range(1, 3)).map(|_| rng.range(0, POOL.len() - 1)).collect();
    let mut users: Vec<GDict> = vec![];
    for u in 0..nusers {
        let mut choices = shared.clone();
        choices.push(*rng.pick(&known));
        for _ in 0..rng.below(3) { choices.push(rng.range(0, POOL.len() - 1)); }
        let small = nusers > 6;
        let uo = GenOpts {
            user: true, pos_choices: choices, nsimple: if small { rng.range(1, 2) } else { rng.range(1, 3) },
            ncompound: if small { rng.below(2) } else { rng.below(3) },
            broken: directed.is_none() && rng.chance(1, 50), n_ids, tagp: format!("{}", u + 1),
        };
        users.push(gen_dict(rng, &sys, &uo));
    }
    // texts over the words of every layer
    let mut texts = vec![];
    let nt = rng.range(2, 3);
    for _ in 0..nt {
        let mut s = String::new();
        for _ in 0..rng.range(1, 5) {
            match rng.below(8) {
                0 | 1 => s.push_str(&rng.pick(&sys.rows).row.surface),
                2..=5 if !users.is_empty() => { let u = rng.pick(&users); s.push_str(&rng.pick(&u.rows).row.surface); }
                6 => s.push_str(*rng.pick(OOV_CHUNKS)),
                _ => s.push_str(&rng.pick(&sys.rows).row.surface),
            }
        }
        texts.push(s);
    }
    // load order: connection-cost plugins (cells inhibited BEFORE the user dictionaries are merged) and rows whose stored cost
    // i16::MIN asks for an estimate at load time (update_cost, on the dictionary as it is when that user dictionary is merged)
    let mut sys = sys;
    let mut conn: Vec<Vec<(usize, usize)>> = vec![];
    let lo = directed.is_none() || matches!(directed, Some(1) | Some(5));
    if lo && rng.chance(1, 2) {
        for _ in 0..rng.range(1, 2) {
            let mut pairs = vec![];
            for _ in 0..rng.below(4) { pairs.push((rng.below(n_ids), rng.below(n_ids))); }
            if directed.is_none() && rng.chance(1, 40) { let k = rng.below(2); pairs.push(if k == 0 { (n_ids, 0) } else { (0, n_ids + rng.below(3)) }); }
            conn.push(pairs);
        }
    }
    if lo && !users.is_empty() && (directed.is_some() || rng.chance(1, 2)) {
        let nd = rng.range(1, 2);
        for _ in 0..nd {
            let u = match rng.below(4) { 0 => 0, 1 => users.len() - 1, _ => rng.below(users.len()) };
            let nr = users[u].rows.len();
            for _ in 0..rng.range(1, 2) {
                let w = rng.below(nr);
                users[u].rows[w].row.cost = -32768;
                if rng.chance(1, 4) {
                    // a headword made of 2-4 copies of a system word with an extreme cost: the estimate leaves the i16 range (clamp)
                    let sw = rng.below(sys.rows.len());
                    sys.rows[sw].row.cost = if rng.chance(1, 2) { 14000 + rng.below(18768) as i32 } else { -(14000 + rng.below(18768) as i32) };
                    users[u].rows[w].row.headword = sys.rows[sw].row.surface.repeat(rng.range(2, 4));
                }
            }
        }
        if rng.chance(1, 10) { let w = rng.below(sys.rows.len()); sys.rows[w].row.cost = -32768; }
    }
    Stack { sys, users, plug, base_plug, n_ids, matrix, texts, conn }
}

/// which `DictBuilder::new_user` / `LexiconReader::preload_pos` the tree has (the model's `PreVariant`):
/// `all` = the pinned one preloads every POS of the base dictionary's grammar, `sys` = the repaired one (finding P1)
/// preloads only its first `num_system_pos` entries.  Decided by reading the source the harness is built against;
/// `VERIF_C12_PRE=all|sys` overrides (used to show that the other instance of the model does NOT fit a tree).
fn impl_pre_variant() -> &'static str {
    static P: std::sync::OnceLock<&'static str> = std::sync::OnceLock::new();
    *P.get_or_init(|| {
        match std::env::var("VERIF_C12_PRE").as_deref() { Ok("all") => return "all", Ok("sys") => return "sys", _ => {} }
        let p = format!("{}/src/dic/build/lexicon.rs", crate::c07::repo_sudachi_dir());
        match std::fs::read_to_string(p) {
            Ok(src) => {
                let code: String = src.lines().map(|l| l.split("//").next().unwrap_or("")).collect::<Vec<_>>().join("\n");
                let f = code.split("fn preload_pos").nth(1).unwrap_or("");
                let body: String = f.split("fn ").next().unwrap_or("").chars().filter(|c| !c.is_whitespace()).collect();
                if body.contains(".take(") { "sys" } else { "all" }
            }
            Err(_) => "all",
        }
    })
}

/// which `JapaneseDictionary::merge_user_dictionary` the tree has (the model's `MergeVariant`): `any` = the pinned one
/// appends the user dictionary's POS table whatever the size of the merged list (finding P2), `limit` = the repaired one
/// refuses (InvalidPartOfSpeech) a table that would make the merged list longer than 65 536 entries, before `update_cost`.
/// Decided by reading the source the harness is built against; `VERIF_C12_MERGE=any|limit` overrides (control runs).
fn impl_merge_variant() -> &'static str {
    static P: std::sync::OnceLock<&'static str> = std::sync::OnceLock::new();
    *P.get_or_init(|| {
        match std::env::var("VERIF_C12_MERGE").as_deref() { Ok("any") => return "any", Ok("limit") => return "limit", _ => {} }
        let p = format!("{}/src/dic/dictionary.rs", crate::c07::repo_sudachi_dir());
        match std::fs::read_to_string(p) {
            Ok(src) => {
                let code: String = src.lines().map(|l| l.split("//").next().unwrap_or("")).collect::<Vec<_>>().join("\n");
                let f = code.split("fn merge_user_dictionary").nth(1).unwrap_or("");
                let body: String = f.split("\n    fn ").next().unwrap_or("").chars().filter(|c| !c.is_whitespace()).collect();
                // the test must come before the lexicon is appended
                let before_append = body.split(".append(").next().unwrap_or("");
                if before_append.contains("u16::MAX") && before_append.contains("pos_list.len()") { "limit" } else { "any" }
            }
            Err(_) => "any",
        }
    })
}

fn gcsv(d: &GDict) -> String {
    let rows: Vec<Row> = d.rows.iter().map(|r| r.row.clone()).collect();
    csv_of(&rows, &pool_vec())
}

fn run_stack(run: &mut Run, idx: usize, rng: &mut Rng, directed: Option<usize>) {
    let st = gen_stack(rng, directed);
    let mut it = Intern::default();
    let k = st.users.len();
    let wd = Workdir::new(&format!("c12-{}", idx));
    if let Some(u) = &st.plug.unk { wd.write("unk_c12.def", u); }
    let conn_json: Vec<String> = st.conn.iter().map(|pl| format!(
        r#"{{"class":"com.worksap.nlp.sudachi.InhibitConnectionPlugin","inhibitPair":[{}]}}"#,
        pl.iter().map(|(l, r)| format!("[{},{}]", l, r)).collect::<Vec<_>>().join(","))).collect();
    let cfg = config_json(&wd, &[], &st.plug.json, &[], &conn_json);
    let n_pairs: usize = st.conn.iter().map(|p| p.len()).sum();
    // the configuration the user builder's base dictionary is loaded with when base=sys: one fallback provider with a system POS
    let base_cfg = config_json(&wd, &[], &[format!(
        r#"{{"class":"com.worksap.nlp.sudachi.SimpleOovPlugin","oovPOS":{},"leftId":0,"rightId":0,"cost":30000}}"#,
        pos_json(&pos_strings(st.sys.rows[0].row.pos)))], &[], &[]);

    let sys_cx = Ctx { user: false, sys: &st.sys };
    let user_cx = Ctx { user: true, sys: &st.sys };
    let sys_wire = dict_wire(&st.sys, &sys_cx, &mut it);
    let plug_wire = st.plug.calls.iter().map(|(a, p)| format!("{}:{}", if *a { "a" } else { "f" }, it.pos(p))).collect::<Vec<_>>().join(";");
    let users_wire = st.users.iter().map(|u| dict_wire(u, &user_cx, &mut it)).collect::<Vec<_>>().join("|");
    let inh_wire = if st.conn.is_empty() { "-".to_string() } else {
        st.conn.iter().map(|pl| pl.iter().map(|(l, r)| format!("{}.{}", l, r)).collect::<Vec<_>>().join(",")).collect::<Vec<_>>().join("|") };
    let costs_wire = std::iter::once(&st.sys).chain(st.users.iter())
        .map(|d| d.rows.iter().map(|r| r.row.cost.to_string()).collect::<Vec<_>>().join(",")).collect::<Vec<_>>().join("|");
    let payload_head = format!("sysrows={} plug={} base={} pre={} mv={} users={} dim={} inh={} costs={}", sys_wire, plug_wire,
        if st.base_plug { "plug" } else { "sys" }, impl_pre_variant(), impl_merge_variant(), users_wire, st.n_ids, inh_wire, costs_wire);
    run.bump(&format!("stack:connplugins:{}", st.conn.len()));
    let n_min: usize = st.users.iter().map(|u| u.rows.iter().filter(|r| r.row.cost == -32768).count()).sum();
    run.bump(&format!("stack:min-cost-rows:{}", n_min.min(4)));
    run.bump(&format!("stack:users:{}", k));
    run.bump(&format!("stack:plugcalls:{}", st.plug.calls.len()));
    run.bump(if st.base_plug { "stack:base:plug" } else { "stack:base:sys" });
    run.bump(&format!("stack:pre:{}", impl_pre_variant()));
    run.bump(&format!("stack:mv:{}", impl_merge_variant()));
    let desc = format!("users={} base={} texts={:?}", k, if st.base_plug { "plug" } else { "sys" }, st.texts);

    // --- real pipeline
    let system = match build_system(gcsv(&st.sys).as_bytes(), st.matrix.text().as_bytes()) {
        Ok(b) => b,
        Err(e) => {
            let kind = build_kind(&e);
            run.bump(&format!("stack:outcome:build-error:0:{}", kind));
            let ans = if kind == "PANIC" { "PANIC:Build:0".to_string() } else { format!("err:Build:0:{}", kind) };
            run.case(idx, "stack", &format!("{} wids=", payload_head), &ans, false);
            return;
        }
    };
    let base = match load(if st.base_plug { &cfg } else { &base_cfg }, system.clone(), vec![]) {
        Ok(d) => d,
        Err(e) => {
            let ans = load_kind(&e);
            run.bump(&format!("stack:outcome:{}", ans));
            run.case(idx, "stack", &format!("{} wids=", payload_head), &ans, false);
            if !st.base_plug { run.fail(idx, "harness:base-load", &format!("the plain base dictionary does not load: {}", e)); }
            return;
        }
    };
    let mut bins = vec![];
    for (u, d) in st.users.iter().enumerate() {
        match build_user(&base, gcsv(d).as_bytes()) {
            Ok(b) => bins.push(b),
            Err(e) => {
                let kind = build_kind(&e);
                run.bump(&format!("stack:outcome:build-error:user:{}", kind));
                let ans = if kind == "PANIC" { format!("PANIC:Build:{}", u + 1) } else { format!("err:Build:{}:{}", u + 1, kind) };
                run.case(idx, "stack", &format!("{} wids=", payload_head), &ans, false);
                return;
            }
        }
    }
    drop(base);
    // what update_cost must see: the headword of every i16::MIN row of user dictionary j+1 analysed (NEW tokenizer, new list) over
    // the really loaded dictionary made of the system dictionary, the whole plugin configuration and the first j user dictionaries
    let mut est: HashMap<(usize, usize), Result<(i32, usize), String>> = HashMap::new();   // (user index, row) -> internal cost, morphemes
    let mut est_wire: Vec<String> = vec![];
    for (j, u) in st.users.iter().enumerate() {
        if !u.rows.iter().any(|r| r.row.cost == -32768) { continue; }
        let prefix = match load(&cfg, system.clone(), bins[..j].to_vec()) { Ok(d) => d, Err(_) => break };
        for (w, r) in u.rows.iter().enumerate() {
            if r.row.cost != -32768 { continue; }
            let m = catch(|| -> Result<(i32, usize), String> {
                let mut tok = StatefulTokenizer::create(&prefix, false, Mode::C);
                tok.reset().push_str(&r.row.headword);
                tok.do_tokenize().map_err(|e| err_class(&e))?;
                let mut ml = MorphemeList::empty(&prefix);
                ml.collect_results(&mut tok).map_err(|e| err_class(&e))?;
                Ok((ml.get_internal_cost(), ml.len()))
            });
            let m = match m { Ok(x) => x, Err(p) => Err(format!("PANIC {}", p)) };
            est_wire.push(format!("{}.{}.{}:{}", j + 1, n_pairs, it.tok(&r.row.headword),
                match &m { Ok((c, n)) => format!("{}.{}", c, n), Err(_) => "E".into() }));
            est.insert((j, w), m);
        }
    }
    est_wire.sort(); est_wire.dedup();
    let payload_head = format!("{} est={}", payload_head, est_wire.join(";"));
    let loaded = load(&cfg, system.clone(), bins);
    let dic = match loaded {
        Ok(d) => d,
        Err(e) => {
            let ans = load_kind(&e);
            run.bump(&format!("stack:outcome:{}", ans));
            run.case(idx, "stack", &format!("{} wids=", payload_head), &ans, k >= 15);
            // oracle: only a 15th dictionary or a refused plugin POS may stop the load
            if ans == "err:Load:TooManyDictionaries" {
                if k < 15 { run.fail(idx, "load:rejected-below-15", &format!("{} user dictionaries rejected as too many | {}", k, desc)); }
            } else if ans == "err:Load:InvalidPos" {
                let expected = st.plug.calls.iter().any(|(a, p)| p.len() != 6 || !*a);
                if !expected { run.fail(idx, "load:pos-refused", &format!("load failed with an InvalidPartOfSpeech although every plugin POS is allowed | {}", desc)); }
            } else if ans == "err:Load:InvalidData" {
                if !st.conn.iter().flatten().any(|(l, r)| *l >= st.n_ids || *r >= st.n_ids) {
                    run.fail(idx, "load:pairs-refused", &format!("load failed with InvalidDataFormat although every inhibitPair is inside the matrix | {}", desc));
                }
            } else if ans == "err:Load:Disconnect" {
                if !est.values().any(|m| m.is_err()) {
                    run.fail(idx, "load:estimate-failed", &format!("load failed with EosBosDisconnect although every i16::MIN headword is analysable over its prefix dictionary | {}", desc));
                }
            } else {
                run.fail(idx, "load:unexpected-error", &format!("{} | {}", e, desc));
            }
            return;
        }
    };
    run.bump("stack:outcome:loaded");
    if k >= 15 {
        // recorded below as a case too; the property demands an error value
        run.bump("stack:15-accepted");
    }

    // observations: POS list, every word, morphemes
    let pos_list: Vec<Vec<String>> = dic.grammar().pos_list.clone();
    let pos_wire = pos_list.iter().map(|p| it.pos(p)).collect::<Vec<_>>().join(";");
    let mut dicts: Vec<&GDict> = vec![&st.sys];
    for u in &st.users { dicts.push(u); }
    let mut word_lines = vec![];
    let mut wobs: Vec<Vec<Option<WObs>>> = vec![];
    for (d, gd) in dicts.iter().enumerate() {
        let mut row_obs = vec![];
        for w in 0..gd.rows.len() {
            match word_obs(&dic, d, w) {
                Ok(Ok(o)) => {
                    let p = match pos_list.get(o.pos_id as usize) { Some(p) => it.pos(p), None => "OOB".into() };
                    word_lines.push(format!("{}.{}:{}:{}:{}:{}:{}", d, w, o.pos_id, p, star(&o.a), star(&o.b), star(&o.w)));
                    row_obs.push(Some(o));
                }
                Ok(Err(e)) => { word_lines.push(format!("{}.{}:err:{}", d, w, e)); row_obs.push(None); }
                Err(_) => { word_lines.push(format!("{}.{}:PANIC", d, w)); row_obs.push(None); }
            }
        }
        wobs.push(row_obs);
    }
    let mut observed: Vec<(String, Result<Result<Observed, String>, String>)> = vec![];
    let mut wids: Vec<String> = vec![];
    let mut mans: Vec<String> = vec![];
    // about half of the cases analyse on RECYCLED objects (one tokenizer + one morpheme list that went through 1-4 other
    // analyses before each text); the expected answer is the same: the property does not depend on history
    let mut hrng = Rng::for_case(run.opts.seed ^ 0x5ec1_c1ed, idx);
    let recycled = hrng.chance(1, 2);
    run.bump(if recycled { "stack:analyser:recycled" } else { "stack:analyser:fresh" });
    let mut pool: Vec<String> = vec![];
    for gd in dicts.iter() { for r in gd.rows.iter() { pool.push(r.row.surface.clone()); } }
    for c in OOV_CHUNKS { pool.push(c.to_string()); }
    let mut rec = if recycled { Some(Recycled::new(&dic)) } else { None };
    let mut history_diff: Option<String> = None;
    for t in &st.texts {
        let o = match rec.as_mut() {
            Some(r) => {
                r.warm_up(&mut hrng, t, &pool);
                let o = r.observe(t);
                if history_diff.is_none() {
                    let fresh = observe(&dic, t);
                    if !same_observed(&o, &fresh) {
                        history_diff = Some(format!("text {:?} after [{}]: recycled objects give {:?}, new objects {:?}", t, r.log.join(" ; "),
                            o.as_ref().map(|x| x.as_ref().map(|ms| ms.iter().map(|m| (m.0.surface.clone(), m.0.did, m.0.pos_id)).collect::<Vec<_>>())),
                            fresh.as_ref().map(|x| x.as_ref().map(|ms| ms.iter().map(|m| (m.0.surface.clone(), m.0.did, m.0.pos_id)).collect::<Vec<_>>()))));
                    }
                }
                o
            }
            None => observe(&dic, t),
        };
        if let Ok(Ok(ms)) = &o {
            for (m, sa, sb) in ms {
                for x in std::iter::once(m).chain(sa.iter()).chain(sb.iter()) {
                    if wids.len() >= 80 { break; }
                    wids.push(x.raw.to_string());
                    mans.push(format!("{}:{}:{}", x.did, x.pos_id, it.pos(&x.pos)));
                }
            }
        }
        observed.push((t.clone(), o));
    }
    let cost_obs: Vec<Vec<Option<i16>>> = dicts.iter().enumerate().map(|(d, gd)| (0..gd.rows.len()).map(|w|
        catch(|| dic.lexicon().get_word_param(WordId::new(d as u8, w as u32)).2).ok()).collect()).collect();
    let inh_obs: usize = st.conn.iter().flatten().filter(|(l, r)| catch(|| dic.grammar().connect_cost(*l as i16, *r as i16)).ok() == Some(i16::MAX)).count();
    let payload = format!("{} wids={}", payload_head, wids.join(","));
    let ans = format!("ok pos={} words={} m={} cost={} inh={}", pos_wire, word_lines.join(";"), mans.join(";"),
        cost_obs.iter().map(|v| v.iter().map(|c| match c { Some(c) => c.to_string(), None => "PANIC".into() }).collect::<Vec<_>>().join(",")).collect::<Vec<_>>().join("|"), inh_obs);
    let own_pos_used = st.users.iter().any(|u| u.rows.iter().any(|r| !st.sys.rows.iter().any(|s| s.row.pos == r.row.pos)));
    run.case(idx, "stack", &payload, &ans, k >= 1 && own_pos_used);

    // --- oracle (independent of the model): the CSV sources are the specification
    let sfx = if st.base_plug { ":base-plug" } else { "" };
    if k >= 15 {
        run.fail(idx, "load:accepts-15", &format!("{} user dictionaries were accepted (the 15th must be rejected) | {}", k, desc));
    }
    // tag -> (dictionary, row)
    let mut tags: HashMap<String, (usize, usize)> = HashMap::new();
    for (d, gd) in dicts.iter().enumerate() { for (w, r) in gd.rows.iter().enumerate() { tags.insert(r.tag.clone(), (d, w)); } }
    let tag_of_raw = |raw: u32| -> Option<String> {
        let id = WordId::from_raw(raw);
        match catch(|| dic.lexicon().get_word_info(id)) { Ok(Ok(wi)) => Some(wi.normalized_form().to_string()), _ => None }
    };
    'words: for (d, gd) in dicts.iter().enumerate() {
        for (w, r) in gd.rows.iter().enumerate() {
            let o = match &wobs[d][w] {
                Some(o) => o,
                None => { run.fail(idx, &format!("word:unreadable{}", sfx), &format!("word {} of dictionary {} cannot be read | {}", w, d, desc)); break 'words; }
            };
            let declared = pos_strings(r.row.pos);
            let got = pos_list.get(o.pos_id as usize);
            if got != Some(&declared) {
                run.fail(idx, &format!("pos:word{}", sfx), &format!("dictionary {} word {} ({}): POS id {} = {:?}, declared {:?} | {}", d, w, r.row.surface, o.pos_id, got, declared, desc));
                break 'words;
            }
            if o.norm != r.tag {
                run.fail(idx, &format!("word:identity{}", sfx), &format!("dictionary {} word {}: normalized form {:?}, declared {:?} | {}", d, w, o.norm, r.tag, desc));
                break 'words;
            }
            for (label, spec, got) in [("a", &r.a, &o.a), ("b", &r.b, &o.b), ("w", &r.w, &o.w)] {
                if spec.len() != got.len() {
                    run.fail(idx, &format!("split:count{}", sfx), &format!("dictionary {} word {} {}-split: {} units reported, {} declared | {}", d, w, label, got.len(), spec.len(), desc));
                    break 'words;
                }
                for (u, &raw) in spec.iter().zip(got.iter()) {
                    let id = WordId::from_raw(raw);
                    let td = id.dic() as usize;
                    if td != 0 && td != d {
                        run.fail(idx, &format!("split:foreign-dictionary{}", sfx), &format!("dictionary {} word {} {}-split refers to dictionary {} | {}", d, w, label, td, desc));
                        break 'words;
                    }
                    let acceptable = declared_targets(u, d, gd, &st.sys);
                    if !acceptable.contains(&(td, id.word() as usize)) {
                        run.fail(idx, &format!("split:target{}", sfx), &format!("dictionary {} word {} {}-split unit {:?}: reported ({}, {}), declared one of {:?} | {}", d, w, label, u, td, id.word(), acceptable, desc));
                        break 'words;
                    }
                }
            }
        }
    }
    // stored costs are reported as declared; an i16::MIN cost of a USER dictionary row is replaced at load time by the estimate taken
    // over the dictionary as it was when that dictionary was merged (all connection edits applied, earlier user dictionaries only)
    if inh_obs != n_pairs {
        run.fail(idx, "conn:inhibited", &format!("{} of the {} configured inhibitPair cells read INHIBITED_CONNECTION after the load | {}", inh_obs, n_pairs, desc));
    }
    'costs: for (d, gd) in dicts.iter().enumerate() {
        for (w, r) in gd.rows.iter().enumerate() {
            let got = cost_obs[d][w];
            if d == 0 || r.row.cost != -32768 {
                if got != Some(r.row.cost as i16) {
                    run.fail(idx, &format!("cost:declared{}", sfx), &format!("dictionary {} word {} ({}): cost {:?}, declared {} | {}", d, w, r.row.surface, got, r.row.cost, desc));
                    break 'costs;
                }
            } else {
                match est.get(&(d - 1, w)) {
                    Some(Ok((ic, n))) => {
                        let want = (*ic as i64 - 20 * *n as i64).clamp(i16::MIN as i64, i16::MAX as i64) as i16;
                        run.bump("cost:estimated");
                        if got != Some(want) {
                            run.fail(idx, &format!("cost:estimated{}", sfx), &format!("dictionary {} word {} ({}, stored cost i16::MIN): cost {:?} after the load; its headword over the system dictionary + plugins + the first {} user dictionaries costs {} in {} morphemes, i.e. {} | {}", d, w, r.row.headword, got, d - 1, ic, n, want, desc));
                            break 'costs;
                        }
                    }
                    _ => { run.fail(idx, "harness:estimate-missing", &format!("dictionary {} word {}: loaded although no estimate could be measured | {}", d, w, desc)); break 'costs; }
                }
            }
        }
    }
    // system words unaffected by the user dictionaries
    if k > 0 {
        match load(&cfg, system, vec![]) {
            Ok(plain) => {
                let ppos = &plain.grammar().pos_list;
                for w in 0..st.sys.rows.len() {
                    let a = word_obs(&plain, 0, w);
                    let b = &wobs[0][w];
                    let same = match (&a, b) {
                        (Ok(Ok(x)), Some(y)) => x.pos_id == y.pos_id && x.a == y.a && x.b == y.b && x.w == y.w && x.surface == y.surface
                            && x.norm == y.norm && x.reading == y.reading && x.hwlen == y.hwlen
                            && ppos.get(x.pos_id as usize) == pos_list.get(y.pos_id as usize)
                            && catch(|| plain.lexicon().get_word_param(WordId::new(0, w as u32))).ok() == catch(|| dic.lexicon().get_word_param(WordId::new(0, w as u32))).ok(),
                        _ => false,
                    };
                    if !same {
                        run.fail(idx, "system:changed", &format!("system word {}: alone {:?}, under {} user dictionaries {:?} | {}", w, a, k, b, desc));
                        break;
                    }
                }
                if pos_list.len() < ppos.len() || pos_list[..ppos.len()] != ppos[..] {
                    run.fail(idx, "system:pos-prefix", &format!("the POS list with user dictionaries does not start with the list without them | {}", desc));
                }
            }
            Err(e) => run.fail(idx, "system:plain-load", &format!("system dictionary alone does not load: {} | {}", e, desc)),
        }
    }
    // morphemes
    let oov_pos: Vec<&Vec<String>> = st.plug.calls.iter().map(|(_, p)| p).collect();
    'texts: for (t, o) in &observed {
        let ms = match o {
            Ok(Ok(ms)) => ms,
            Ok(Err(e)) => { run.bump(&format!("stack:tokenize-error:{}", e)); continue; }
            Err(p) => {
                run.fail(idx, &format!("morph:panic{}", sfx), &format!("tokenising {:?} panics: {} | {}", t, p.chars().take(100).collect::<String>(), desc));
                break;
            }
        };
        run.bump_by("stack:morphemes", ms.len() as u64);
        for (m, sa, sb) in ms {
            for x in std::iter::once(m).chain(sa.iter()).chain(sb.iter()) {
                match tags.get(&x.norm) {
                    Some(&(d, w)) => {
                        run.bump(if d == 0 { "morph:system" } else { "morph:user" });
                        if x.did != d as i32 {
                            run.fail(idx, &format!("morph:dictid{}", sfx), &format!("text {:?} morpheme {:?} comes from dictionary {} (row {}), dictionary_id() = {} | {}", t, x.surface, d, w, x.did, desc));
                            break 'texts;
                        }
                        if x.pos != pos_strings(dicts[d].rows[w].row.pos) {
                            run.fail(idx, &format!("morph:pos{}", sfx), &format!("text {:?} morpheme {:?} (dictionary {} row {}): part_of_speech() = {:?}, declared {:?} | {}", t, x.surface, d, w, x.pos, POOL[dicts[d].rows[w].row.pos], desc));
                            break 'texts;
                        }
                    }
                    None => {
                        run.bump("morph:oov");
                        if x.did != -1 {
                            run.fail(idx, &format!("morph:oov-dictid{}", sfx), &format!("text {:?} morpheme {:?} is in no dictionary, dictionary_id() = {} | {}", t, x.surface, x.did, desc));
                            break 'texts;
                        }
                        if !oov_pos.iter().any(|p| **p == x.pos) {
                            run.fail(idx, &format!("morph:oov-pos{}", sfx), &format!("text {:?} OOV morpheme {:?}: part_of_speech() = {:?} is not the POS of any configured OOV provider | {}", t, x.surface, x.pos, desc));
                            break 'texts;
                        }
                    }
                }
            }
            // the split of a dictionary morpheme consists of the declared units
            if let Some(&(d, w)) = tags.get(&m.norm) {
                for (label, spec, got) in [("A", &dicts[d].rows[w].a, sa), ("B", &dicts[d].rows[w].b, sb)] {
                    if spec.is_empty() { continue; }
                    run.bump("morph:split");
                    let ok = spec.len() == got.len() && spec.iter().zip(got.iter()).all(|(u, g)| {
                        let acc = declared_targets(u, d, dicts[d], &st.sys);
                        match tags.get(&g.norm) { Some(t) => acc.contains(t) && g.did == t.0 as i32, None => false }
                    });
                    if !ok {
                        run.fail(idx, &format!("morph:split{}", sfx), &format!("text {:?} morpheme {:?} (dictionary {} row {}) mode {}: units {:?}, declared {:?} | {}", t, m.surface, d, w, label,
                            got.iter().map(|g| (g.did, g.norm.clone())).collect::<Vec<_>>(), spec, desc));
                        break 'texts;
                    }
                }
            }
        }
    }
    if let Some(h) = history_diff {
        run.fail(idx, &format!("morph:history{}", sfx), &format!("{} | {}", h, desc));
    }
    let _ = tag_of_raw;
}

// ------------------------------------------------------------------------------------------------ poslimit

/// POS of table `t` (0 = system dictionary, 1 = registered by OOV plugins, 2 + u = own table of user dictionary u), entry `i`
fn syn_pos(t: usize, i: usize) -> [String; 6] {
    ["名詞".into(), format!("T{}", t), format!("P{}", i), "*".into(), "*".into(), "*".into()]
}

/// inverse of `syn_pos` on the strings the loaded grammar reports
fn syn_pos_name(p: &[String]) -> String {
    if p.len() == 6 && p[0] == "名詞" && p[1].starts_with('T') && p[2].starts_with('P') { format!("{}.{}", &p[1][1..], &p[2][1..]) } else { "?".into() }
}

/// one dictionary whose row `i` is a word with the POS `syn_pos(t, i)`: as many parts of speech as rows
fn syn_rows(t: usize, n: usize, prefix: &str) -> (Vec<Row>, Vec<[String; 6]>) {
    let pool: Vec<[String; 6]> = (0..n).map(|i| syn_pos(t, i)).collect();
    let rows = (0..n).map(|i| {
        let mut r = Row::simple(&format!("{}{}", prefix, i), 0, 0, 100, i);
        r.reading = "ア".into();
        r
    }).collect();
    (rows, pool)
}

/// the dictionaries of the `poslimit` cases, compiled once per process by the real `DictBuilder`: a system dictionary with ONE part
/// of speech and user dictionaries compiled against it with as many own parts of speech as rows — 32 767 is the most the builder
/// allows next to one system POS (`MAX_POS_IDS`: 32 768 entries in its map), so TWO of them plus the system POS plus one POS
/// registered by an OOV plugin make exactly 65 536 entries
struct PosWorld {
    system: Vec<u8>,
    bins: Vec<Vec<u8>>,
    sizes: Vec<usize>,
}

const POSLIMIT_S: usize = 1;
const POSLIMIT_BIG: usize = 5;

fn pos_world() -> &'static Result<PosWorld, (String, String)> {
    static W: std::sync::OnceLock<Result<PosWorld, (String, String)>> = std::sync::OnceLock::new();
    W.get_or_init(|| {
        let s = POSLIMIT_S;
        let sizes: Vec<usize> = vec![32768 - s, 32768 - s, 32768 - s, 32767 - s, 32761 - s, 5, 2, 1];
        let wd = Workdir::new("c12pw");
        let (srows, spool) = syn_rows(0, s, "s");
        let system = build_system(csv_of(&srows, &spool).as_bytes(), "1 1\n0 0 0\n".as_bytes())
            .map_err(|e| ("harness:poslimit-build".to_string(), format!("system dictionary does not compile: {}", e)))?;
        let base_cfg = config_json(&wd, &[], &[format!(
            r#"{{"class":"com.worksap.nlp.sudachi.SimpleOovPlugin","oovPOS":{},"leftId":0,"rightId":0,"cost":30000}}"#,
            pos_json(&syn_pos(0, 0).to_vec()))], &[], &[]);
        let base = load(&base_cfg, system.clone(), vec![])
            .map_err(|e| ("harness:poslimit-build".to_string(), format!("system dictionary does not load: {}", e)))?;
        let mut bins: Vec<Vec<u8>> = vec![];
        for (u, n) in sizes.iter().enumerate() {
            let (rows, pool) = syn_rows(2 + u, *n, &format!("u{}w", u));
            let bin = build_user(&base, csv_of(&rows, &pool).as_bytes())
                .map_err(|e| ("harness:poslimit-build".to_string(), format!("user dictionary {} ({} rows, {} own POS) does not compile: {}", u, n, n, e)))?;
            // what the model is told about the binary, checked on the binary alone: own table = syn_pos(2+u, 0..n), word w stored with id S + w
            let ok = catch(|| -> bool {
                let dl = match DictionaryLoader::read_user_dictionary(&bin) { Ok(d) => d, Err(_) => return false };
                let own_ok = match &dl.grammar { Some(g) => g.pos_list.len() == *n && g.pos_list.iter().enumerate().all(|(i, p)| p[..] == syn_pos(2 + u, i)[..]), None => false };
                let mut lex = dl.lexicon;
                lex.set_dic_id(0);
                own_ok && lex.size() as usize == *n && (0..*n).all(|w| matches!(lex.get_word_info(w as u32, InfoSubset::POS_ID), Ok(wi) if wi.pos_id() as usize == s + w))
            });
            if ok != Ok(true) {
                return Err(("harness:poslimit-layout".to_string(), format!("user dictionary {}: own POS table / stored ids are not the expected ones", u)));
            }
            bins.push(bin);
        }
        Ok(PosWorld { system, bins, sizes })
    })
}

/// Finding P2 / its repair: the merged POS list at the edge of what a `u16` id can address.  One load = one case line
/// (`C12 poslimit`): the model gets the sizes, the real code gets the real dictionaries.  `q` OOV plugins each register one new POS
/// (userPOS allow; the last one is the fallback provider), `order` = the user dictionaries of `pos_world` in load order.
fn poslimit_load(run: &mut Run, idx: usize, rng: &mut Rng, w: &PosWorld, wd: &Workdir, q: usize, order: &[usize], name: &str) {
    const S: usize = POSLIMIT_S;
    let oov: Vec<String> = (0..q).map(|k| format!(
        r#"{{"class":"com.worksap.nlp.sudachi.SimpleOovPlugin","oovPOS":{},"leftId":0,"rightId":0,"cost":{},"userPOS":"allow"}}"#,
        pos_json(&syn_pos(1, k).to_vec()), 20000 + k)).collect();
    let cfg = config_json(wd, &[], &oov, &[], &[]);
    let users: Vec<Vec<u8>> = order.iter().map(|u| w.bins[*u].clone()).collect();
    let ns: Vec<usize> = order.iter().map(|u| w.sizes[*u]).collect();
    let tabs: Vec<usize> = order.iter().map(|u| 2 + *u).collect();
    let total: usize = S + q + ns.iter().sum::<usize>();
    // queried words: first / middle / last of every dictionary, the words around entries 65535 / 65536 (and 131071 / 131072), a few random ones
    let mut qs: Vec<(usize, usize)> = vec![(0, 0)];
    let mut start = S + q;
    for (d, n) in ns.iter().enumerate() {
        let mut ws = vec![0, 1, n / 2, n.saturating_sub(2), n - 1];
        for edge in [65534usize, 65535, 65536, 65537, 131071, 131072] { if edge >= start && edge - start < *n { ws.push(edge - start); } }
        for _ in 0..2 { ws.push(rng.below(*n)); }
        ws.sort(); ws.dedup();
        for w in ws { if w < *n { qs.push((d + 1, w)); } }
        start += n;
    }
    let payload = format!("mv={} s={} q={} users={} tabs={} w={}", impl_merge_variant(), S, q, join(ns.iter(), ","), join(tabs.iter(), ","),
        qs.iter().map(|(d, w)| format!("{}.{}", d, w)).collect::<Vec<_>>().join(","));
    run.bump(&format!("poslimit:{}", name));
    run.bump(&format!("poslimit:mv:{}", impl_merge_variant()));
    run.bump(if total < 65536 { "poslimit:entries:below-65536" } else if total == 65536 { "poslimit:entries:65536" } else if total == 65537 { "poslimit:entries:65537" } else { "poslimit:entries:above-65537" });
    let t1 = std::time::Instant::now();
    let loaded = load(&cfg, w.system.clone(), users);
    if std::env::var("VERIF_DEBUG").is_ok() { eprintln!("poslimit {}: load {:?} total POS {}", name, t1.elapsed(), total); }
    let desc = format!("{}: system POS {}, plugin POS {}, user dictionaries with {:?} own POS: {} entries", name, S, q, ns, total);
    let dic = match loaded {
        Ok(d) => d,
        Err(e) => {
            let ans = load_kind(&e);
            run.bump(&format!("poslimit:outcome:{}", ans));
            run.case(idx, "poslimit", &payload, &ans, true);
            // oracle: a load error is an acceptable answer only for a list no u16 id can address (or a 15th dictionary)
            if ans == "err:Load:TooManyDictionaries" && order.len() >= 15 {
            } else if total <= 65536 {
                run.fail(idx, "load:pos-limit-below-u16", &format!("load failed ({}) although the merged POS list has {} <= 65536 entries | {}", e, total, desc));
            } else if ans != "err:Load:InvalidPos" {
                run.fail(idx, "load:unexpected-error", &format!("{} | {}", e, desc));
            }
            return;
        }
    };
    run.bump("poslimit:outcome:loaded");
    let pos_list: &Vec<Vec<String>> = &dic.grammar().pos_list;
    let mut wl = vec![];
    let mut bad: Option<(String, String)> = None;
    for (d, w) in &qs {
        // the specification: the CSV row — word w of dictionary d was declared with syn_pos(table of d, w)
        let table = if *d == 0 { 0 } else { tabs[*d - 1] };
        let declared = syn_pos(table, *w);
        // where the loader puts that entry: after the system and plugin POS and the tables of the earlier dictionaries
        let position = if *d == 0 { *w } else { S + q + ns[..*d - 1].iter().sum::<usize>() + *w };
        match catch(|| dic.lexicon().get_word_info(WordId::new(*d as u8, *w as u32)).map(|wi| wi.pos_id())) {
            Ok(Ok(id)) => {
                let got = pos_list.get(id as usize);
                wl.push(format!("{}.{}:{}:{}", d, w, id, match got { Some(p) => syn_pos_name(p), None => "OOB".into() }));
                if bad.is_none() && got.map(|p| &p[..]) != Some(&declared[..]) {
                    // the key names the finding only when the wrong answer IS the u16 wrap: the entry lies beyond 65535 and the id is
                    // its position modulo 65536; any other wrong part of speech here is a new violation
                    let wrapped = position >= 65536 && id as usize == position % 65536;
                    bad = Some((if wrapped { "pos:word:u16-wrap".into() } else { "pos:word:poslimit".into() },
                        format!("dictionary {} word {}: POS id {} = {:?}, declared {:?} (entry {} of the merged list of {}) | {}", d, w, id, got, declared, position, pos_list.len(), desc)));
                }
            }
            Ok(Err(e)) => { wl.push(format!("{}.{}:err", d, w)); if bad.is_none() { bad = Some(("word:unreadable:poslimit".into(), format!("dictionary {} word {}: {:?} | {}", d, w, e, desc))); } }
            Err(_) => { wl.push(format!("{}.{}:PANIC", d, w)); if bad.is_none() { bad = Some(("word:unreadable:poslimit".into(), format!("dictionary {} word {} panics | {}", d, w, desc))); } }
        }
    }
    let ans = format!("ok n={} w={}", pos_list.len(), wl.join(";"));
    run.case(idx, "poslimit", &payload, &ans, true);
    if pos_list.len() != total {
        run.fail(idx, "pos:list-length:poslimit", &format!("the merged POS list has {} entries, expected {} | {}", pos_list.len(), total, desc));
    }
    if let Some((key, what)) = bad { run.fail(idx, &key, &what); }
}

fn run_poslimit(run: &mut Run, idx: usize, rng: &mut Rng, directed: bool) {
    let w = match pos_world() {
        Ok(w) => w,
        Err((key, what)) => { run.fail_with_line(idx, "", key, what); return; }
    };
    let wd = Workdir::new(&format!("c12p-{}", idx));
    if directed {
        // user dictionaries 0 and 1 have 32767 own POS each, dictionary 5 has five
        let loads: [(usize, Vec<usize>, &str); 6] = [
            (1, vec![0, 1], "at-limit"),            // 1 + 1 + 2 * 32767 = 65536: the last word has id 65535
            (2, vec![0, 1], "plugin-pos-over"),     // 65537: the last own POS of the second dictionary is entry 65536
            (1, vec![0, 1, 5], "third-over"),       // 65541: the five POS of the small third dictionary are entries 65536..65540
            (1, vec![5, 0, 1], "last-over"),        // 65541: the second big dictionary ends beyond the limit
            (1, vec![0, 5], "below"),               // 32774
            (3, vec![0, 1, 2, 5], "twice-over"),    // 98310: far beyond; entries 65536.. of two dictionaries
        ];
        for (q, order, name) in loads.iter() { poslimit_load(run, idx, rng, w, &wd, *q, order, name); }
    } else {
        let q = rng.range(1, 4);
        let nb = *rng.pick(&[1usize, 2, 2, 2, 2, 3, 4]);
        let nsmall = rng.below(4);
        let mut bigs: Vec<usize> = (0..POSLIMIT_BIG).collect();
        for i in (1..bigs.len()).rev() { let j = rng.below(i + 1); bigs.swap(i, j); }
        let mut smalls: Vec<usize> = (POSLIMIT_BIG..w.sizes.len()).collect();
        for i in (1..smalls.len()).rev() { let j = rng.below(i + 1); smalls.swap(i, j); }
        let mut order: Vec<usize> = bigs[..nb].iter().chain(smalls[..nsmall.min(smalls.len())].iter()).cloned().collect();
        for i in (1..order.len()).rev() { let j = rng.below(i + 1); order.swap(i, j); }
        poslimit_load(run, idx, rng, w, &wd, q, &order, "generated");
    }
}

// ------------------------------------------------------------------------------------------------ reads

/// one line of a CSV source given to a builder of a `reads` case
#[derive(Clone, Debug)]
struct RLine {
    g: GRow,
    /// 0 = well-formed, 1 = malformed in a column before the splits (nothing interned), 2 = empty surface (rejected after
    /// everything was interned), 3 = an A-mode row with splits (rejected by the reader for its content: the model needs no mark)
    defect: u8,
    early_kind: usize,
    /// the word number in the compiled dictionary, for a line the builder keeps
    kept: Option<usize>,
}

#[derive(Clone, Debug, Default)]
struct RSource {
    lines: Vec<RLine>,
    /// index of the rejected line
    bad: Option<usize>,
}

struct RUser {
    sources: Vec<RSource>,
    /// the rows the builder keeps, in word-number order: the declared data of the compiled dictionary
    kept: GDict,
}

/// One user dictionary = ONE `DictBuilder::new_user` that is given 1-4 CSV sources, some of which are rejected at their k-th line
/// after 0-3 valid rows; the caller goes on (further sources, resolve, compile).
fn gen_reads_user(rng: &mut Rng, sys: &GDict, choices: &[usize], n_ids: usize, tagp: &str, force_fail: bool, directed: Option<usize>) -> RUser {
    // plan: (rows in front, Some(defect) + rows behind)
    let nsrc = rng.range(1, 4);
    let mut plan: Vec<(usize, Option<(u8, usize)>)> = (0..nsrc).map(|_| {
        let front = rng.below(4);
        let fail = if rng.chance(1, 2) { Some((*rng.pick(&[1u8, 1, 2, 3, 3]), rng.below(3))) } else { None };
        (front, fail)
    }).collect();
    if let Some(k) = directed {
        // the smallest instances: [valid row with a new POS, rejected line] then (0) nothing, (1) a source with another new POS, (2) two rejected sources in a row and an accepted one
        plan = match k {
            0 => vec![(1, Some((1, 0)))],
            1 => vec![(1, Some((3, 0))), (1, None)],
            _ => vec![(2, Some((2, 1))), (1, Some((1, 1))), (2, None)],
        };
    }
    if force_fail && !plan.iter().any(|p| p.1.is_some()) { let i = rng.below(plan.len()); plan[i].1 = Some((*rng.pick(&[1u8, 2, 3]), rng.below(2))); plan[i].0 = plan[i].0.max(1); }
    if plan.iter().map(|p| p.0).sum::<usize>() == 0 { plan[0].0 = 1; }
    let id = |rng: &mut Rng| rng.below(n_ids) as i32;
    let simple = |rng: &mut Rng| -> GRow {
        let mut row = Row::simple(&rand_word(rng, SURF_CHARS, 2), id(rng), id(rng), rng.below(3000) as i32 - 500, *rng.pick(choices));
        row.reading = rand_word(rng, READ_CHARS, 2);
        GRow { row, a: vec![], b: vec![], w: vec![], tag: String::new() }
    };
    let mut sources: Vec<RSource> = vec![];
    let mut nkept = 0;
    let mut nother = 0;
    for (front, fail) in &plan {
        let mut src = RSource::default();
        for _ in 0..*front { src.lines.push(RLine { g: simple(rng), defect: 0, early_kind: 0, kept: Some(nkept) }); nkept += 1; }
        if let Some((defect, behind)) = fail {
            src.bad = Some(src.lines.len());
            src.lines.push(RLine { g: simple(rng), defect: *defect, early_kind: rng.below(3), kept: None });
            for _ in 0..*behind { src.lines.push(RLine { g: simple(rng), defect: 0, early_kind: 0, kept: None }); }
        }
        sources.push(src);
    }
    if let Some(_) = directed {
        // every row its own POS, none of them a system POS
        let mut p = POOL.len();
        for s in sources.iter_mut() { for l in s.lines.iter_mut() { p -= 1; l.g.row.pos = p; } }
    }
    for s in sources.iter_mut() { for l in s.lines.iter_mut() {
        l.g.tag = match l.kept { Some(w) => format!("#{}w{}", tagp, w), None => { nother += 1; format!("#{}x{}", tagp, nother) } };
        l.g.row.norm = l.g.tag.clone();
    } }
    // compounds: units refer to kept rows that stay simple, and to system rows
    let kept0 = GDict { rows: sources.iter().flat_map(|s| s.lines.iter()).filter(|l| l.kept.is_some()).map(|l| l.g.clone()).collect() };
    let mut compound: Vec<bool> = vec![false; nkept];
    if directed.is_none() { for c in compound.iter_mut() { *c = rng.chance(1, 3); } }
    if compound.iter().all(|c| *c) { compound[0] = false; }
    let simples: Vec<usize> = (0..nkept).filter(|j| !compound[*j]).collect();
    for s in sources.iter_mut() { for l in s.lines.iter_mut() {
        let make = match l.kept { Some(w) => compound[w], None => l.defect == 3 || (directed.is_none() && rng.chance(1, 3)) };
        if !make { continue; }
        let n = rng.range(1, 3);
        let units: Vec<UnitSpec> = (0..n).map(|_| match rng.below(6) {
            0 => UnitSpec::Own(*rng.pick(&simples)),
            1 => UnitSpec::Sys(rng.below(sys.rows.len())),
            2 | 3 => UnitSpec::InlOwn(*rng.pick(&simples)),
            _ => UnitSpec::InlSys(rng.below(sys.rows.len())),
        }).collect();
        l.g.row.surface = units.iter().map(|u| unit_surface(u, &kept0, sys)).collect();
        l.g.row.headword = l.g.row.surface.clone();
        l.g.row.mode = if l.defect == 3 { 'A' } else { *rng.pick(&['B', 'C']) };
        match rng.below(3) { 0 => { l.g.a = units.clone(); } 1 => { l.g.b = units.clone(); } _ => { l.g.a = units.clone(); l.g.b = units.clone(); } }
        if l.g.row.mode == 'B' { l.g.a = units.clone(); l.g.b = vec![]; }
        if units.iter().all(|u| matches!(u, UnitSpec::Own(_) | UnitSpec::Sys(_))) && rng.chance(1, 2) { l.g.w = units.clone(); }
    } }
    let kept = GDict { rows: sources.iter().flat_map(|s| s.lines.iter()).filter(|l| l.kept.is_some()).map(|l| l.g.clone()).collect() };
    let cx = Ctx { user: true, sys };
    for s in sources.iter_mut() { for l in s.lines.iter_mut() {
        l.g.row.split_a = units_csv(&l.g.a, &kept, &cx);
        l.g.row.split_b = units_csv(&l.g.b, &kept, &cx);
        l.g.row.wstruct = units_csv(&l.g.w, &kept, &cx);
    } }
    let mut kept = kept;
    let fin: Vec<GRow> = sources.iter().flat_map(|s| s.lines.iter()).filter(|l| l.kept.is_some()).map(|l| l.g.clone()).collect();
    kept.rows = fin;
    RUser { sources, kept }
}

/// the CSV text of a source: the damaged line gets its damage here
fn reads_csv(src: &RSource) -> String {
    let mut out = String::new();
    for l in &src.lines {
        let line = csv_of(&[l.g.row.clone()], &pool_vec());
        let line = line.trim_end_matches('\n');
        match l.defect {
            1 => {
                // surfaces are made of SURF_CHARS: the first columns hold no quoted comma
                let mut f: Vec<String> = line.split(',').map(|x| x.to_string()).collect();
                match l.early_kind { 0 => { f[1] = "x".into(); } 1 => { f.truncate(4); } _ => { f[3] = "99999".into(); } }
                out.push_str(&f.join(","));
            }
            2 => { let i = line.find(',').unwrap_or(0); out.push_str(&line[i..]); }
            _ => out.push_str(line),
        }
        out.push('\n');
    }
    out
}

fn read_kind(e: &str) -> String {
    for (pat, k) in [
        ("InvalidSplitWordReference", "SplitRef"), ("InvalidSplit", "InvalidSplit"), ("InvalidWordId", "InvalidWordId"),
        ("PosLimitExceeded", "PosLimit"), ("InvalidSize", "InvalidSize"), ("EmptySurface", "EmptySurface"),
        ("InvalidI16Literal", "Malformed"), ("NoRawField", "Malformed"),
    ] {
        if e.contains(pat) { return format!("err:{}", k); }
    }
    format!("err:Other({})", e.chars().filter(|c| !c.is_whitespace()).take(60).collect::<String>())
}

/// ONE builder, every source in order, an `Err` of `read_lexicon` is recorded and the builder used further
fn build_user_reads(base: &JapaneseDictionary, sources: &[String]) -> (Vec<String>, Result<Vec<u8>, String>) {
    let mut reads: Vec<String> = vec![];
    let r = catch(|| -> Result<Vec<u8>, String> {
        let mut b = sudachi::dic::build::DictBuilder::new_user(base);
        b.set_compile_time(std::time::UNIX_EPOCH + std::time::Duration::from_secs(1_600_000_000));
        b.set_description("verif-user");
        for s in sources {
            match b.read_lexicon(s.as_bytes()) {
                Ok(n) => reads.push(format!("ok{}", n)),
                Err(e) => reads.push(read_kind(&format!("{:?}", e))),
            }
        }
        b.resolve().map_err(|e| format!("resolve: {:?}", e))?;
        let mut out = vec![];
        b.compile(&mut out).map_err(|e| format!("compile: {:?}", e))?;
        Ok(out)
    });
    let r = match r { Ok(x) => x, Err(p) => Err(format!("PANIC {}", p)) };
    while reads.len() < sources.len() { reads.push("PANIC".into()); }
    (reads, r)
}

/// User dictionaries compiled by a builder that saw REJECTED sources in between (the builder keeps the rows in front of the
/// rejected line and every row of the accepted sources; their POS ids were handed out while the POS table grew over all the
/// calls).  The declared data of such a dictionary are the kept rows, each with the POS strings of its own CSV line.
fn run_reads(run: &mut Run, idx: usize, rng: &mut Rng, directed: Option<usize>) {
    let n_ids = rng.range(2, 3);
    let matrix = Matrix::random(rng, n_ids, n_ids, false);
    let nsyspos = rng.range(1, 4);
    let empty = GDict::default();
    let so = GenOpts { user: false, pos_choices: (0..nsyspos).collect(), nsimple: rng.range(2, 4), ncompound: 0, broken: false, n_ids, tagp: "0".into() };
    let sys = gen_dict(rng, &empty, &so);
    let known: Vec<usize> = { let mut v: Vec<usize> = sys.rows.iter().map(|r| r.row.pos).collect(); v.sort(); v.dedup(); v };
    let quiet = directed.is_some() || rng.chance(1, 2);
    let plug = gen_plugins(rng, n_ids, &known, false, quiet);
    let nusers = if directed.is_some() { 1 + (directed == Some(2)) as usize } else { *rng.pick(&[1usize, 1, 2, 2, 3]) };
    let shared: Vec<usize> = (0..2).map(|_| rng.range(0, POOL.len() - 1)).collect();
    let users: Vec<RUser> = (0..nusers).map(|u| {
        let mut choices = shared.clone();
        choices.push(*rng.pick(&known));
        for _ in 0..rng.range(1, 4) { choices.push(rng.range(0, POOL.len() - 1)); }
        let force = u == 0 || rng.chance(1, 2);
        gen_reads_user(rng, &sys, &choices, n_ids, &format!("{}", u + 1), force, directed)
    }).collect();

    let mut it = Intern::default();
    let wd = Workdir::new(&format!("c12r-{}", idx));
    if let Some(u) = &plug.unk { wd.write("unk_c12.def", u); }
    let cfg = config_json(&wd, &[], &plug.json, &[], &[]);
    let base_cfg = config_json(&wd, &[], &[format!(
        r#"{{"class":"com.worksap.nlp.sudachi.SimpleOovPlugin","oovPOS":{},"leftId":0,"rightId":0,"cost":30000}}"#,
        pos_json(&pos_strings(sys.rows[0].row.pos)))], &[], &[]);
    let sys_cx = Ctx { user: false, sys: &sys };
    let user_cx = Ctx { user: true, sys: &sys };
    let sys_wire = dict_wire(&sys, &sys_cx, &mut it);
    let plug_wire = plug.calls.iter().map(|(a, p)| format!("{}:{}", if *a { "a" } else { "f" }, it.pos(p))).collect::<Vec<_>>().join(";");
    let users_wire = users.iter().map(|u| u.sources.iter().map(|s| {
        let d = GDict { rows: s.lines.iter().map(|l| l.g.clone()).collect() };
        // the units of a line refer to the KEPT rows of the builder: written with the kept list as `me`
        d.rows.iter().map(|r| {
            let mode = match r.row.mode { 'A' => 0, 'B' => 1, _ => 2 };
            format!("{}:{}:{}:{}:{}:{}:{}:{}", it.tok(&r.row.surface), it.tok(&r.row.headword), it.tok(&r.row.reading), mode,
                it.pos(&POOL[r.row.pos]), units_wire(&r.a, &u.kept, &user_cx, &mut it), units_wire(&r.b, &u.kept, &user_cx, &mut it), units_wire(&r.w, &u.kept, &user_cx, &mut it))
        }).collect::<Vec<_>>().join(";")
    }).collect::<Vec<_>>().join("^")).collect::<Vec<_>>().join("|");
    let bad_wire = users.iter().map(|u| u.sources.iter().map(|s| match s.bad {
        Some(k) => match s.lines[k].defect { 1 => format!("{}e", k), 2 => format!("{}l", k), _ => "-".into() },
        None => "-".into(),
    }).collect::<Vec<_>>().join("^")).collect::<Vec<_>>().join("|");
    let payload = format!("sysrows={} plug={} pre={} mv={} users={} bad={}", sys_wire, plug_wire, impl_pre_variant(), impl_merge_variant(), users_wire, bad_wire);

    // distribution; non-trivial = a rejected line comes after a kept row of the same builder whose POS is not a system POS
    let sys_pos: Vec<usize> = known.clone();
    let mut hit = false;
    for u in &users {
        let mut new_before = false;
        let mut nfail = 0;
        for s in &u.sources {
            for (i, l) in s.lines.iter().enumerate() {
                if s.bad == Some(i) {
                    nfail += 1;
                    run.bump(&format!("reads:rejected:{}", match l.defect { 1 => "malformed-column", 2 => "empty-surface", _ => "a-mode-splits" }));
                    if new_before { hit = true; run.bump("reads:rejected-after-new-pos"); }
                    break;
                }
                if !sys_pos.contains(&l.g.row.pos) { new_before = true; }
            }
        }
        run.bump(&format!("reads:sources:{}", u.sources.len()));
        run.bump(&format!("reads:rejected-sources:{}", nfail));
    }
    run.bump(&format!("reads:users:{}", users.len()));
    let desc = format!("users={} sources={:?}", users.len(), users.iter().map(|u| u.sources.iter().map(|s| reads_csv(s)).collect::<Vec<_>>()).collect::<Vec<_>>());

    // --- real pipeline
    let system = match build_system(gcsv(&sys).as_bytes(), matrix.text().as_bytes()) {
        Ok(b) => b,
        Err(e) => { run.case(idx, "reads", &payload, &format!("err:Build:0:{}", build_kind(&e)), false); return; }
    };
    let base = match load(&base_cfg, system.clone(), vec![]) {
        Ok(d) => d,
        Err(e) => { run.case(idx, "reads", &payload, &load_kind(&e), false); run.fail(idx, "harness:base-load", &format!("the plain base dictionary does not load: {}", e)); return; }
    };
    let mut reads_ans: Vec<String> = vec![];
    let mut build_ans: Vec<String> = vec![];
    let mut bins: Vec<Vec<u8>> = vec![];
    for u in &users {
        let texts: Vec<String> = u.sources.iter().map(reads_csv).collect();
        let (reads, bin) = build_user_reads(&base, &texts);
        reads_ans.push(reads.join(","));
        match bin {
            Ok(b) => { build_ans.push("ok".into()); bins.push(b); }
            Err(e) => { let k = build_kind(&e); build_ans.push(if k == "PANIC" { k } else { format!("err:{}", k) }); }
        }
    }
    drop(base);
    let head = format!("r={} b={}", reads_ans.join("|"), build_ans.join("|"));
    if bins.len() != users.len() {
        run.bump("reads:outcome:build-error");
        run.case(idx, "reads", &payload, &head, hit);
        return;
    }
    // the compiled dictionaries on their own: the POS table that was written and the POS id stored for every word
    let mut tabs: Vec<String> = vec![];
    let mut ids: Vec<String> = vec![];
    for b in &bins {
        let r = catch(|| -> Result<(String, String), String> {
            let dl = DictionaryLoader::read_user_dictionary(b).map_err(|e| format!("{:?}", e))?;
            let t = match &dl.grammar { Some(g) => g.pos_list.iter().map(|p| it.pos(p)).collect::<Vec<_>>().join(";"), None => "none".into() };
            let mut lex = dl.lexicon;
            lex.set_dic_id(0);
            let mut v = vec![];
            for w in 0..lex.size() { v.push(lex.get_word_info(w, InfoSubset::POS_ID).map_err(|e| format!("{:?}", e))?.pos_id().to_string()); }
            Ok((t, v.join(",")))
        });
        match r { Ok(Ok((t, v))) => { tabs.push(t); ids.push(v); } _ => { tabs.push("unreadable".into()); ids.push("unreadable".into()); } }
    }
    let head = format!("{} t={} ids={}", head, tabs.join("|"), ids.join("|"));
    let dic = match load(&cfg, system, bins) {
        Ok(d) => d,
        Err(e) => {
            let ans = load_kind(&e);
            run.bump(&format!("reads:outcome:{}", ans));
            run.case(idx, "reads", &payload, &format!("{} {}", head, ans), hit);
            run.fail(idx, "load:unexpected-error:reads", &format!("{} | {}", e, desc));
            return;
        }
    };
    run.bump("reads:outcome:loaded");
    let pos_list: Vec<Vec<String>> = dic.grammar().pos_list.clone();
    let mut dicts: Vec<&GDict> = vec![&sys];
    for u in &users { dicts.push(&u.kept); }
    let mut word_lines = vec![];
    let mut wobs: Vec<Vec<Option<WObs>>> = vec![];
    for (d, gd) in dicts.iter().enumerate() {
        let mut row_obs = vec![];
        for w in 0..gd.rows.len() {
            match word_obs(&dic, d, w) {
                Ok(Ok(o)) => {
                    let p = match pos_list.get(o.pos_id as usize) { Some(p) => it.pos(p), None => "OOB".into() };
                    word_lines.push(format!("{}.{}:{}:{}:{}:{}:{}", d, w, o.pos_id, p, star(&o.a), star(&o.b), star(&o.w)));
                    row_obs.push(Some(o));
                }
                Ok(Err(e)) => { word_lines.push(format!("{}.{}:err:{}", d, w, e)); row_obs.push(None); }
                Err(_) => { word_lines.push(format!("{}.{}:PANIC", d, w)); row_obs.push(None); }
            }
        }
        wobs.push(row_obs);
    }
    let ans = format!("{} ok pos={} words={}", head, pos_list.iter().map(|p| it.pos(p)).collect::<Vec<_>>().join(";"), word_lines.join(";"));
    run.case(idx, "reads", &payload, &ans, hit);

    // --- oracle (independent of the model): the kept CSV lines are the specification
    let mut tags: HashMap<String, (usize, usize)> = HashMap::new();
    for (d, gd) in dicts.iter().enumerate() { for (w, r) in gd.rows.iter().enumerate() { tags.insert(r.tag.clone(), (d, w)); } }
    'words: for (d, gd) in dicts.iter().enumerate() {
        for (w, r) in gd.rows.iter().enumerate() {
            let o = match &wobs[d][w] {
                Some(o) => o,
                None => { run.fail(idx, "word:unreadable:reads", &format!("word {} of dictionary {} (a row the builder kept) cannot be read | {}", w, d, desc)); break 'words; }
            };
            if o.norm != r.tag {
                run.fail(idx, "word:identity:reads", &format!("dictionary {} word {}: normalized form {:?}, the builder kept the row {:?} at this place | {}", d, w, o.norm, r.tag, desc));
                break 'words;
            }
            let declared = pos_strings(r.row.pos);
            let got = pos_list.get(o.pos_id as usize);
            if got != Some(&declared) {
                run.fail(idx, "pos:word:reads", &format!("dictionary {} word {} ({}): POS id {} = {:?}, its CSV line declares {:?} | {}", d, w, r.row.surface, o.pos_id, got, declared, desc));
                break 'words;
            }
        }
    }
    // morphemes over the kept words
    let mut texts: Vec<String> = vec![];
    for _ in 0..2 {
        let mut s = String::new();
        for _ in 0..rng.range(1, 4) {
            if rng.chance(1, 4) { s.push_str(&rng.pick(&sys.rows).row.surface); } else { let u = rng.pick(&users); s.push_str(&rng.pick(&u.kept.rows).row.surface); }
        }
        texts.push(s);
    }
    'texts: for t in &texts {
        let ms = match observe(&dic, t) {
            Ok(Ok(ms)) => ms,
            Ok(Err(e)) => { run.bump(&format!("reads:tokenize-error:{}", e)); continue; }
            Err(p) => { run.fail(idx, "morph:panic:reads", &format!("tokenising {:?} panics: {} | {}", t, p.chars().take(100).collect::<String>(), desc)); break; }
        };
        for (m, sa, sb) in &ms {
            for x in std::iter::once(m).chain(sa.iter()).chain(sb.iter()) {
                if let Some(&(d, w)) = tags.get(&x.norm) {
                    run.bump(if d == 0 { "reads:morph:system" } else { "reads:morph:user" });
                    if x.did != d as i32 {
                        run.fail(idx, "morph:dictid:reads", &format!("text {:?} morpheme {:?} comes from dictionary {} (row {}), dictionary_id() = {} | {}", t, x.surface, d, w, x.did, desc));
                        break 'texts;
                    }
                    if x.pos != pos_strings(dicts[d].rows[w].row.pos) {
                        run.fail(idx, "morph:pos:reads", &format!("text {:?} morpheme {:?} (dictionary {} row {}): part_of_speech() = {:?}, its CSV line declares {:?} | {}", t, x.surface, d, w, x.pos, POOL[dicts[d].rows[w].row.pos], desc));
                        break 'texts;
                    }
                }
            }
        }
    }
}

// ------------------------------------------------------------------------------------------------ wid

fn run_wid(run: &mut Run, idx: usize, rng: &mut Rng, directed: Option<usize>) {
    const DICS: &[u8] = &[0, 1, 2, 13, 14, 15, 16, 17, 31, 128, 255];
    const WORDS: &[u32] = &[0, 1, 2, 0x0fff_fffe, 0x0fff_ffff, 0x1000_0000, 0x1000_0001, 0x7fff_ffff, 0xffff_ffff];
    const RAWS: &[u32] = &[0, 1, 0x0fff_ffff, 0x1000_0000, 0xe000_0000, 0xefff_ffff, 0xf000_0000, 0xf000_0005, 0xffff_fffd, 0xffff_fffe, 0xffff_ffff];
    let (dic, word, raw) = match directed {
        Some(i) => (DICS[i % DICS.len()], WORDS[(i / DICS.len()) % WORDS.len()], RAWS[i % RAWS.len()]),
        None => (
            if rng.chance(1, 2) { *rng.pick(DICS) } else { rng.below(256) as u8 },
            if rng.chance(1, 2) { *rng.pick(WORDS) } else { rng.next() as u32 >> rng.below(32) },
            if rng.chance(1, 3) { *rng.pick(RAWS) } else { rng.next() as u32 },
        ),
    };
    let show = |r: Result<WordId, String>| match r { Ok(w) => w.as_raw().to_string(), Err(_) => "PANIC".to_string() };
    let new = show(catch(|| WordId::new(dic, word)));
    let checked = match catch(|| WordId::checked(dic, word)) {
        Ok(Ok(w)) => w.as_raw().to_string(),
        Ok(Err(e)) => { let s = format!("{:?}", e); if s.contains("TooLargeDictionaryId") { "err:TooLargeDictionaryId".into() } else if s.contains("TooLargeWordId") { "err:TooLargeWordId".into() } else { format!("err:{}", s) } }
        Err(_) => "PANIC".into(),
    };
    let oov = show(catch(|| WordId::oov(word)));
    let id = WordId::from_raw(raw);
    // Display prints the dictionary id the way Morpheme::dictionary_id computes it
    let disp = format!("{}", id);
    let did = disp.trim_start_matches('(').split(',').next().unwrap_or("").to_string();
    let ans = format!("new={} checked={} oov={} dic={} word={} flags={}{}{} did={}", new, checked, oov, id.dic(), id.word(),
        id.is_oov() as u8, id.is_system() as u8, id.is_user() as u8, did);
    run.bump("wid");
    run.case(idx, "wid", &format!("dic={} word={} raw={}", dic, word, raw), &ans, true);
    // oracle: 4 + 28 bits, 15 = OOV
    let want_dic = (raw >> 28) as u8;
    if id.dic() != want_dic || id.word() != (raw & 0x0fff_ffff) {
        run.fail(idx, "wid:unpack", &format!("raw {:#x}: dic {} word {}", raw, id.dic(), id.word()));
    }
    if dic < 16 && word < (1 << 28) {
        if new != ((((dic as u32) << 28) | word).to_string()) || checked != new {
            run.fail(idx, "wid:pack", &format!("dic {} word {}: new {} checked {}", dic, word, new, checked));
        }
    } else if !checked.starts_with("err:") {
        run.fail(idx, "wid:checked-accepts", &format!("dic {} word {:#x}: checked = {}", dic, word, checked));
    }
    if (did == "-1") != (want_dic == 15) || (want_dic != 15 && did != want_dic.to_string()) {
        run.fail(idx, "wid:dictionary-id", &format!("raw {:#x}: dictionary id {}", raw, did));
    }
}

// ------------------------------------------------------------------------------------------------ lexset

fn run_lexset(run: &mut Run, idx: usize, rng: &mut Rng, directed: Option<usize>) {
    let n_ids = 3;
    let matrix = Matrix::random(rng, n_ids, n_ids, false);
    let empty = GDict::default();
    let so = GenOpts { user: false, pos_choices: (0..rng.range(1, 5)).collect(), nsimple: rng.range(2, 4), ncompound: rng.below(2), broken: false, n_ids, tagp: "0".into() };
    let sys = gen_dict(rng, &empty, &so);
    let nlex = match directed { Some(0) => 14, Some(1) => 15, Some(2) => 16, Some(3) => 0, _ => match rng.below(6) { 0 => 13, 1 => 14, 2 => 15, 3 => 16, _ => rng.range(0, 6) } };
    let wd = Workdir::new(&format!("c12l-{}", idx));
    let base_cfg = config_json(&wd, &[], &[format!(
        r#"{{"class":"com.worksap.nlp.sudachi.SimpleOovPlugin","oovPOS":{},"leftId":0,"rightId":0,"cost":30000}}"#,
        pos_json(&pos_strings(sys.rows[0].row.pos)))], &[], &[]);
    let system = match build_system(gcsv(&sys).as_bytes(), matrix.text().as_bytes()) { Ok(b) => b, Err(e) => { run.bump(&format!("lexset:sys-build-error:{}", build_kind(&e))); return; } };
    let base = match load(&base_cfg, system.clone(), vec![]) { Ok(d) => d, Err(e) => { run.bump(&format!("lexset:base-load-error:{}", e.chars().take(40).collect::<String>())); return; } };
    let mut bins: Vec<Vec<u8>> = vec![];
    let mut gds = vec![];
    for u in 0..nlex {
        let uo = GenOpts { user: true, pos_choices: (0..3).map(|_| rng.range(0, POOL.len() - 1)).collect(), nsimple: rng.range(1, 2), ncompound: rng.below(2), broken: false, n_ids, tagp: format!("{}", u + 1) };
        let d = gen_dict(rng, &sys, &uo);
        match build_user(&base, gcsv(&d).as_bytes()) { Ok(b) => { bins.push(b); gds.push(d); } Err(e) => { run.bump(&format!("lexset:user-build-error:{}", build_kind(&e))); return; } }
    }
    drop(base);
    let nsp = match rng.below(4) { 0 => 0, 1 => rng.below(4), 2 => rng.below(12), _ => POOL.len() + rng.below(3) };
    let offs: Vec<usize> = (0..nlex).map(|_| match rng.below(5) { 0 => 0, 1 => 65530 + rng.below(12), _ => rng.below(40) }).collect();
    // an input made of surfaces so that several lexicons hit
    let mut input = String::new();
    let first = if !gds.is_empty() && rng.chance(2, 3) { let gi = rng.below(gds.len()); let ri = rng.below(gds[gi].rows.len()); gds[gi].rows[ri].row.surface.clone() } else { rng.pick(&sys.rows).row.surface.clone() };
    input.push_str(&first);
    input.push_str(&rand_word(rng, SURF_CHARS, 2));

    // the stored words and the trie hits of each lexicon on its own
    let mut lex_wire = vec![];
    let mut all_bins: Vec<(&[u8], bool)> = vec![(&system[..], true)];
    for b in &bins { all_bins.push((&b[..], false)); }
    let mut sizes = vec![];
    for (bytes, is_sys) in &all_bins {
        let r = catch(|| -> Result<(Vec<String>, Vec<String>, usize), String> {
            let mut lex = if *is_sys { DictionaryLoader::read_system_dictionary(bytes) } else { DictionaryLoader::read_user_dictionary(bytes) }.map_err(|e| format!("{:?}", e))?.lexicon;
            lex.set_dic_id(0);
            let mut ws = vec![];
            for w in 0..lex.size() {
                let wi = lex.get_word_info(w, InfoSubset::all()).map_err(|e| format!("{:?}", e))?;
                ws.push(format!("{}:{}:{}:{}", wi.pos_id(),
                    star(&wi.a_unit_split().iter().map(|x| x.as_raw()).collect::<Vec<_>>()),
                    star(&wi.b_unit_split().iter().map(|x| x.as_raw()).collect::<Vec<_>>()),
                    star(&wi.word_structure().iter().map(|x| x.as_raw()).collect::<Vec<_>>())));
            }
            let hits: Vec<String> = lex.lookup(input.as_bytes(), 0).map(|e| format!("{}.{}", e.word_id.word(), e.end)).collect();
            Ok((ws, hits, lex.size() as usize))
        });
        match r {
            Ok(Ok((ws, hits, n))) => { lex_wire.push(format!("{}@{}", ws.join(";"), hits.join(","))); sizes.push(n); }
            _ => { run.bump("lexset:lexicon-unreadable"); return; }
        }
    }
    // the set
    let res = catch(|| -> Result<(Vec<String>, usize, String, Vec<String>, Vec<u32>, Vec<Vec<(u8, u32)>>), String> {
        let sys_lex = DictionaryLoader::read_system_dictionary(&system).map_err(|e| format!("{:?}", e))?.lexicon;
        let mut set = LexiconSet::new(sys_lex, nsp);
        let mut app = vec![];
        let mut accepted = 1usize;
        for (i, b) in bins.iter().enumerate() {
            let lex = DictionaryLoader::read_user_dictionary(b).map_err(|e| format!("{:?}", e))?.lexicon;
            match catch(|| set.append(lex, offs[i])) {
                Ok(Ok(())) => { app.push("ok".to_string()); accepted += 1; }
                Ok(Err(e)) => app.push(if format!("{:?}", e).contains("TooManyDictionaries") { "err:TooManyDictionaries".into() } else { format!("err:{:?}", e) }),
                Err(_) => app.push("PANIC".into()),
            }
        }
        let lookup = match catch(|| set.lookup(input.as_bytes(), 0).map(|e| (e.word_id.as_raw(), e.end)).collect::<Vec<_>>()) {
            Ok(v) => v.iter().map(|(r, e)| format!("{}.{}", r, e)).collect::<Vec<_>>().join(","),
            Err(_) => "PANIC".into(),
        };
        let mut qs = vec![];
        let mut qa = vec![];
        let mut targets = vec![];
        for d in 0..accepted {
            for w in 0..sizes[d] {
                let id = WordId::new(d as u8, w as u32);
                qs.push(id.as_raw());
                match catch(|| set.get_word_info(id)) {
                    Ok(Ok(wi)) => {
                        qa.push(format!("{}:{}:{}:{}", wi.pos_id(),
                            star(&wi.a_unit_split().iter().map(|x| x.as_raw()).collect::<Vec<_>>()),
                            star(&wi.b_unit_split().iter().map(|x| x.as_raw()).collect::<Vec<_>>()),
                            star(&wi.word_structure().iter().map(|x| x.as_raw()).collect::<Vec<_>>())));
                        targets.push(wi.a_unit_split().iter().chain(wi.b_unit_split()).chain(wi.word_structure()).map(|x| (x.dic(), x.word())).collect());
                    }
                    Ok(Err(e)) => { qa.push(format!("err:{:?}", e)); targets.push(vec![]); }
                    Err(_) => { qa.push("PANIC".into()); targets.push(vec![]); }
                }
            }
        }
        Ok((app, accepted, lookup, qa, qs, targets))
    });
    let (app, accepted, lookup, qa, qs, targets) = match res {
        Ok(Ok(x)) => x,
        Ok(Err(e)) => { run.bump(&format!("lexset:error:{}", e.chars().take(40).collect::<String>())); return; }
        Err(_) => {
            run.bump("lexset:panic");
            run.case(idx, "lexset", &format!("nsp={} lex={} offs={} q=", nsp, lex_wire.join("|"), join(offs.iter(), ",")), "PANIC", false);
            return;
        }
    };
    run.bump(&format!("lexset:lexicons:{}", nlex + 1));
    let payload = format!("nsp={} lex={} offs={} q={}", nsp, lex_wire.join("|"), join(offs.iter(), ","), join(qs.iter(), ","));
    let ans = format!("app={} n={} lookup={} q={}", app.join(","), accepted, lookup, qa.join(";"));
    run.case(idx, "lexset", &payload, &ans, nlex >= 1);
    // oracle: capacity, ids = positions, split targets stay in the owning dictionary or the system one
    for (i, a) in app.iter().enumerate() {
        let want_ok = i + 1 < 15;
        if (a == "ok") != want_ok || (!want_ok && a != "err:TooManyDictionaries") {
            run.fail(idx, "lexset:capacity", &format!("append #{} (lexicon {}) answered {}", i + 1, i + 2, a));
            break;
        }
    }
    if lookup != "PANIC" && !lookup.is_empty() {
        // every entry of the set's lookup must be an entry of the lexicon at the position its id names, last lexicon first
        let mut expect = vec![];
        for d in (0..accepted).rev() {
            let hits = lex_wire[d].split('@').nth(1).unwrap_or("");
            for h in hits.split(',').filter(|h| !h.is_empty()) {
                let mut p = h.split('.');
                let w: u32 = p.next().unwrap().parse().unwrap();
                let e: usize = p.next().unwrap().parse().unwrap();
                expect.push(format!("{}.{}", ((d as u32) << 28) | w, e));
            }
        }
        if expect.join(",") != lookup {
            run.fail(idx, "lexset:lookup-ids", &format!("input {:?}: set lookup {} but per-lexicon hits give {}", input, lookup, expect.join(",")));
        }
    }
    let mut qi = 0;
    'outer: for d in 0..accepted {
        for _w in 0..sizes[d] {
            for (td, _tw) in &targets[qi] {
                if *td != 0 && *td as usize != d {
                    run.fail(idx, "lexset:split-foreign", &format!("word {} of lexicon {} refers to lexicon {}", _w, d, td));
                    break 'outer;
                }
            }
            qi += 1;
        }
    }
}

// ------------------------------------------------------------------------------------------------ grammar

fn run_grammar(run: &mut Run, idx: usize, rng: &mut Rng) {
    let n_ids = 2;
    let matrix = Matrix::random(rng, n_ids, n_ids, false);
    let empty = GDict::default();
    let so = GenOpts { user: false, pos_choices: (0..rng.range(1, 6)).collect(), nsimple: rng.range(1, 5), ncompound: 0, broken: false, n_ids, tagp: "0".into() };
    let sys = gen_dict(rng, &empty, &so);
    let system = match build_system(gcsv(&sys).as_bytes(), matrix.text().as_bytes()) { Ok(b) => b, Err(_) => { run.bump("grammar:sys-build-error"); return; } };
    let mut it = Intern::default();
    let ncalls = rng.range(2, 8);
    let mut calls: Vec<(char, Vec<String>)> = vec![];
    for _ in 0..ncalls {
        let mut p = pos_strings(rng.below(POOL.len()));
        if rng.chance(1, 10) { p.pop(); }
        if rng.chance(1, 20) { p.push("*".into()); }
        calls.push((*rng.pick(&['g', 'r', 'r']), p));
    }
    let res = catch(|| -> Result<(Vec<Vec<String>>, Vec<String>, Vec<Vec<String>>), String> {
        let mut g = DictionaryLoader::read_system_dictionary(&system).map_err(|e| format!("{:?}", e))?.grammar.ok_or("no grammar")?;
        let before = g.pos_list.clone();
        let mut out = vec![];
        for (k, p) in &calls {
            let r = match k {
                'g' => Ok(g.get_part_of_speech_id(p).map(|x| x.to_string()).unwrap_or("none".into())),
                _ => g.register_pos(p).map(|x| x.to_string()),
            };
            out.push(match r { Ok(s) => s, Err(e) => if format!("{:?}", e).contains("InvalidPartOfSpeech") { "err:InvalidPos".into() } else { format!("err:{:?}", e) } });
        }
        Ok((before, out, g.pos_list.clone()))
    });
    let (before, out, after) = match res { Ok(Ok(x)) => x, _ => { run.bump("grammar:error"); return; } };
    let payload = format!("g={} calls={}", before.iter().map(|p| it.pos(p)).collect::<Vec<_>>().join(";"),
        calls.iter().map(|(k, p)| format!("{}:{}", k, it.pos(p))).collect::<Vec<_>>().join(";"));
    let ans = format!("res={} pos={}", out.join(","), after.iter().map(|p| it.pos(p)).collect::<Vec<_>>().join(";"));
    run.bump("grammar");
    run.case(idx, "grammar", &payload, &ans, true);
    // oracle: ids name the POS they were asked for, the list only grows at the end and never holds a POS twice
    if after.len() < before.len() || after[..before.len()] != before[..] {
        run.fail(idx, "grammar:prefix", "register_pos / handle_user_pos changed existing POS ids");
    }
    for (i, p) in after.iter().enumerate() {
        if after[..i].contains(p) { run.fail(idx, "grammar:duplicate", &format!("POS {:?} registered twice", p)); break; }
    }
    for ((_, p), r) in calls.iter().zip(out.iter()) {
        if let Ok(id) = r.parse::<usize>() {
            if after.get(id) != Some(p) { run.fail(idx, "grammar:id", &format!("id {} returned for {:?} names {:?}", id, p, after.get(id))); break; }
        }
    }
}

pub fn run(run: &mut Run) {
    run.rule = "stack: system dictionary + 0..15 user dictionaries (1-5 rows each: simple words, compounds whose A/B splits and word \
structure use U-prefixed, numeric and inline references into the own and the system dictionary; POS drawn from a pool of 12 so that \
user-defined POS overlap between dictionaries, with plugin-registered POS and with system POS) compiled by the real DictBuilder, \
0-2 extra OOV plugins (regex / MeCab with 1-3 unk.def lines / simple) + a fallback, userPOS allow|forbid, loaded by from_cfg_storage; \
every word through LexiconSet::get_word_info and 2-3 texts tokenised in mode C with split_into A and B \
(about half of the cases on one recycled StatefulTokenizer + MorphemeList + split lists that analysed 1-4 other texts before each text: empty, too long, longer, shorter, other modes, uncollected); \
load order: 0-2 InhibitConnection plugins, rows stored with cost i16::MIN whose estimate is measured on the really loaded prefix dictionary, word costs and inhibited cells observed after the load; \
lexset: LexiconSet::new/append/lookup/get_word_info on 1..17 real lexicons with arbitrary POS offsets; wid: WordId packing at the 4/28-bit \
boundaries; poslimit (1 directed world with 6 loads + 1 case in 64): a system dictionary with one POS and real user dictionaries with 32767 / 32766 / 32760 / 5 / 2 / 1 own POS \
(compiled once per process) loaded in random order under 1-4 POS-registering OOV plugins, so that the merged POS list has exactly 65536, 65537 or up to 131 000 entries; \
words at the ends of every dictionary and around entries 65535/65536 read through LexiconSet::get_word_info, judged against their CSV rows \
(finding P2 / its repair: a list no u16 id can address must be refused at load, never answered with a wrapped id); reads (3 directed + 1 case in 8): 1-3 user dictionaries, each compiled by ONE DictBuilder::new_user that reads 1-4 CSV sources of 0-3 valid rows \
(simple words and compounds with U-prefixed / numeric / inline units, POS from the pool: system POS, POS new to the builder, POS of an earlier source), about every second source REJECTED at the line behind them \
(a column before the splits malformed: left id `x`, only four columns, cost 99999; an A-mode row with splits whose inline units and own POS are interned before the rejection; an empty surface), 0-2 unread lines behind it; \
the caller ignores the Err and goes on with further sources, resolve, compile; observed: the result of every read_lexicon, the written POS table and the stored POS ids (DictionaryLoader::read_user_dictionary), \
the stack loaded under the plugin configuration (every kept word through LexiconSet::get_word_info, two texts over the kept words tokenised), judged against the KEPT CSV lines (rows in front of the rejected line + all rows of accepted sources); \
grammar: get_part_of_speech_id / register_pos called directly (handle_user_pos is crate-private: reached through the plugins of the stack cases) on a real Grammar (POS of 5, 6, 7 components). non-trivial = stack with >= 1 user dictionary using a POS the system dictionary does not have, lexset with >= 1 appended \
lexicon, every wid, reads where a source is rejected behind a kept row whose POS is not a system POS; distinct by line".into();
    run.extra.insert("variant_preload_pos".into(), serde_json::json!(impl_pre_variant()));
    run.extra.insert("variant_merge_user_dictionary".into(), serde_json::json!(impl_merge_variant()));
    let n = run.opts.count;
    const DIRECTED_STACK: usize = 8;
    const DIRECTED_LEXSET: usize = 4;
    const DIRECTED_WID: usize = 99;
    const DIRECTED_POSLIMIT: usize = 1;
    const DIRECTED_READS: usize = 3;
    for idx in 0..n {
        if !run.wants(idx) { continue; }
        let mut rng = Rng::for_case(run.opts.seed, idx);
        if idx < DIRECTED_STACK {
            run_stack(run, idx, &mut rng, Some(idx));
        } else if idx < DIRECTED_STACK + DIRECTED_LEXSET {
            run_lexset(run, idx, &mut rng, Some(idx - DIRECTED_STACK));
        } else if idx < DIRECTED_STACK + DIRECTED_LEXSET + DIRECTED_WID {
            run_wid(run, idx, &mut rng, Some(idx - DIRECTED_STACK - DIRECTED_LEXSET));
        } else if idx < DIRECTED_STACK + DIRECTED_LEXSET + DIRECTED_WID + DIRECTED_POSLIMIT {
            run_poslimit(run, idx, &mut rng, true);
        } else if idx < DIRECTED_STACK + DIRECTED_LEXSET + DIRECTED_WID + DIRECTED_POSLIMIT + DIRECTED_READS {
            run_reads(run, idx, &mut rng, Some(idx - DIRECTED_STACK - DIRECTED_LEXSET - DIRECTED_WID - DIRECTED_POSLIMIT));
        } else {
            match idx % 8 {
                _ if idx % 64 == 37 => run_poslimit(run, idx, &mut rng, false),
                5 => run_reads(run, idx, &mut rng, None),
                0 => if idx % 16 == 0 { run_wid(run, idx, &mut rng, None) } else { run_grammar(run, idx, &mut rng) },
                1 => run_lexset(run, idx, &mut rng, None),
                _ => run_stack(run, idx, &mut rng, None),
            }
        }
    }
}
