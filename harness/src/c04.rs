//! C04: dictionary lookup = naive prefix scan of the source rows.
//!
//! One case = one "world": a system dictionary and 0..14 user dictionaries, every one compiled by
//! the real `DictBuilder` from generated CSV rows and loaded by the real `JapaneseDictionary`.
//! The trie units and the word-id table of every lexicon are cut out of the compiled bytes by an
//! independent parse of the binary layout (header, grammar, lexicon) and shipped to the Lean
//! driver together with the source rows; there the *proved* checker `checkTrie` runs on the array
//! the external double-array builder produced, the model of the index builder is compared with
//! the table bytes, and the model of `LexiconSet::lookup` answers every (text, byte offset).
//! Independently, the oracle below scans the source rows naively.
use crate::common::*;
use crate::dict::*;
use sudachi::dic::dictionary::JapaneseDictionary;
use sudachi::dic::lexicon::trie::Trie;
use sudachi::dic::lexicon::word_id_table::WordIdTable;
use sudachi::dic::subset::InfoSubset;
use sudachi::analysis::stateful_tokenizer::StatefulTokenizer;
use sudachi::prelude::*;
use sudachi::analysis::Mode;

const HEADER_SIZE: usize = 8 + 8 + 256;

thread_local! { static NUL_VARIANT: std::cell::RefCell<&'static str> = std::cell::RefCell::new("follow"); }
thread_local! { static ML_VARIANT: std::cell::RefCell<&'static str> = std::cell::RefCell::new("append"); }
fn nul_token() -> String { NUL_VARIANT.with(|v| ML_VARIANT.with(|m| format!("nul={} ml={}", v.borrow(), m.borrow()))) }
fn ml_replaces() -> bool { ML_VARIANT.with(|m| *m.borrow() == "replace") }

/// characters keys are made of: 1, 2, 3, 4 byte scalars; several share leading bytes
const KEY_CHARS: &[char] = &[
    'a', 'b', 'c', '0', 'é', 'è', 'ß', 'あ', 'い', 'ア', 'イ', '東', '京', '。', 'ｱ', '𠮷', '𠮶', '👍', '🏻', '\u{7f}', '\u{80}',
    '\u{7ff}', '\u{800}', '\u{ffff}', '\u{10000}', '\u{10ffff}', '\u{1}',
];
/// additional characters of texts
const TEXT_EXTRA: &[char] = &['\u{0}', ' ', 'z', 'う', '都', '\u{301}', '\n', ',', '"'];

/// characters the default input-text plugin rewrites (case, width, compatibility forms, 1 -> several)
const REWRITTEN: &[char] = &['Ａ', 'B', 'ｶ', 'ﾞ', '㍿', 'É', 'ǆ', '①', 'ｱ'];

pub struct Parsed {
    pub lex_off: usize,
    pub units: Vec<u32>,
    pub tbl_off: usize,
    pub tbl_size: usize,
}

fn rd_u16(b: &[u8], o: usize) -> Option<usize> {
    Some(u16::from_le_bytes([*b.get(o)?, *b.get(o + 1)?]) as usize)
}
fn rd_u32(b: &[u8], o: usize) -> Option<usize> {
    Some(u32::from_le_bytes([*b.get(o)?, *b.get(o + 1)?, *b.get(o + 2)?, *b.get(o + 3)?]) as usize)
}

/// independent parse of a compiled dictionary: where the lexicon starts, its trie units and table
pub fn parse_dictionary(b: &[u8]) -> Option<Parsed> {
    let mut o = HEADER_SIZE;
    // grammar: u16 number of POS, 6 length-prefixed UTF-16 strings each, i16 left, i16 right, matrix
    let npos = rd_u16(b, o)?;
    o += 2;
    for _ in 0..npos * 6 {
        let l0 = *b.get(o)? as usize;
        o += 1;
        let len = if l0 >= 128 {
            let l1 = *b.get(o)? as usize;
            o += 1;
            ((l0 & 0x7f) << 8) | l1
        } else {
            l0
        };
        o += 2 * len;
    }
    let left = rd_u16(b, o)?;
    let right = rd_u16(b, o + 2)?;
    o += 4 + 2 * left * right;
    let lex_off = o;
    let nunits = rd_u32(b, o)?;
    o += 4;
    let mut units = Vec::with_capacity(nunits);
    for i in 0..nunits {
        units.push(rd_u32(b, o + 4 * i)? as u32);
    }
    o += 4 * nunits;
    let tbl_size = rd_u32(b, o)?;
    let tbl_off = o + 4;
    if tbl_off + tbl_size > b.len() {
        return None;
    }
    Some(Parsed { lex_off, units, tbl_off, tbl_size })
}

pub struct WorldSrc {
    /// rows per dictionary (0 = system)
    pub dicts: Vec<Vec<Row>>,
    pub texts: Vec<Vec<u8>>,
    pub exact: Vec<String>,
    pub tag: &'static str,
}

fn row(s: &str, indexed: bool) -> Row {
    if indexed { Row::simple(s, 0, 0, 100, NOUN) } else { Row::simple(s, -1, -1, 100, NOUN) }
}

fn rand_key(rng: &mut Rng, pool: &[char], maxlen: usize) -> String {
    rand_word(rng, pool, maxlen)
}

/// rows of one dictionary: prefix families, keys that are prefixes of others, homographs,
/// non-indexed rows (also as the only row of a key)
fn gen_rows(rng: &mut Rng, pool: &[char], size: usize, max_homographs: usize, earlier: &[Vec<Row>]) -> Vec<Row> {
    let mut rows: Vec<Row> = vec![];
    // at least one indexed row (an empty index is C06's business)
    rows.push(row(&rand_key(rng, pool, 3), true));
    while rows.len() < size {
        let kind = rng.below(12);
        let indexed = !rng.chance(1, 7);
        match kind {
            0..=2 => {
                // extend an existing key by 1..2 characters
                let base = rng.pick(&rows).surface.clone();
                rows.push(row(&format!("{}{}", base, rand_key(rng, pool, 2)), indexed));
            }
            3 => {
                // proper prefix of an existing key (character or byte-sharing)
                let base = rng.pick(&rows).surface.clone();
                let n = base.chars().count();
                if n > 1 {
                    let k = rng.range(1, n - 1);
                    rows.push(row(&base.chars().take(k).collect::<String>(), indexed));
                }
            }
            4..=5 => {
                // homographs of an existing key
                let base = rng.pick(&rows).surface.clone();
                let k = rng.range(1, max_homographs.max(1));
                for _ in 0..k {
                    if rows.len() < size + max_homographs { rows.push(row(&base, !rng.chance(1, 9))); }
                }
            }
            6 if !earlier.is_empty() => {
                // a key of another dictionary (same key in several layers), or an extension of it
                let d = rng.pick(earlier);
                let base = rng.pick(d).surface.clone();
                if rng.chance(1, 2) { rows.push(row(&base, indexed)); } else { rows.push(row(&format!("{}{}", base, rand_key(rng, pool, 1)), indexed)); }
            }
            7 => {
                // same key with the last character replaced by one sharing its leading bytes
                let base = rng.pick(&rows).surface.clone();
                let mut cs: Vec<char> = base.chars().collect();
                let l = cs.len() - 1;
                cs[l] = match cs[l] { 'あ' => 'い', 'い' => 'あ', 'ア' => 'イ', '𠮷' => '𠮶', 'é' => 'è', 'a' => 'b', c => c };
                rows.push(row(&cs.into_iter().collect::<String>(), indexed));
            }
            _ => rows.push(row(&rand_key(rng, pool, 4), indexed)),
        }
    }
    // the HEADWORD (CSV column 4) is not the key (column 0): a quarter of the rows get a headword that begins with another
    // character (normalised keys, reading keys of kanji headwords); look-ups go by the key alone
    for r in rows.iter_mut() {
        if rng.chance(1, 4) {
            let h = rand_key(rng, pool, 3);
            if !h.is_empty() { r.headword = h; }
        }
    }
    rows
}

fn gen_texts(rng: &mut Rng, dicts: &[Vec<Row>], pool: &[char], ntexts: usize) -> Vec<Vec<u8>> {
    let mut out = vec![];
    for t in 0..ntexts {
        let mut s = String::new();
        let n = rng.range(1, 6);
        for _ in 0..n {
            match rng.below(10) {
                0..=5 => { let d = rng.pick(dicts); s.push_str(&rng.pick(d).surface); }
                6..=7 => s.push(*rng.pick(pool)),
                8 => s.push(*rng.pick(TEXT_EXTRA)),
                _ => s.push(*rng.pick(KEY_CHARS)),
            }
        }
        let mut bytes = s.into_bytes();
        if t == ntexts - 1 && ntexts > 1 {
            // raw bytes: cut inside characters / drop single bytes (not valid UTF-8 any more)
            if !bytes.is_empty() && rng.chance(1, 2) { let i = rng.below(bytes.len()); bytes.remove(i); }
            if !bytes.is_empty() && rng.chance(1, 2) { let i = rng.below(bytes.len()); bytes.truncate(i.max(1)); }
            if rng.chance(1, 3) { let i = rng.below(bytes.len() + 1); bytes.insert(i, *rng.pick(&[0u8, 0x80, 0xff, 0xc0])); }
        }
        if bytes.is_empty() { bytes.push(b'a'); }
        out.push(bytes);
    }
    out
}

fn gen_exact(rng: &mut Rng, dicts: &[Vec<Row>], pool: &[char], n: usize) -> Vec<String> {
    let mut out = vec![];
    for _ in 0..n {
        let d = rng.pick(dicts);
        let base = rng.pick(d).surface.clone();
        out.push(match rng.below(7) {
            0..=2 => base,
            3 => format!("{}{}", base, rng.pick(pool)),
            4 => { let k = base.chars().count(); base.chars().take(rng.range(1, k)).collect() }
            5 if rng.chance(1, 2) => {
                // NUL before / inside / after the key
                let mut cs: Vec<char> = base.chars().collect();
                let i = rng.below(cs.len() + 1);
                cs.insert(i, '\u{0}');
                cs.into_iter().collect()
            }
            _ => rand_key(rng, pool, 3),
        });
    }
    out
}

fn directed(idx: usize) -> Option<WorldSrc> {
    let r = |s: &str| row(s, true);
    let n = |s: &str| row(s, false);
    let t = |s: &str| s.as_bytes().to_vec();
    Some(match idx {
        0 => WorldSrc { dicts: vec![vec![r("a")]], texts: vec![t("a"), t("ba")], exact: vec!["a".into(), "b".into()], tag: "single" },
        1 => WorldSrc {
            dicts: vec![vec![r("a"), r("ab"), r("abc"), n("abcd"), r("ab"), n("ab"), r("b"), n("c"), r("abcde")]],
            texts: vec![t("abcdeab"), t("cab\u{0}abc"), t("\u{0}")],
            exact: vec!["ab".into(), "abcd".into(), "c".into(), "abcde".into(), "abcdef".into(), "".into()],
            tag: "prefix-chain",
        },
        2 => {
            let mut rows = vec![];
            for _ in 0..127 { rows.push(r("東京")); }
            for i in 0..126 { rows.push(if i % 5 == 0 { n("東") } else { r("東") }); }
            rows.push(r("東京都"));
            WorldSrc { dicts: vec![rows], texts: vec![t("東京都"), t("京東京")], exact: vec!["東京".into(), "東".into()], tag: "homographs-127" }
        }
        3 => {
            let mut rows = vec![r("x")];
            for _ in 0..128 { rows.push(r("東京")); }
            WorldSrc { dicts: vec![rows], texts: vec![t("東京")], exact: vec![], tag: "homographs-128" }
        }
        4 => {
            // 135 keys x 127 homographs: record offsets run past 65 535
            let mut rows = vec![];
            let mut keys = vec![];
            for k in 0..135 {
                let key: String = format!("{}{}", ['a', 'あ', '𠮷'][k % 3], k / 3).chars().collect();
                keys.push(key);
            }
            for h in 0..127 {
                for (k, key) in keys.iter().enumerate() {
                    rows.push(if (h + k) % 41 == 0 { n(key) } else { r(key) });
                }
            }
            WorldSrc {
                dicts: vec![rows],
                // the keys 41, 82, 123 (first row not indexed) and 0 are inserted last: offsets > 65 535
                texts: vec![t("a0a1あ44𠮷44"), t("a4あ1𠮷0a44"), t("𠮷13あ27a41a0𠮷1")],
                exact: vec!["a44".into(), "𠮷44".into(), "a".into(), "a41".into(), "あ27".into()],
                tag: "large-table",
            }
        }
        5 => {
            let mut dicts = vec![];
            for d in 0..15 {
                let mut rows = vec![r("あ"), r("あい"), n("い")];
                if d % 2 == 0 { rows.push(r("あいう")); }
                if d % 3 == 0 { rows.insert(0, n("あ")); }
                for _ in 0..d { rows.push(r("いあ")); }
                dicts.push(rows);
            }
            WorldSrc { dicts, texts: vec![t("あいういあ"), t("いあい")], exact: vec!["あい".into(), "い".into(), "いあ".into()], tag: "layers-15" }
        }
        8 => WorldSrc {
            dicts: vec![vec![r("𠮷"), r("𠮷野"), r("👍"), r("👍🏻"), n("🏻"), r("𠮶"), r("\u{10ffff}"), r("\u{10000}a")],
                        vec![r("👍"), r("🏻"), n("𠮷")]],
            texts: vec![t("𠮷野👍🏻𠮶"), t("\u{10ffff}\u{10000}a🏻"), vec![0xf0, 0xa0, 0xae, 0xf0, 0xa0, 0xae, 0xb7]],
            exact: vec!["👍🏻".into(), "🏻".into(), "𠮷".into()],
            tag: "astral",
        },
        9 => WorldSrc {
            dicts: vec![vec![r("a"), n("b"), n("bc"), n("a")], vec![n("a"), r("bc")]],
            texts: vec![t("abcb")],
            exact: vec!["b".into(), "bc".into(), "a".into()],
            tag: "non-indexed",
        },
        10 => {
            let dicts = (0..16).map(|_| vec![r("a")]).collect();
            WorldSrc { dicts, texts: vec![t("a")], exact: vec![], tag: "layers-16" }
        }
        11 => {
            // every byte value 1..=255 that can start or continue a key: all 2-byte scalars U+0080..U+00FF and ASCII
            let mut rows = vec![];
            for c in 1u32..=0xff { let s: String = char::from_u32(c).unwrap().to_string(); rows.push(r(&s)); }
            for c in [0x100u32, 0x7ff, 0x800, 0xfff, 0x1000, 0xd7ff, 0xe000, 0xfffd, 0x3ffff, 0x40000, 0xfffff, 0x100000] {
                rows.push(r(&char::from_u32(c).unwrap().to_string()));
            }
            let text: String = (1u32..=0xff).map(|c| char::from_u32(c).unwrap()).collect();
            WorldSrc { dicts: vec![rows], texts: vec![text.into_bytes(), t("\u{100}\u{7ff}\u{800}\u{d7ff}\u{e000}\u{3ffff}\u{40000}\u{100000}")], exact: vec!["\u{ff}".into()], tag: "all-bytes" }
        }
        12 => WorldSrc {
            dicts: vec![vec![r("a"), r("bc"), r("東京"), r("東京都"), n("x")], vec![r("bc"), r("京")]],
            texts: vec![t("\u{0}a"), t("b\u{0}c"), t("東\u{0}京\u{0}\u{0}都"), t("a\u{0}"), t("\u{0}\u{0}x\u{0}bc")],
            exact: vec!["\u{0}a".into(), "b\u{0}c".into(), "東京\u{0}".into(), "\u{0}x".into(), "\u{0}".into()],
            tag: "nul",
        },
        13 => WorldSrc { dicts: vec![vec![n("a"), n("ab")]], texts: vec![t("a")], exact: vec![], tag: "no-indexed-row" },
        16 => WorldSrc { dicts: vec![vec![r("a"), r("b\u{0}c")]], texts: vec![t("a")], exact: vec![], tag: "nul-surface" },
        17 => WorldSrc { dicts: vec![vec![r("a"), n("")]], texts: vec![t("a")], exact: vec![], tag: "empty-surface" },
        18 => WorldSrc { dicts: vec![vec![r("a")], vec![r("b")], vec![n("c"), n("a")]], texts: vec![t("a")], exact: vec![], tag: "user-no-indexed-row" },
        19 | 20 => {
            // queries at and above the length limit of the input buffer (49 149 bytes), keys around them
            let long_key = format!("{}a", "あ".repeat(10922));   // 32 767 bytes: the longest surface the builder accepts
            WorldSrc {
                dicts: vec![vec![r("a"), r("aa"), r(&long_key), n(&long_key)], vec![r(&long_key), r("a")]],
                texts: vec![t("aaa")],
                exact: vec![long_key.clone(), "a".repeat(49149), "a".repeat(49150), "a".into(), format!("{}a", long_key), "aa".into(), "".into(), "a".into()],
                tag: "length-limit",
            }
        }
        21 => WorldSrc { dicts: vec![vec![r("a"), n(&format!("{}aa", "あ".repeat(10922)))]], texts: vec![t("a")], exact: vec![], tag: "surface-32768" },
        _ => return None,
    })
}

fn random_world(rng: &mut Rng, thorough: bool) -> WorldSrc {
    let k = rng.range(2, 6);
    let pool: Vec<char> = (0..k).map(|_| *rng.pick(KEY_CHARS)).collect();
    let nusers = match rng.below(20) { 0..=9 => 0, 10..=16 => rng.range(1, 3), 17..=18 => rng.range(4, 13), _ => 14 };
    let big = rng.chance(1, if thorough { 12 } else { 40 });
    let mut dicts: Vec<Vec<Row>> = vec![];
    if rng.chance(1, 150) {
        // word-id table beyond 65 535 bytes: 135..170 keys with 120..127 homographs each, rows interleaved
        let nkeys = rng.range(135, 170);
        let mut keys: Vec<String> = vec![];
        while keys.len() < nkeys {
            let k = rand_key(rng, &pool, 4);
            if !keys.contains(&k) { keys.push(k); }
            if keys.len() > 3 && rng.chance(1, 3) { let b = rng.pick(&keys).clone(); let k2 = format!("{}{}", b, rand_key(rng, &pool, 1)); if !keys.contains(&k2) { keys.push(k2); } }
        }
        let mut rows = vec![];
        let mut left: Vec<usize> = keys.iter().map(|_| rng.range(120, 127)).collect();
        loop {
            let live: Vec<usize> = (0..keys.len()).filter(|&i| left[i] > 0).collect();
            if live.is_empty() { break; }
            for i in live {
                if rng.chance(3, 4) { left[i] -= 1; rows.push(row(&keys[i], true)); }
                if rng.chance(1, 40) { rows.push(row(&keys[i], false)); }
            }
        }
        let dicts = vec![rows];
        let texts = gen_texts(rng, &dicts, &pool, 6);
        let exact = gen_exact(rng, &dicts, &pool, 4);
        return WorldSrc { dicts, texts, exact, tag: "random-large-table" };
    }
    for d in 0..=nusers {
        let size = if d == 0 { if big { rng.range(300, 1500) } else { rng.range(1, 60) } } else { rng.range(1, 12) };
        let maxh = match rng.below(10) { 0 => 127, 1..=2 => 20, _ => 4 };
        let mut rows = gen_rows(rng, &pool, size, maxh, &dicts);
        // no key may carry more than 127 indexed rows (build error, covered by the directed case)
        let mut count = std::collections::HashMap::new();
        rows.retain(|r| {
            if !r.indexed() { return true; }
            let c = count.entry(r.surface.clone()).or_insert(0usize);
            *c += 1;
            *c <= 127
        });
        dicts.push(rows);
    }
    let ntexts = rng.range(2, 6);
    let texts = gen_texts(rng, &dicts, &pool, ntexts);
    let nexact = rng.range(1, 6);
    let mut exact = gen_exact(rng, &dicts, &pool, nexact);
    if rng.chance(1, 60) { let at = rng.below(exact.len() + 1); exact.insert(at, rng.pick(&pool).to_string().repeat(49150 / rng.pick(&pool).len_utf8().max(1) + 1)); }
    WorldSrc { dicts, texts, exact, tag: "random" }
}

fn src_payload(rows: &[Row]) -> String {
    join(rows.iter().map(|r| format!("{}:{}", hex(r.surface.as_bytes()), r.left)), ";")
}

fn show_pairs(v: &[(u32, usize)]) -> String {
    join(v.iter().map(|(w, e)| format!("{}:{}", w, e)), ",")
}

/// naive scan of the source rows: (word id incl. dictionary id, end) of every indexed row whose
/// surface is a prefix of text[off..]
fn naive(dicts: &[Vec<Row>], text: &[u8], off: usize) -> Vec<(u32, usize)> {
    let mut out = vec![];
    if off > text.len() { return out; }
    for (d, rows) in dicts.iter().enumerate() {
        for (i, r) in rows.iter().enumerate() {
            if r.left >= 0 && text[off..].starts_with(r.surface.as_bytes()) {
                out.push((((d as u32) << 28) | i as u32, off + r.surface.len()));
            }
        }
    }
    out.sort();
    out
}

struct Built {
    bins: Vec<Vec<u8>>,
    dic: JapaneseDictionary,
}

fn build_world(cfg: &str, matrix: &[u8], w: &WorldSrc) -> Result<Built, (usize, String)> {
    let pos = default_pos();
    let sys = build_system(csv_of(&w.dicts[0], &pos).as_bytes(), matrix).map_err(|e| (0usize, e))?;
    let mut bins = vec![sys.clone()];
    if w.dicts.len() > 1 {
        let base = load(cfg, sys.clone(), vec![]).map_err(|e| (usize::MAX, e))?;
        for (d, rows) in w.dicts.iter().enumerate().skip(1) {
            let ub = build_user(&base, csv_of(rows, &pos).as_bytes()).map_err(|e| (d, e))?;
            bins.push(ub);
        }
    }
    let dic = load(cfg, sys, bins[1..].to_vec()).map_err(|e| (usize::MAX, e))?;
    Ok(Built { bins, dic })
}

fn world_case(run: &mut Run, idx: usize, cfg: &str, matrix: &[u8], w: &WorldSrc) {
    run.bump(&format!("world:{}", w.tag));
    run.bump(&format!("lexicons:{}", w.dicts.len()));
    let built = match build_world(cfg, matrix, w) {
        Ok(b) => b,
        Err((d, e)) if d != usize::MAX => {
            // the builder refused dictionary d: the model of the index builder must refuse too
            run.bump("outcome:build-error");
            let ans = if e.starts_with("PANIC") { "PANIC" } else { "err" };
            run.case(idx, "build", &format!("d={} src={}", d, src_payload(&w.dicts[d])), ans, false);
            if ans == "PANIC" {
                run.fail(idx, "c04:build-panic", &format!("dictionary builder panicked: {}", e));
            }
            return;
        }
        Err((_, e)) => {
            run.bump("outcome:load-error");
            if w.dicts.len() <= 15 {
                // dictionaries the builder produced do not load (or the system dictionary is unusable as a base)
                run.case(idx, "world", &format!("n={} texts=61 exact=", w.dicts.len()), "err:load", false);
                run.fail(idx, "c04:load", &format!("compiled dictionaries do not load: {}", e.chars().take(300).collect::<String>()));
                return;
            }
            // too many dictionaries is the only load error the generator provokes
            let mut payload = format!("n={}", w.dicts.len());
            let pos = default_pos();
            // ship what can be compiled separately so that the model takes the same decision
            let sys = build_system(csv_of(&w.dicts[0], &pos).as_bytes(), matrix).unwrap();
            let base = load(cfg, sys.clone(), vec![]).unwrap();
            for (d, rows) in w.dicts.iter().enumerate() {
                let bin = if d == 0 { sys.clone() } else { build_user(&base, csv_of(rows, &pos).as_bytes()).unwrap() };
                let p = parse_dictionary(&bin).expect("layout");
                payload.push_str(&format!(" l{}={} s{}={}", d, hex(&bin[p.lex_off..p.tbl_off + p.tbl_size]), d, src_payload(rows)));
            }
            payload.push_str(" texts=61 exact=");
            let ans = if e.contains("TooManyDictionaries") || e.contains("too many") { "err:set".to_string() } else { format!("err:load:{}", e.chars().take(60).collect::<String>()) };
            run.case(idx, "world", &payload, &ans, false);
            return;
        }
    };
    run.bump("outcome:ok");
    let mut payload = format!("{} n={}", nul_token(), w.dicts.len());
    let mut sizes = vec![];
    let mut max_off = 0usize;
    for (d, bin) in built.bins.iter().enumerate() {
        let p = match parse_dictionary(bin) {
            Some(p) => p,
            None => {
                run.case(idx, "world", &payload, "err:layout", false);
                run.fail(idx, "c04:layout", &format!("compiled dictionary {} does not follow the documented layout", d));
                return;
            }
        };
        payload.push_str(&format!(" l{}={} s{}={}", d, hex(&bin[p.lex_off..p.tbl_off + p.tbl_size]), d, src_payload(&w.dicts[d])));
        sizes.push(format!("{}:{}", p.units.len(), p.tbl_size));
        max_off = max_off.max(p.tbl_size);
    }
    run.bump(if max_off > 65535 { "table:>65535" } else if max_off > 255 { "table:>255" } else { "table:<=255" });
    let nrows: usize = w.dicts.iter().map(|d| d.len()).sum();
    run.bump(&format!("rows:{}", if nrows > 1000 { ">1000" } else if nrows > 100 { "101-1000" } else if nrows > 20 { "21-100" } else { "<=20" }));
    let mut homo = std::collections::HashMap::new();
    let mut has_nonidx = false;
    for (d, rows) in w.dicts.iter().enumerate() {
        for r in rows {
            if r.indexed() { *homo.entry((d, r.surface.clone())).or_insert(0usize) += 1; } else { has_nonidx = true; }
        }
    }
    let maxh = homo.values().copied().max().unwrap_or(0);
    run.bump(&format!("homographs:{}", if maxh >= 127 { "127" } else if maxh >= 20 { "20-126" } else if maxh >= 2 { "2-19" } else { "1" }));
    if has_nonidx { run.bump("has-non-indexed"); }
    if w.dicts.iter().flatten().any(|r| r.surface.chars().any(|c| c.len_utf8() == 4)) { run.bump("astral-key"); }
    // keys that are proper prefixes of other keys
    let all: Vec<&str> = w.dicts.iter().flatten().map(|r| r.surface.as_str()).collect();
    let prefix_rel = all.iter().any(|a| all.iter().any(|b| b.len() > a.len() && b.as_bytes().starts_with(a.as_bytes())));
    if prefix_rel { run.bump("prefix-related-keys"); }

    payload.push_str(&format!(" texts={} exact=@", join(w.texts.iter().map(|t| hex(t)), ";")));

    // ---- the real implementation ----
    let lex = built.dic.lexicon();
    let mut look = vec![];
    let mut fails: Vec<(String, String)> = vec![];
    let mut multi = false;
    let mut nlook = 0u64;
    let mut nhits = 0u64;
    for text in &w.texts {
        let mut parts = vec![];
        for off in 0..=text.len() + 1 {
            let r = catch(|| lex.lookup(text, off).map(|e| (e.word_id.as_raw(), e.end)).collect::<Vec<_>>());
            nlook += 1;
            match r {
                Err(p) => {
                    parts.push(format!("{}>P", off));
                    fails.push(("c04:panic".into(), format!("lookup({}, {}) panicked: {}", hex(text), off, p)));
                }
                Ok(v) => {
                    if !v.is_empty() { parts.push(format!("{}>{}", off, show_pairs(&v))); }
                    if v.len() > 1 { multi = true; }
                    nhits += v.len() as u64;
                    let mut got = v.clone();
                    got.sort();
                    let want = naive(&w.dicts, text, off);
                    if got != want {
                        let kind = classify(&w.dicts, text, off, &got, &want);
                        if kind == "nul-followed" && got.iter().any(|x| !want.contains(x) && nul_explained_kind(&w.dicts, text, off, x) == 2) {
                            run.bump("finding:nul-reset-to-root");
                        }
                        fails.push((format!("c04:lookup:{}", kind), format!(
                            "text {} offset {}: lookup returned [{}], naive scan of the source rows gives [{}]",
                            hex(text), off, show_pairs(&got), show_pairs(&want))));
                    }
                }
            }
        }
        look.push(parts.join(";"));
    }
    run.bump_by("lookups", nlook);
    run.bump_by("lookup-hits", nhits);
    // ---- exact-surface lookup: MorphemeList::lookup, on a NEW list per query (even cases) or on ONE
    // StatefulTokenizer + ONE MorphemeList that analysed / looked up other texts before (odd cases) ----
    let recycled = idx % 2 == 1;
    run.bump(if recycled { "objects:recycled" } else { "objects:new" });
    let mut hrng = Rng::for_case(run.opts.seed ^ 0x5eed_c04, idx);
    let mut tok = StatefulTokenizer::new(&built.dic, Mode::C);
    let mut shared = MorphemeList::empty(&built.dic);
    let mut prev_wids: Option<Vec<u32>> = None; // word ids the shared list holds if the last call on it was a lookup of this sequence
    let mut exact = vec![];
    let mut modes = vec![];
    for (qi, q) in w.exact.iter().enumerate() {
        // history: 1..4 other texts through the same objects (longer, shorter, empty, rejected)
        let keep = recycled && qi > 0 && prev_wids.is_some() && hrng.chance(1, 4);
        if recycled && !keep {
            let steps = hrng.range(1, 4);
            for _ in 0..steps {
                let kind = hrng.below(9);
                let text: String = match kind {
                    0 => String::new(),
                    1 => "a".repeat(49150),                                  // rejected: InputTooLong
                    2 => { let d = hrng.pick(&w.dicts); hrng.pick(d).surface.chars().take(1).collect() }
                    3 | 4 => { let mut t = String::new(); for _ in 0..hrng.range(2, 9) { let d = hrng.pick(&w.dicts); t.push_str(&hrng.pick(d).surface); let pool2 = if hrng.chance(1, 2) { TEXT_EXTRA } else { REWRITTEN }; t.push(*hrng.pick(pool2)); } t }
                    5 => format!("{}{}", q, hrng.pick(KEY_CHARS)),
                    6 => { let n = q.chars().count(); q.chars().take(n.saturating_sub(1)).collect() }
                    _ => match std::str::from_utf8(&hrng.pick(&w.texts[..])[..]) { Ok(t) => t.to_string(), Err(_) => "東京".to_string() },
                };
                if hrng.chance(1, 3) {
                    // another exact lookup through the same list
                    run.bump("history:lookup");
                    let _ = catch(|| { shared.clear(); let _ = shared.lookup(&text, InfoSubset::all()); });
                } else {
                    run.bump(&format!("history:analysis:{}", if text.is_empty() { "empty" } else if text.len() > 49149 { "rejected" } else if text.len() > q.len() { "longer" } else if text.len() < q.len() { "shorter" } else { "same-length" }));
                    let r = catch(|| -> Result<Option<String>, String> {
                        tok.reset().push_str(&text);
                        tok.do_tokenize().map_err(|e| err_class(&e))?;
                        let bad = lattice_check(&w.dicts, &tok, &text);
                        shared.collect_results(&mut tok).map_err(|e| err_class(&e))?;
                        Ok(bad)
                    });
                    match r {
                        Ok(Ok(Some(bad))) => fails.push(("c04:lattice".into(), bad)),
                        Ok(Ok(None)) => { run.bump("lattice-checked"); }
                        Ok(Err(_)) => { run.bump("history:analysis-error"); }
                        Err(p) => fails.push(("c04:history-panic".into(), format!("analysis of {:?} on the reused tokenizer panicked: {}", text.chars().take(40).collect::<String>(), p))),
                    }
                }
                prev_wids = None;
            }
        }
        modes.push(if keep { 'k' } else { 'c' });
        if keep { run.bump("exact:keep"); }
        let r = catch(|| -> Result<(usize, Vec<u32>, Vec<(usize, usize, usize, usize, String)>), String> {
            let mut fresh;
            let ml = if recycled { &mut shared } else { fresh = MorphemeList::empty(&built.dic); &mut fresh };
            if !keep { ml.clear(); }
            let n = ml.lookup(q, InfoSubset::all()).map_err(|e| err_class(&e))?;
            let all: Vec<u32> = ml.iter().map(|m| m.word_id().as_raw()).collect();
            let skip = all.len().saturating_sub(n);
            let last = ml.iter().skip(skip).map(|m| (m.begin_c(), m.end_c(), m.begin(), m.end(), m.surface().to_string())).collect();
            Ok((n, all, last))
        });
        let qb = q.as_bytes();
        match r {
            Err(p) => { exact.push("P".to_string()); prev_wids = None; fails.push(("c04:exact-panic".into(), format!("MorphemeList::lookup({:?}) panicked: {}", q, p))); }
            Ok(Err(e)) => {
                exact.push(format!("E{}", e));
                if !keep || ml_replaces() { prev_wids = Some(vec![]); }
                if !(e == "TooLong" && qb.len() > 49149) {
                    fails.push(("c04:exact-error".into(), format!("MorphemeList::lookup({:?}) failed: {}", q.chars().take(60).collect::<String>(), e)));
                } else { run.bump("exact:too-long"); }
            }
            Ok(Ok((n, all, last))) => {
                exact.push(format!("{}/{}/{}", n, join(all.iter(), ","), join(last.iter().map(|x| format!("{}:{}:{}:{}", x.0, x.1, x.2, x.3)), ",")));
                let before: Vec<u32> = if keep && !ml_replaces() { prev_wids.clone().unwrap_or_default() } else { vec![] };
                if all.len() != before.len() + n || all[..before.len().min(all.len())] != before[..] {
                    fails.push(("c04:exact-list".into(), format!("MorphemeList::lookup({:?}) returned {} but the list went from {:?} to {:?} (it has to append exactly the reported number of morphemes)", q, n, before, all)));
                }
                let mut got: Vec<u32> = all[all.len().saturating_sub(n)..].to_vec();
                got.sort();
                let mut want = vec![];
                for (d, rows) in w.dicts.iter().enumerate() {
                    for (i, r) in rows.iter().enumerate() {
                        if r.left >= 0 && r.surface == *q { want.push(((d as u32) << 28) | i as u32); }
                    }
                }
                want.sort();
                let nul_only = want.iter().all(|x| got.contains(x)) && {
                    let mut g2 = got.clone(); g2.dedup(); g2.len() == got.len()
                } && got.iter().filter(|x| !want.contains(x)).all(|x| nul_explained(&w.dicts, qb, 0, &(*x, qb.len())));
                if got != want && nul_only {
                    fails.push(("c04:exact:nul-followed".into(), format!("exact lookup of {:?} ({}): returned {:?}, rows with that surface {:?}", q, hex(qb), got, want)));
                } else if got != want {
                    fails.push(("c04:exact".into(), format!("exact lookup of {:?} ({}){}: returned {:?}, rows with that surface {:?}", q, hex(q.as_bytes()), if recycled { " on a reused list" } else { "" }, got, want)));
                } else if last.iter().any(|x| x.0 != 0 || x.1 != q.chars().count() || x.2 != 0 || x.3 != q.len() || x.4 != *q) {
                    fails.push(("c04:exact-range".into(), format!("exact lookup of {:?}{}: a morpheme does not span the query: {:?}", q, if recycled { " on a reused list" } else { "" }, last)));
                }
                prev_wids = Some(all);
            }
        }
    }
    let ones = join(w.dicts.iter().map(|_| 1), ",");
    let ans = format!("ok sizes={} tbl={} chk={} wr={} look={} exact={}", sizes.join(","), ones, ones, ones, look.join("|"), exact.join("|"));
    let payload = payload.replace(" exact=@", &format!(" exact={}", join(w.exact.iter().zip(modes.iter()).map(|(q, m)| format!("{}:{}", m, hex(q.as_bytes()))), ";")));
    run.case(idx, "world", &payload, &ans, prefix_rel && multi);
    let mut seen = std::collections::HashSet::new();
    for (k, w) in fails.into_iter() {
        if k.ends_with("nul-followed") { run.bump(&format!("finding:{}", k)); }
        if seen.insert(k.clone()) { run.fail(idx, &k, &w); }
    }
}

/// The look-ups as the analysis makes them (`LatticeBuilder::build_lattice`): for every character
/// boundary that is reachable in the lattice the dictionary nodes that begin there must be the naive
/// scan of the source rows at that byte offset, minus the entries the builder drops itself (end not
/// at a possible word beginning, `InputBuffer::can_bow`, taken from the real buffer).  Called after
/// `do_tokenize` and before `collect_results` (which swaps the buffer away).  The scan runs over the
/// text as the input-text plugins left it (`InputBuffer::current`).
fn lattice_check(dicts: &[Vec<Row>], tok: &StatefulTokenizer<&JapaneseDictionary>, text: &str) -> Option<String> {
    let input = tok.verif_input();
    // the look-ups run on the text as the input-text plugins left it
    let cur = input.current().to_string();
    let bytes = cur.as_bytes();
    let mut offs: Vec<usize> = cur.char_indices().map(|(i, _)| i).collect();
    offs.push(bytes.len());
    let nchars = offs.len() - 1;
    let rows = tok.verif_lattice().verif_rows();
    for b in 0..nchars {
        if b > 0 && rows.get(b).map_or(true, |r| r.is_empty()) { continue; }
        let mut got: Vec<(u32, usize)> = vec![];
        for e in b + 1..=nchars {
            if let Some(r) = rows.get(e) {
                for n in r { if n.0 == b && (n.5 >> 28) != 15 { got.push((n.5, offs[e])); } }
            }
        }
        got.sort();
        let want: Vec<(u32, usize)> = naive(dicts, bytes, offs[b]).into_iter().filter(|x| x.1 >= bytes.len() || input.can_bow(x.1)).collect();
        if got != want {
            return Some(format!("text {:?} (analysed as {:?}): dictionary nodes of the lattice that begin at character {} (byte {}) are [{}], naive scan of the source rows gives [{}]",
                text.chars().take(60).collect::<String>(), cur.chars().take(60).collect::<String>(), b, offs[b], show_pairs(&got), show_pairs(&want)));
        }
    }
    None
}

/// An entry that is explained by the NUL defect (byte 0 is followed as a transition of the double
/// array): the bytes text[off..end] contain a NUL byte and the row's surface equals them with the
/// NUL bytes removed (NUL skipped: the slot `node ^ 0` is an unused all-zero unit), or equals the
/// part after one of the NUL bytes with further NUL bytes removed (the node's base is 0, so
/// `node ^ 0` is the root unit, whose label is 0 and whose offset leads back to the root).
/// Returns 0 = not explained, 1 = skipped, 2 = reset to the root.
fn nul_explained_kind(dicts: &[Vec<Row>], text: &[u8], off: usize, e: &(u32, usize)) -> u8 {
    let d = (e.0 >> 28) as usize;
    let i = (e.0 & 0x0fff_ffff) as usize;
    let r = match dicts.get(d).and_then(|r| r.get(i)) { Some(r) => r, None => return 0 };
    if r.left < 0 || e.1 > text.len() || off > e.1 { return 0; }
    let span = &text[off..e.1];
    if !span.contains(&0) { return 0; }
    let strip = |s: &[u8]| -> Vec<u8> { s.iter().copied().filter(|&b| b != 0).collect() };
    if strip(span) == r.surface.as_bytes() { return 1; }
    for (p, &b) in span.iter().enumerate() {
        if b == 0 && strip(&span[p + 1..]) == r.surface.as_bytes() { return 2; }
    }
    0
}

fn nul_explained(dicts: &[Vec<Row>], text: &[u8], off: usize, e: &(u32, usize)) -> bool {
    nul_explained_kind(dicts, text, off, e) != 0
}

/// what kind of disagreement: used as the stable key of the failure
fn classify(dicts: &[Vec<Row>], text: &[u8], off: usize, got: &[(u32, usize)], want: &[(u32, usize)]) -> &'static str {
    let mut g = got.to_vec();
    g.dedup();
    if g.len() != got.len() { return "duplicate"; }
    let missing = want.iter().any(|x| !got.contains(x));
    if !missing && got.iter().filter(|x| !want.contains(x)).all(|x| nul_explained(dicts, text, off, x)) {
        return "nul-followed";
    }
    for (w, _) in got {
        let d = (w >> 28) as usize;
        let i = (w & 0x0fff_ffff) as usize;
        match dicts.get(d).and_then(|r| r.get(i)) {
            None => return "unknown-id",
            Some(r) if r.left < 0 => return "non-indexed",
            _ => {}
        }
    }
    let gi: Vec<u32> = got.iter().map(|x| x.0).collect();
    let wi: Vec<u32> = want.iter().map(|x| x.0).collect();
    if gi == wi { return "end"; }
    if missing { return "missing"; }
    "extra"
}

/// hand-made array that uses the extended offset form (bit 9: offset field shifted by 8), which
/// arrays below 2^21 units never contain: root at 256, key `a` -> value 7 via a unit at 353 whose
/// extended offset 512 leads to the value unit at 865
fn ext_offset_case(run: &mut Run, idx: usize) {
    let mut units = vec![0u32; 1024];
    units[0] = (1 << 10) | (1 << 9);
    units[256 ^ 97] = 97 | (1 << 8) | (2 << 10) | (1 << 9);
    units[(256 ^ 97) ^ 512] = 0x8000_0000 | 7;
    let text = b"ba".to_vec();
    let payload = format!("{} units={} text={}", nul_token(), join(units.iter(), ","), hex(&text));
    let trie = Trie::new_owned(units);
    let mut parts = vec![];
    let mut at1 = vec![];
    for off in 0..=text.len() + 1 {
        match catch(|| trie.common_prefix_iterator(&text, off).map(|e| (e.value, e.end)).collect::<Vec<_>>()) {
            Err(_) => parts.push(format!("{}>P", off)),
            Ok(v) => { if off == 1 { at1 = v.clone(); } if !v.is_empty() { parts.push(format!("{}>{}", off, show_pairs(&v))); } }
        }
    }
    run.bump("trie-ext-offset");
    run.case(idx, "trie", &payload, &format!("ok {}", parts.join(";")), true);
    if at1 != vec![(7u32, 2usize)] {
        run.fail(idx, "c04:trie:ext-offset", &format!("array with extended offsets: key `a` at offset 1 of `ba` gives [{}], expected [7:2]", show_pairs(&at1)));
    }
}

fn trie_case(run: &mut Run, idx: usize, rng: &mut Rng, matrix: &[u8]) {
    if idx == 14 { return ext_offset_case(run, idx); }
    // units of a real array (built from a few keys), optionally damaged; traversal of arbitrary arrays
    let k = rng.range(2, 4);
    let pool: Vec<char> = (0..k).map(|_| *rng.pick(&KEY_CHARS[..12])).collect();
    let nrows = rng.range(1, 12);
    let rows = gen_rows(rng, &pool, nrows, 2, &[]);
    let bin = match build_system(csv_of(&rows, &default_pos()).as_bytes(), matrix) {
        Ok(b) => b,
        Err(_) => return,
    };
    let p = match parse_dictionary(&bin) {
        Some(p) => p,
        None => {
            run.case(idx, "trie", "units= text=", "err:layout", false);
            run.fail(idx, "c04:layout", "compiled dictionary does not follow the documented layout");
            return;
        }
    };
    let mut units = p.units.clone();
    // keep the line short: the builder allocates whole blocks, the tail is unused
    let used = units.iter().rposition(|&u| u != 0).map_or(1, |i| i + 1);
    let damage = if idx == 6 { 0 } else { rng.below(4) };
    match damage {
        0 => {}
        1 => { units.truncate(used.max(1)); }
        2 => { let i = rng.below(used); units[i] ^= 1 << rng.below(32); }
        _ => { let i = rng.below(used); units[i] = rng.next() as u32; units.truncate((used + rng.below(3)).min(units.len())); }
    }
    run.bump(&format!("trie-damage:{}", damage));
    let texts = gen_texts(rng, &[rows.clone()], &pool, 2);
    let text = &texts[0];
    let payload = format!("{} units={} text={}", nul_token(), join(units.iter(), ","), hex(text));
    let trie = Trie::new_owned(units.clone());
    let mut parts = vec![];
    for off in 0..=text.len() + 1 {
        let r = catch(|| trie.common_prefix_iterator(text, off).map(|e| (e.value, e.end)).collect::<Vec<_>>());
        match r {
            Err(_) => { parts.push(format!("{}>P", off)); run.bump("trie-oob"); }
            Ok(v) => if !v.is_empty() { parts.push(format!("{}>{}", off, show_pairs(&v))); },
        }
    }
    run.case(idx, "trie", &payload, &format!("ok {}", parts.join(";")), damage > 0);
}

fn wid_case(run: &mut Run, idx: usize, rng: &mut Rng) {
    // WordIdTable::entries on an arbitrary buffer; only calls whose reads stay inside the buffer or
    // whose debug assertion fires are made (anything else is undefined behaviour, not a test)
    let n = rng.range(1, 40);
    let mut bytes: Vec<u8> = (0..n).map(|_| if rng.chance(1, 2) { rng.below(4) as u8 } else { rng.next() as u8 }).collect();
    if idx == 7 {
        bytes = vec![2, 1, 0, 0, 0, 0xff, 0xff, 0xff, 0x0f, 1, 0x78, 0x56, 0x34, 0x12, 0, 3, 9];
    }
    let base = if rng.chance(1, 2) { 0 } else { rng.below(bytes.len()) };
    let mut ats = vec![];
    let mut outs = vec![];
    let table = WordIdTable::new(&bytes, (bytes.len() - base) as u32, base);
    for at in 0..bytes.len() + 2 {
        let len = bytes.len();
        let safe_panic1 = at >= len;
        let in_buf = at + base < len;
        let (safe, expect_panic) = if safe_panic1 { (true, true) } else if !in_buf { (false, false) } else {
            let cnt = bytes[at + base] as usize;
            if at + cnt * 4 + 1 > len { (true, true) } else if at + base + 1 + 4 * cnt > len { (false, false) } else { (true, false) }
        };
        if !safe { run.bump("wid-skipped-ub"); continue; }
        let r = catch(|| table.entries(at).collect::<Vec<u32>>());
        ats.push(at);
        match r {
            Err(_) => { outs.push("P".to_string()); run.bump("wid-assert"); if !expect_panic { run.bump("wid-unexpected-panic"); } }
            Ok(v) => outs.push(join(v.iter(), ",")),
        }
    }
    let payload = format!("bytes={} base={} at={}", hex(&bytes), base, join(ats.iter(), ","));
    run.case(idx, "wid", &payload, &format!("ok {}", outs.join(";")), true);
}

/// which variant of the traversal is linked: does a NUL byte get looked up in the array ("follow",
/// the code as it stands) or does the iterator stop at it ("stop", the candidate repair)?  Probed on
/// the array the builder produces for the single key `a`.
fn probe_nul_variant() -> &'static str {
    let mut units = vec![0u32; 256];
    units[0] = 98304;
    units[1] = 3425;
    units[2] = 2147483648;
    let trie = Trie::new_owned(units);
    let r = catch(|| trie.common_prefix_iterator(&[0u8, 97], 0).map(|e| (e.value, e.end)).collect::<Vec<_>>());
    match r {
        Ok(v) if v.is_empty() => "stop",
        _ => "follow",
    }
}

pub fn run(run: &mut Run) {
    // the case lines carry whole double arrays and word-id tables (thorough worlds reach ~10 MB): they are legitimate
    run.max_payload = 100_000_000;
    let variant = probe_nul_variant();
    run.extra.insert("nul_variant".into(), serde_json::json!(variant));
    NUL_VARIANT.with(|v| *v.borrow_mut() = variant);
    run.rule = "one case = one world: system + 0..14 user dictionaries compiled by the real DictBuilder from generated rows \
(2-6 characters of 1-4 bytes per world, prefix families, proper prefixes, up to 127 homographs, non-indexed rows, keys shared \
between layers, tables beyond 255 / 65 535 bytes) and loaded by the real JapaneseDictionary; LexiconSet::lookup at EVERY byte \
offset 0..=len+1 of 2-6 texts (key concatenations, NUL, one byte-damaged text) + MorphemeList::lookup of 1-6 queries - in even cases on a \
new list per query, in odd cases on ONE StatefulTokenizer + ONE MorphemeList that analysed / looked up 1-4 other texts before each query \
(longer, shorter, empty, rejected as too long; every 4th world with the default input-text plugin rewriting those texts), sometimes without \
clear() between two look-ups; each of those analyses compares the dictionary nodes of the lattice with the naive scan; every 8th \
pair of cases instead runs Trie::common_prefix_iterator on (damaged) raw arrays and WordIdTable::entries on arbitrary buffers; \
non-trivial = prefix-related keys and some lookup with >= 2 results; distinct by line".into();
    let wd = Workdir::new(&format!("{}-c04", run.prop));
    let cfg = config_json(&wd, &[], &[simple_oov_json(0, 0, 1000)], &[], &[]);
    let cfg_rw = config_json(&wd, &[r#"{"class":"com.worksap.nlp.sudachi.DefaultInputTextPlugin","rewriteDef":"rewrite.def"}"#.to_string()], &[simple_oov_json(0, 0, 1000)], &[], &[]);
    let matrix = b"1 1\n0 0 0\n".to_vec();
    // what the NUL defect means for the tokenizer (information only, recorded in the evidence)
    {
        let rows = vec![row("a", true), row("bc", true), row("東京", true)];
        if let Ok(sys) = build_system(csv_of(&rows, &default_pos()).as_bytes(), &matrix) {
            if let Ok(dic) = load(&cfg, sys, vec![]) {
                let mut demo = vec![];
                for text in ["\u{0}a", "b\u{0}c", "\u{0}東京", "東\u{0}京"] {
                    if let Ok(Ok(toks)) = tokenize(&dic, text, sudachi::analysis::Mode::C) {
                        demo.push(format!("{:?} -> {}", text, join(toks.iter().map(|t| format!("[{:?} id={} oov={}]", t.surface, t.word_id, t.is_oov)), " ")));
                    }
                }
                run.extra.insert("nul_tokenizer_demo".into(), serde_json::json!(demo));
                // which variant of MorphemeList::lookup is linked: does a second look-up on the same list append
                // ("append", the code as it stands) or replace ("replace", the candidate repair)?  And what the
                // appended state means: the first batch of morphemes now points into the second query's text.
                let probe = catch(|| {
                    let mut ml = MorphemeList::empty(&dic);
                    let _ = ml.lookup("東京", InfoSubset::all());
                    let _ = ml.lookup("a", InfoSubset::all());
                    let n = ml.len();
                    let first = catch(|| ml.get(0).surface().to_string());
                    (n, first)
                });
                if let Ok((n, first)) = probe {
                    let variant = if n == 1 { "replace" } else { "append" };
                    ML_VARIANT.with(|v| *v.borrow_mut() = variant);
                    run.extra.insert("ml_variant".into(), serde_json::json!(variant));
                    run.extra.insert("ml_append_demo".into(), serde_json::json!(format!(
                        "lookup(\"東京\"); lookup(\"a\") on one list without clear(): {} morphemes; surface of morpheme 0: {}",
                        n, match first { Ok(s) => format!("{:?}", s), Err(p) => format!("PANIC {}", p.chars().take(120).collect::<String>()) })));
                }
            }
        }
    }
    let n = run.opts.count;
    for idx in 0..n {
        if !run.wants(idx) { continue; }
        let mut rng = Rng::for_case(run.opts.seed, idx);
        if idx % 8 == 6 { trie_case(run, idx, &mut rng, &matrix); continue; }
        if idx % 8 == 7 { wid_case(run, idx, &mut rng); continue; }
        let w = match directed(idx) {
            Some(w) => w,
            None => random_world(&mut rng, run.opts.thorough),
        };
        // every 4th world loads with the default input-text plugin: the analyses that precede the exact look-ups on the
        // reused objects then rewrite their text (edit buffers in use); look-ups themselves never run plugins
        let with_rw = idx % 4 == 3;
        if with_rw { run.bump("config:input-text-plugin"); }
        world_case(run, idx, if with_rw { &cfg_rw } else { &cfg }, &matrix, &w);
    }
}
