//! C06: the dictionary compiler is total and never emits an invalid dictionary.
//!
//! Every case is a sequence of calls on one `DictBuilder` (`read_conn` of a matrix text,
//! `read_lexicon` of CSV bytes, `resolve`; usually read_conn -> read_lexicon -> resolve, but also
//! several lexicon parts with a `resolve` after none/some/all of them, `read_conn` late or twice,
//! a `read_conn` whose `Err` the caller ignores and then goes on: `Op::ConnIgn`; a `read_lexicon`
//! whose `Err` the caller ignores: `Op::LexIgn` - the rows parsed before the malformed one stay in
//! the builder) followed by `compile`.  The real builder is run under `catch_unwind`, every CSV text is split
//! into records by the real `csv` crate with the reader options of `LexiconReader::read_bytes`,
//! and the records go to the Lean model on the case line.
//! Oracle (independent of the model): no panic; a success must be a valid dictionary
//! (own walk over the binary format + load + trie lookups + tokenisation in modes A/B/C);
//! a sink that fails at byte k < len must never yield success.
use crate::common::*;
use crate::dict::{config_json, load, tokenize, Workdir, TEXT_CHARS};
use std::cell::Cell;
use std::io::Write;
use sudachi::analysis::Mode;
use sudachi::dic::build::error::{BuildFailure, DicBuildError};
use sudachi::dic::build::DictBuilder;
use sudachi::dic::dictionary::JapaneseDictionary;
use sudachi::dic::word_id::WordId;
use sudachi::error::SudachiError;

// ---------------------------------------------------------------------------------------------
// the repository the harness is linked against (for the variant probe)

fn repo_src() -> String {
    let root = std::env::var("VERIF_ROOT").unwrap_or_else(|_| "/verif".to_string());
    let toml = std::fs::read_to_string(format!("{}/harness/Cargo.toml", root)).unwrap_or_default();
    for l in toml.lines() {
        if l.trim_start().starts_with("sudachi") {
            if let Some(i) = l.find("path") {
                let rest = &l[i..];
                if let Some(a) = rest.find('"') {
                    if let Some(b) = rest[a + 1..].find('"') {
                        return rest[a + 1..a + 1 + b].to_string();
                    }
                }
            }
        }
    }
    "/repo/sudachi".to_string()
}

/// which of the planned repairs D1..D5 are present in the source text
pub fn probe_variant() -> String {
    let base = format!("{}/src/dic/build", repo_src());
    let rd = |f: &str| std::fs::read_to_string(format!("{}/{}", base, f)).unwrap_or_default();
    let strip = |s: String| -> String {
        // drop line comments so that a commented-out repair is not taken for a repair
        s.lines().map(|l| l.split("//").next().unwrap_or("")).collect::<Vec<_>>().join("\n")
    };
    let conn = strip(rd("conn.rs"));
    let lex = strip(rd("lexicon.rs"));
    let index = strip(rd("index.rs"));
    let compact = |s: &str| s.chars().filter(|c| !c.is_whitespace()).collect::<String>();
    let (conn_c, lex_c, index_c) = (compact(&conn), compact(&lex), compact(&index));
    let d1 = !conn_c.contains("todo!()");
    let d2 = conn_c.contains("left>=self.num_left") && conn_c.contains("right>=self.num_right");
    let d3 = lex_c.contains("e.right_id<0");
    let d4 = index_c.contains("trie_entries.is_empty()");
    let d5 = lex_c.contains("surface.contains('\\0')");
    [d1, d2, d3, d4, d5].iter().map(|&b| if b { '1' } else { '0' }).collect()
}

/// handling of the builder's `resolved` flag: "fix" when `DictBuilder::read_lexicon` clears it
/// (new entries may carry unresolved inline splits), "cur" when only `resolve` touches it
pub fn probe_resolved_flag() -> &'static str {
    let src = std::fs::read_to_string(format!("{}/src/dic/build/mod.rs", repo_src())).unwrap_or_default();
    let code: String = src.lines().map(|l| l.split("//").next().unwrap_or("")).collect::<Vec<_>>().join("\n");
    let c: String = code.chars().filter(|c| !c.is_whitespace()).collect();
    let body = match c.find("pubfnread_lexicon") {
        Some(a) => {
            let rest = &c[a + 1..];
            let end = rest.find("pubfn").unwrap_or(rest.len());
            rest[..end].to_string()
        }
        None => String::new(),
    };
    if body.contains("self.resolved=false") { "fix" } else { "cur" }
}

/// which of the repairs N1, N3, S4, S5, S6, S7, S8 the linked builder has — probed by BEHAVIOUR (the
/// witnesses of the findings / observations on the real `DictBuilder`), so the flags follow whatever
/// form the repair takes in the source: one character per repair, '1' = repaired
pub fn probe_fixes(system: Option<&JapaneseDictionary>) -> String {
    let row = |s: &str, l: i64, r: i64| format!("{},{},{},100,{},名詞,普通名詞,一般,*,*,*,{},{},*,A,*,*,*,*\n", s, l, r, s, s, s);
    let sys_case = |ops: Vec<Op>| Case { conn: None, csv: vec![], resolve: false, ops: Some(ops), desc: "probe".into(), user: false, ks: None, twice: false, tag: "probe".into() };
    let conn = |m: &str| Op::Conn(m.as_bytes().to_vec());
    let ign = |m: &str| Op::ConnIgn(m.as_bytes().to_vec());
    let lex = |t: String| Op::Lex(t.into_bytes());
    let is_err = |o: &Out, k: &str| matches!(o, Out::Err { kind, .. } if kind == k);
    // N1: no read_conn at all, a row with ids (0, 0): rejected by validate_entries after the repair
    let n1 = is_err(&run_pipeline(&sys_case(vec![lex(row("あ", 0, 0))]), None, None).0, "InvalidFieldSize");
    // N3: read_conn("9 9") on a user builder over the 3x3 system dictionary, a row with ids (5, 5)
    let n3 = match system {
        Some(sys) => { let mut c = sys_case(vec![conn("9 9\n"), lex(row("大阪", 5, 5))]); c.user = true; is_err(&run_pipeline(&c, Some(sys), None).0, "InvalidFieldSize") }
        None => false,
    };
    // S4: a second text that lists no cell: the matrix that is written is all zeros after the repair
    let s4 = match &run_pipeline(&sys_case(vec![conn("2 2\n0 0 7\n1 1 9\n"), conn("2 2\n"), lex(row("あ", 0, 0))]), None, None).0 {
        Out::Ok { bytes, .. } => read_bin(bytes).map_or(false, |d| d.cells.iter().all(|&c| c == 0)),
        _ => false,
    };
    // S5: the correct text is accepted after a call that failed on a line
    let s5 = matches!(run_pipeline(&sys_case(vec![ign("2 2\n0 0 x\n"), conn("2 2\n0 0 1\n"), lex(row("あ", 0, 0))]), None, None).0, Out::Ok { .. });
    // S6: a read_conn that failed after resizing the matrix to 1x1: ids (2, 2) are rejected after the repair
    let s6 = is_err(&run_pipeline(&sys_case(vec![conn("3 3\n"), ign("1 1\n0 0 x\n"), lex(row("あ", 2, 2))]), None, None).0, "InvalidFieldSize");
    // S7: a row rejected for its empty surface has inline splits: as the code stands it has bumped `unresolved`
    // (compile answers UnresolvedSplits although no entry has an inline split)
    let lex_ign = |t: String| Op::LexIgn(t.into_bytes());
    let m11 = "1 1\n0 0 0\n";
    let empty_inl = ",0,0,100,あ,名詞,普通名詞,一般,*,*,*,あ,あ,*,C,\"あ,名詞,普通名詞,一般,*,*,*,あ\",*,*,*\n".to_string();
    let s7 = matches!(run_pipeline(&sys_case(vec![conn(m11), lex(row("あ", 0, 0)), lex_ign(empty_inl)]), None, None).0, Out::Ok { .. });
    // S8: a read_lexicon that fails after a well-formed row: the row stays (2 words) / the text is read completely or not at all (1 word)
    let s8 = match &run_pipeline(&sys_case(vec![conn(m11), lex_ign(format!("{}い,0\n", row("あ", 0, 0))), lex(row("う", 0, 0))]), None, None).0 {
        Out::Ok { bytes, .. } => read_bin(bytes).map_or(false, |d| d.infos.len() == 1),
        _ => false,
    };
    [n1, n3, s4, s5, s6, s7, s8].iter().map(|&b| if b { '1' } else { '0' }).collect()
}

// ---------------------------------------------------------------------------------------------
// sinks

struct FailingWriter {
    left: usize,
    style: usize,
    failed: bool,
}

impl Write for FailingWriter {
    fn write(&mut self, buf: &[u8]) -> std::io::Result<usize> {
        if buf.is_empty() {
            return Ok(0);
        }
        match self.style % 4 {
            // accept what fits, then fail
            0 => {
                if self.left == 0 {
                    return Err(std::io::Error::new(std::io::ErrorKind::Other, "sink failure"));
                }
                let n = buf.len().min(self.left);
                self.left -= n;
                Ok(n)
            }
            // fail the whole chunk that does not fit
            1 => {
                if buf.len() > self.left {
                    self.left = 0;
                    return Err(std::io::Error::new(std::io::ErrorKind::BrokenPipe, "sink failure"));
                }
                self.left -= buf.len();
                Ok(buf.len())
            }
            // a transient failure: the chunk that reaches byte k fails once, later writes succeed
            2 => {
                if !self.failed && buf.len() > self.left {
                    self.failed = true;
                    return Err(std::io::Error::new(std::io::ErrorKind::TimedOut, "transient sink failure"));
                }
                if !self.failed { self.left -= buf.len(); }
                Ok(buf.len())
            }
            // a full device: accepts what fits, then reports 0 bytes written
            _ => {
                let n = buf.len().min(self.left);
                self.left -= n;
                Ok(n)
            }
        }
    }
    fn flush(&mut self) -> std::io::Result<()> {
        Ok(())
    }
}

// ---------------------------------------------------------------------------------------------
// cases

/// one call on the builder before `compile`
#[derive(Clone, Debug, PartialEq)]
pub enum Op {
    /// `read_conn(text)?`
    Conn(Vec<u8>),
    /// `let _ = read_conn(text)`: an `Err` is ignored, the builder is used further
    ConnIgn(Vec<u8>),
    Lex(Vec<u8>),
    /// `let _ = read_lexicon(text)`: an `Err` is ignored, the builder is used further
    LexIgn(Vec<u8>),
    Resolve,
}

impl Op {
    fn conn_text(&self) -> Option<&Vec<u8>> {
        match self { Op::Conn(m) | Op::ConnIgn(m) => Some(m), _ => None }
    }
    fn lex_text(&self) -> Option<&Vec<u8>> {
        match self { Op::Lex(d) | Op::LexIgn(d) => Some(d), _ => None }
    }
}

#[derive(Clone)]
pub struct Case {
    pub conn: Option<Vec<u8>>,
    pub csv: Vec<u8>,
    pub resolve: bool,
    /// the calls on the builder; None = the usual pipeline read_conn(conn)? -> read_lexicon(csv) -> resolve()?
    pub ops: Option<Vec<Op>>,
    pub desc: String,
    pub user: bool,
    /// sink offsets to try: None = none, Some(vec![]) = all offsets 0..=len+1
    pub ks: Option<Vec<usize>>,
    /// call `compile` a second time on the same builder and compare the bytes
    pub twice: bool,
    pub tag: String,
}

impl Case {
    pub fn ops(&self) -> Vec<Op> {
        match &self.ops {
            Some(o) => o.clone(),
            None => {
                let mut v = vec![];
                if let Some(m) = &self.conn { v.push(Op::Conn(m.clone())); }
                v.push(Op::Lex(self.csv.clone()));
                if self.resolve { v.push(Op::Resolve); }
                v
            }
        }
    }
}

#[derive(Clone, Debug, PartialEq)]
enum Out {
    /// `again`: what a second `compile` on the same builder did differently (None = nothing / not tried)
    Ok { bytes: Vec<u8>, len: usize, res: usize, again: Option<String> },
    /// `at` = position of the failing call (number of calls = `compile`)
    Err { stage: &'static str, at: usize, kind: String, line: Option<usize> },
    Panic { stage: &'static str, at: usize, msg: String },
}

fn failure_name(c: &BuildFailure) -> String {
    match c {
        BuildFailure::InvalidSize { .. } => "InvalidSize".into(),
        BuildFailure::InvalidFieldSize { .. } => "InvalidFieldSize".into(),
        BuildFailure::Io(_) => "Io".into(),
        BuildFailure::NoRawField(_) => "NoRawField".into(),
        BuildFailure::CsvError(_) => "Csv".into(),
        BuildFailure::InvalidCharLiteral(_) => "InvalidCharLiteral".into(),
        BuildFailure::InvalidI16Literal(_) => "InvalidI16Literal".into(),
        BuildFailure::InvalidU32Literal(_) => "InvalidU32Literal".into(),
        BuildFailure::InvalidWordId(_) => "InvalidWordId".into(),
        BuildFailure::InvalidSplit(_) => "InvalidSplit".into(),
        BuildFailure::SplitFormatError { .. } => "SplitFormatError".into(),
        BuildFailure::EmptySurface => "EmptySurface".into(),
        BuildFailure::PosLimitExceeded(_) => "PosLimitExceeded".into(),
        BuildFailure::InvalidSplitWordReference(_) => "InvalidSplitWordReference".into(),
        BuildFailure::UnresolvedSplits => "UnresolvedSplits".into(),
        BuildFailure::InvalidConnSize(_, _) => "InvalidConnSize".into(),
        BuildFailure::WordIdTableNotBuilt => "WordIdTableNotBuilt".into(),
        BuildFailure::TrieBuildFailure => "TrieBuildFailure".into(),
        other => format!("Other({:?})", other).chars().take(40).collect(),
    }
}

fn err_of(e: &SudachiError) -> (String, Option<usize>) {
    match e {
        SudachiError::DictionaryCompilationError(DicBuildError { line, cause, .. }) => (failure_name(cause), Some(*line)),
        SudachiError::Io { .. } => ("Io".into(), None),
        SudachiError::LexiconSetError(_) => ("TooLargeWordId".into(), Some(0)),
        SudachiError::InvalidDataFormat(_, _) => ("InvalidDataFormat".into(), Some(0)),
        other => (format!("Other({:?})", other).chars().take(40).collect(), None),
    }
}

const EPOCH: u64 = 1_600_000_000;

/// the real pipeline; `sink` = Some((k, style)) writes into a sink that fails after k bytes
/// second component: the results of the ignored `read_conn` / `read_lexicon` calls that were made, in order
fn run_pipeline(c: &Case, system: Option<&JapaneseDictionary>, sink: Option<(usize, usize)>) -> (Out, Vec<String>) {
    let stage: Cell<&'static str> = Cell::new("conn");
    let at: Cell<usize> = Cell::new(0);
    let ign: std::cell::RefCell<Vec<String>> = std::cell::RefCell::new(vec![]);
    let ops = c.ops();
    let r = catch(|| -> Result<(Vec<u8>, usize, usize, Option<String>), (String, Option<usize>)> {
        macro_rules! body {
            ($b:ident) => {{
                $b.set_compile_time(std::time::UNIX_EPOCH + std::time::Duration::from_secs(EPOCH));
                $b.set_description(c.desc.clone());
                let mut res = 0;
                for (i, op) in ops.iter().enumerate() {
                    at.set(i);
                    match op {
                        Op::Conn(m) => {
                            stage.set("conn");
                            $b.read_conn(&m[..]).map_err(|e| err_of(&e))?;
                        }
                        Op::ConnIgn(m) => {
                            stage.set("conn");
                            let r = $b.read_conn(&m[..]);
                            ign.borrow_mut().push(match r {
                                Ok(()) => "ok".to_string(),
                                Err(e) => match err_of(&e) { (k, Some(l)) if k != "Io" => format!("err:{}:{}", k, l), (k, _) => format!("err:{}", k) },
                            });
                        }
                        Op::Lex(d) => {
                            stage.set("lex");
                            $b.read_lexicon(&d[..]).map_err(|e| err_of(&e))?;
                        }
                        Op::LexIgn(d) => {
                            stage.set("lex");
                            let r = $b.read_lexicon(&d[..]);
                            ign.borrow_mut().push(match r {
                                Ok(_) => "ok".to_string(),
                                Err(e) => match err_of(&e) { (k, Some(l)) if k != "Io" => format!("err:{}:{}", k, l), (k, _) => format!("err:{}", k) },
                            });
                        }
                        Op::Resolve => {
                            stage.set("resolve");
                            res += $b.resolve().map_err(|e| err_of(&e))?;
                        }
                    }
                }
                at.set(ops.len());
                stage.set("compile");
                match sink {
                    None => {
                        let mut out = vec![];
                        $b.compile(&mut out).map_err(|e| err_of(&e))?;
                        let n = out.len();
                        let mut again = None;
                        if c.twice {
                            let mut out2 = vec![];
                            match $b.compile(&mut out2) {
                                Err(e) => { again = Some(format!("the second compile failed: {:?}", err_of(&e))); }
                                Ok(()) => if out2 != out { again = Some(format!("the second compile wrote {} bytes that differ from the {} of the first", out2.len(), n)); }
                            }
                        }
                        Ok((out, n, res, again))
                    }
                    Some((k, style)) => {
                        let mut w = FailingWriter { left: k, style, failed: false };
                        $b.compile(&mut w).map_err(|e| err_of(&e))?;
                        Ok((vec![], k.saturating_sub(w.left), res, None))
                    }
                }
            }};
        }
        match system {
            Some(sys) => {
                let mut b = DictBuilder::new_user(sys);
                body!(b)
            }
            None => {
                let mut b = DictBuilder::new_system();
                body!(b)
            }
        }
    });
    let out = match r {
        Err(msg) => Out::Panic { stage: stage.get(), at: at.get(), msg },
        Ok(Err((kind, line))) => Out::Err { stage: stage.get(), at: at.get(), kind, line },
        Ok(Ok((bytes, len, res, again))) => Out::Ok { bytes, len, res, again },
    };
    (out, ign.into_inner())
}

/// what a NEW system-dictionary builder answers to `read_conn(text)` (for the retry oracle)
fn fresh_read_conn(text: &[u8]) -> String {
    match catch(|| DictBuilder::new_system().read_conn(text).map_err(|e| err_of(&e))) {
        Err(_) => "PANIC".to_string(),
        Ok(Ok(())) => "ok".to_string(),
        Ok(Err((k, Some(l)))) if k != "Io" => format!("err:{}:{}", k, l),
        Ok(Err((k, _))) => format!("err:{}", k),
    }
}

/// the matrix a text describes, read naively: sizes from the first non-blank line, every further
/// line `left right cost` sets one cell, all other cells are 0 (None = the text is not of that form)
fn naive_matrix(text: &[u8]) -> Option<(i64, i64, Vec<i16>)> {
    let s = std::str::from_utf8(text).ok()?;
    let mut lines = s.lines().filter(|l| !l.trim().is_empty());
    let hd: Vec<i64> = lines.next()?.split_whitespace().map(|x| x.parse::<i64>()).collect::<Result<_, _>>().ok()?;
    if hd.len() != 2 || hd[0] < 0 || hd[1] < 0 || hd[0] > 2000 || hd[1] > 2000 { return None; }
    let (nl, nr) = (hd[0], hd[1]);
    let mut cells = vec![0i16; (nl * nr) as usize];
    for l in lines {
        let it: Vec<i64> = l.split_whitespace().map(|x| x.parse::<i64>()).collect::<Result<_, _>>().ok()?;
        if it.len() != 3 || it[0] < 0 || it[1] < 0 || it[0] >= nl || it[1] >= nr || it[2] < -32768 || it[2] > 32767 { return None; }
        cells[(it[1] * nl + it[0]) as usize] = it[2] as i16;
    }
    Some((nl, nr, cells))
}

// ---------------------------------------------------------------------------------------------
// independent reader of the binary format (naive; for the validity scan and the answer line)

#[derive(Debug, Default, Clone)]
pub struct BinInfo {
    pub headword: String,
    pub head_units: usize,
    pub head_len: usize,
    pub pos: u16,
    pub norm: String,
    pub norm_units: usize,
    pub dic_form: u32,
    pub reading: String,
    pub reading_units: usize,
    pub a: Vec<u32>,
    pub b: Vec<u32>,
    pub ws: Vec<u32>,
    pub syn: Vec<u32>,
}

#[derive(Debug, Default, Clone)]
pub struct BinDict {
    pub pos: Vec<Vec<String>>,
    pub nl: i16,
    pub nr: i16,
    /// the connection costs as stored (cell index = right * nl + left)
    pub cells: Vec<i16>,
    pub trie_len: usize,
    pub table: Vec<u8>,
    pub params: Vec<(i16, i16, i16)>,
    pub infos: Vec<BinInfo>,
    pub total: usize,
}

struct Cur<'a> {
    b: &'a [u8],
    p: usize,
}

impl<'a> Cur<'a> {
    fn take(&mut self, n: usize) -> Result<&'a [u8], String> {
        if self.p + n > self.b.len() {
            return Err(format!("truncated at {} (+{}) of {}", self.p, n, self.b.len()));
        }
        let s = &self.b[self.p..self.p + n];
        self.p += n;
        Ok(s)
    }
    fn u8(&mut self) -> Result<u8, String> { Ok(self.take(1)?[0]) }
    fn u16(&mut self) -> Result<u16, String> { let s = self.take(2)?; Ok(u16::from_le_bytes([s[0], s[1]])) }
    fn i16(&mut self) -> Result<i16, String> { Ok(self.u16()? as i16) }
    fn u32(&mut self) -> Result<u32, String> { let s = self.take(4)?; Ok(u32::from_le_bytes([s[0], s[1], s[2], s[3]])) }
    fn len(&mut self) -> Result<usize, String> {
        let a = self.u8()? as usize;
        if a < 128 { Ok(a) } else { let b = self.u8()? as usize; Ok(((a & 0x7f) << 8) | b) }
    }
    fn str16(&mut self) -> Result<(String, usize), String> {
        let n = self.len()?;
        let s = self.take(2 * n)?;
        let units: Vec<u16> = s.chunks(2).map(|c| u16::from_le_bytes([c[0], c[1]])).collect();
        Ok((String::from_utf16(&units).map_err(|_| "string is not UTF-16".to_string())?, n))
    }
    fn arr(&mut self) -> Result<Vec<u32>, String> {
        let n = self.u8()? as usize;
        (0..n).map(|_| self.u32()).collect()
    }
}

pub fn read_bin(bytes: &[u8]) -> Result<BinDict, String> {
    let mut c = Cur { b: bytes, p: 0 };
    let mut d = BinDict::default();
    c.take(8 + 8 + 256)?;
    let npos = c.u16()? as usize;
    for _ in 0..npos {
        let mut row = vec![];
        for _ in 0..6 {
            row.push(c.str16()?.0);
        }
        d.pos.push(row);
    }
    d.nl = c.i16()?;
    d.nr = c.i16()?;
    if d.nl < 0 || d.nr < 0 {
        return Err("negative matrix size".into());
    }
    d.cells = c.take(2 * d.nl as usize * d.nr as usize)?.chunks(2).map(|x| i16::from_le_bytes([x[0], x[1]])).collect();
    let tsize = c.u32()? as usize;
    d.trie_len = tsize * 4;
    c.take(d.trie_len)?;
    let wsize = c.u32()? as usize;
    d.table = c.take(wsize)?.to_vec();
    let n = c.u32()? as usize;
    for _ in 0..n {
        d.params.push((c.i16()?, c.i16()?, c.i16()?));
    }
    let mut offsets = vec![];
    for _ in 0..n {
        offsets.push(c.u32()? as usize);
    }
    let mut expect = c.p;
    for (i, off) in offsets.iter().enumerate() {
        if *off != expect {
            return Err(format!("word {} offset {} but previous record ends at {}", i, off, expect));
        }
        let mut w = Cur { b: bytes, p: *off };
        let mut x = BinInfo::default();
        let (s, u) = w.str16()?;
        x.headword = s;
        x.head_units = u;
        x.head_len = w.len()?;
        x.pos = w.u16()?;
        let (s, u) = w.str16()?;
        x.norm = s;
        x.norm_units = u;
        x.dic_form = w.u32()?;
        let (s, u) = w.str16()?;
        x.reading = s;
        x.reading_units = u;
        x.a = w.arr()?;
        x.b = w.arr()?;
        x.ws = w.arr()?;
        x.syn = w.arr()?;
        expect = w.p;
        d.infos.push(x);
    }
    if expect != bytes.len() {
        return Err(format!("{} trailing bytes", bytes.len() - expect));
    }
    d.total = bytes.len();
    Ok(d)
}

// ---------------------------------------------------------------------------------------------
// naive helpers over the input (classification of failures; independent of the implementation)

fn naive_unescape(s: &str) -> Option<String> {
    // \u{h..h} (1-6 digits) or \uhhhh; anything else is literal
    let cs: Vec<char> = s.chars().collect();
    let mut out = String::new();
    let mut i = 0;
    while i < cs.len() {
        if cs[i] == '\\' && i + 1 < cs.len() && cs[i + 1] == 'u' {
            if i + 2 < cs.len() && cs[i + 2] == '{' {
                let mut j = i + 3;
                while j < cs.len() && cs[j].is_ascii_hexdigit() { j += 1; }
                let nd = j - (i + 3);
                if nd >= 1 && nd <= 6 && j < cs.len() && cs[j] == '}' {
                    let v = u32::from_str_radix(&cs[i + 3..j].iter().collect::<String>(), 16).ok()?;
                    out.push(char::from_u32(v)?);
                    i = j + 1;
                    continue;
                }
            } else if i + 5 < cs.len() && cs[i + 2..i + 6].iter().all(|c| c.is_ascii_hexdigit()) {
                let v = u32::from_str_radix(&cs[i + 2..i + 6].iter().collect::<String>(), 16).ok()?;
                out.push(char::from_u32(v)?);
                i += 6;
                continue;
            }
        }
        out.push(cs[i]);
        i += 1;
    }
    Some(out)
}

fn blank_text(m: &[u8]) -> bool {
    match std::str::from_utf8(m) {
        Ok(s) => s.chars().all(|c| c.is_whitespace()),
        Err(_) => false,
    }
}

/// does some line address a cell outside the declared matrix (or a negative coordinate)?
fn conn_has_bad_coord(m: &[u8]) -> bool {
    let s = String::from_utf8_lossy(m);
    let mut lines = s.lines().filter(|l| !l.trim().is_empty());
    let hd: Vec<i64> = match lines.next() {
        Some(h) => h.split_whitespace().filter_map(|x| x.parse().ok()).collect(),
        None => return false,
    };
    if hd.len() < 2 { return false; }
    let (nl, nr) = (hd[0], hd[1]);
    for l in lines {
        let it: Vec<i64> = l.split_whitespace().filter_map(|x| x.parse().ok()).collect();
        if it.len() >= 2 {
            let (a, b) = (it[0], it[1]);
            if a < 0 || b < 0 || a >= nl || b >= nr { return true; }
        }
    }
    false
}

struct Recs {
    recs: Vec<Vec<String>>,
    lines: Vec<u64>,
    csverr: Option<u64>,
}

/// the records as `LexiconReader::read_bytes` sees them (same reader options)
fn split_csv(data: &[u8]) -> Recs {
    let mut rdr = csv::ReaderBuilder::new().has_headers(false).trim(csv::Trim::None).flexible(true).from_reader(data);
    let mut rec = csv::StringRecord::new();
    let mut out = Recs { recs: vec![], lines: vec![], csverr: None };
    loop {
        match rdr.read_record(&mut rec) {
            Ok(true) => {
                out.lines.push(rec.position().map_or(0, |p| p.line()));
                out.recs.push(rec.iter().map(|s| s.to_string()).collect());
            }
            Ok(false) => break,
            Err(e) => {
                out.csverr = Some(e.position().map_or(0, |p| p.line()));
                break;
            }
        }
    }
    out
}

/// does a split field contain a unit that is not a word-id literal (`^U?\\d+$`), i.e. an inline unit?
fn has_inline_unit(field: &str) -> bool {
    if field.is_empty() || field == "*" { return false; }
    field.split('/').any(|u| {
        let d = u.strip_prefix('U').unwrap_or(u);
        d.is_empty() || !d.chars().all(|c| c.is_ascii_digit() || is_nd(c))
    })
}

fn is_nd(c: char) -> bool {
    thread_local! { static ND: regex::Regex = regex::Regex::new(r"^\d$").unwrap(); }
    let mut b = [0u8; 4];
    let s: &str = c.encode_utf8(&mut b);
    ND.with(|r| r.is_match(s))
}

// ---------------------------------------------------------------------------------------------
// fixed system dictionary for the user-dictionary cases

pub const SYS_POS: &[[&str; 6]] = &[
    ["名詞", "普通名詞", "一般", "*", "*", "*"],
    ["助詞", "格助詞", "*", "*", "*", "*"],
    ["動詞", "一般", "*", "*", "五段-カ行", "終止形-一般"],
];

/// (surface, left, right, cost, pos, reading)
pub const SYS_ROWS: &[(&str, i32, i32, i32, usize, &str)] = &[
    ("東京", 0, 0, 100, 0, "トウキョウ"),
    ("都", 1, 1, 100, 0, "ト"),
    ("東京都", 2, 2, 50, 0, "トウキョウト"),
    ("に", 0, 1, 10, 1, "ニ"),
    ("行く", 1, 2, 10, 2, "イク"),
    ("京", 1, 0, 300, 0, "京"),
    ("東", 2, 0, 300, 0, "ヒガシ"),
];
pub const SYS_N: usize = 3;

fn sys_csv() -> String {
    let mut s = String::new();
    for (w, l, r, c, p, rd) in SYS_ROWS {
        let pp = SYS_POS[*p];
        s.push_str(&format!("{},{},{},{},{},{},{},{},*,A,*,*,*,*\n", w, l, r, c, w, pp.join(","), rd, w));
    }
    s
}

fn sys_matrix() -> String {
    let mut s = format!("{} {}\n", SYS_N, SYS_N);
    for r in 0..SYS_N {
        for l in 0..SYS_N {
            s.push_str(&format!("{} {} {}\n", l, r, (l * 7 + r * 3) as i32 - 5));
        }
    }
    s
}

fn hexs(s: &str) -> String {
    format!("h{}", hex(s.as_bytes()))
}

// ---------------------------------------------------------------------------------------------
// generators

const SURF: &[&str] = &["あ", "い", "あい", "東", "京", "東京", "東京都", "都", "a", "ab", "0", "1", "。", "𠮷", "ｱ", "é", "いあ", "京都"];
const READ: &[&str] = &["ア", "イ", "アイ", "ヒガシ", "キョウ", "ト"];
const GPOS: &[[&str; 6]] = &[
    ["名詞", "普通名詞", "一般", "*", "*", "*"],
    ["名詞", "数詞", "*", "*", "*", "*"],
    ["助詞", "格助詞", "*", "*", "*", "*"],
    ["補助記号", "一般", "*", "*", "*", "*"],
    ["動詞", "一般", "*", "*", "五段-カ行", "終止形-一般"],
];

type Row = Vec<String>;

fn valid_row(rng: &mut Rng, nl: usize, nr: usize) -> Row {
    let s = rng.pick(SURF).to_string();
    let p = if rng.chance(2, 3) { GPOS[0] } else { *rng.pick(GPOS) };
    let head = if rng.chance(1, 8) { rng.pick(SURF).to_string() } else { s.clone() };
    let reading = if rng.chance(1, 2) { rng.pick(READ).to_string() } else { head.clone() };
    let norm = if rng.chance(1, 5) { rng.pick(SURF).to_string() } else { head.clone() };
    let (l, r) = if rng.chance(1, 12) { (-1i64, -1i64) } else { (rng.below(nl.max(1)) as i64, rng.below(nr.max(1)) as i64) };
    vec![
        s, l.to_string(), r.to_string(), (rng.below(9000) as i64 - 500).to_string(), head,
        p[0].into(), p[1].into(), p[2].into(), p[3].into(), p[4].into(), p[5].into(),
        reading, norm, "*".into(), rng.pick(&["A", "B", "C", "*", "a"]).to_string(), "*".into(), "*".into(), "*".into(), "*".into(),
    ]
}

fn csv_quote(s: &str) -> String {
    if s.contains(',') || s.contains('"') || s.contains('\n') || s.contains('\r') {
        format!("\"{}\"", s.replace('"', "\"\""))
    } else {
        s.to_string()
    }
}

fn csv_bytes(rows: &[Row]) -> Vec<u8> {
    let mut out = String::new();
    for r in rows {
        out.push_str(&r.iter().map(|f| csv_quote(f)).collect::<Vec<_>>().join(","));
        out.push('\n');
    }
    out.into_bytes()
}

fn matrix_text(nl: usize, nr: usize, rng: &mut Rng) -> String {
    let mut s = format!("{} {}\n", nl, nr);
    for r in 0..nr {
        for l in 0..nl {
            if rng.chance(1, 10) { continue; }
            s.push_str(&format!("{} {} {}\n", l, r, rng.below(600) as i64 - 200));
        }
    }
    s
}

fn boundary_int(rng: &mut Rng, n: usize) -> String {
    let n = n as i64;
    let c: Vec<String> = vec![
        (n - 1).to_string(), n.to_string(), (n + 1).to_string(), "-1".into(), "0".into(), "-2".into(), "32767".into(), "32768".into(),
        "-32768".into(), "-32769".into(), "65535".into(), "+1".into(), "-0".into(), "".into(), " 1".into(), "1 ".into(), "x".into(),
        "1.0".into(), "0x1".into(), "１".into(), "99999999999999999999".into(), "-".into(), "+".into(), "1e2".into(),
    ];
    rng.pick(&c).clone()
}

fn junk_string(rng: &mut Rng) -> String {
    let c: Vec<String> = vec![
        "".into(), "\\u0000".into(), "a\\u0000b".into(), "\u{0}".into(), "\\u{110000}".into(), "\\uD800".into(), "\\u{D800}".into(),
        "\\u{}".into(), "\\u{1234567}".into(), "\\u12".into(), "\\u{41}".into(), "\\u0041".into(), "\\u{1f49e}".into(), "\\u00e9x".into(),
        "\\u{10FFFF}".into(), "\\uzzzz".into(), "\\\\u0041".into(), "a,b".into(), "a\"b".into(), "a\nb".into(), " ".into(), "\u{3000}".into(),
        "x".repeat(32767), "x".repeat(32768), "あ".repeat(10922), "あ".repeat(10923), "𠮷".repeat(8191), "\\u{41}".repeat(5461),
        "x".repeat(126), "x".repeat(127), "x".repeat(128), "\u{feff}a".into(), "*".into(),
        // a well-formed escape (slow path of unescape) next to a `\\u` that is NOT an escape and is followed by multi-byte text
        "\\u0041\\uアイ".into(), "\\u{41}x\\u12ア".into(), "\\u30a2\\uだよ".into(), "\\uアイ".into(), "\\u3ア\\u0041".into(), "\\u{30a2}\\u😀".into(), "あ\\u\\u0041".into(), "\\u0041\\u".into(),
    ];
    rng.pick(&c).clone()
}

fn junk_wid(rng: &mut Rng, n: usize) -> String {
    let n = n as i64;
    let c: Vec<String> = vec![
        "*".into(), (n - 1).max(0).to_string(), n.to_string(), (n + 1).to_string(), "0".into(), "U0".into(), "U1".into(), format!("U{}", n),
        "-1".into(), "+1".into(), "268435455".into(), "268435456".into(), "4294967295".into(), "4294967296".into(), "U268435455".into(),
        "U268435456".into(), "U".into(), "u0".into(), "UU0".into(), "".into(), "１".into(), "U１".into(), "٣".into(), " 0".into(), "0 ".into(), "x".into(), "**".into(),
    ];
    rng.pick(&c).clone()
}

fn inline_split(rng: &mut Rng, rows: &[Row]) -> String {
    // surface,pos1..6,reading of an existing row (resolvable) or a perturbed one
    let r = rng.pick(rows).clone();
    if r.len() < 13 { return "あ,名詞,普通名詞,一般,*,*,*,ア".into(); }
    let mut f = vec![r[0].clone(), r[5].clone(), r[6].clone(), r[7].clone(), r[8].clone(), r[9].clone(), r[10].clone(), r[11].clone()];
    match rng.below(10) {
        0 => { f[7] = "ゼ".into(); }
        1 => { f[0] = "無".into(); }
        2 => { f.truncate(rng.range(1, 7)); }
        3 => { f.push("extra".into()); }
        4 => { f[1] = "新品詞".into(); }
        5 => { f[0] = "\\u{110000}".into(); }
        _ => {}
    }
    f.join(",")
}

fn junk_splits(rng: &mut Rng, rows: &[Row]) -> String {
    let n = rows.len();
    match rng.below(12) {
        0 => "*".into(),
        1 => "".into(),
        2 => join((0..rng.range(1, 3)).map(|_| rng.below(n.max(1))), "/"),
        3 => join((0..rng.range(1, 3)).map(|_| junk_wid(rng, n)), "/"),
        4 => inline_split(rng, rows),
        5 => format!("{}/{}", inline_split(rng, rows), inline_split(rng, rows)),
        6 => format!("{}/{}", rng.below(n.max(1)), inline_split(rng, rows)),
        7 => join((0..127).map(|_| 0), "/"),
        8 => join((0..128).map(|_| 0), "/"),
        9 => "0//1".into(),
        10 => "/".into(),
        _ => format!("{}/", rng.below(n.max(1))),
    }
}

fn junk_mode(rng: &mut Rng) -> String {
    rng.pick(&["A", "a", "B", "b", "C", "c", "*", "BC", " A ", "\u{3000}B", "AB", "", "x", "bc", "Ａ"]).to_string()
}

fn junk_syn(rng: &mut Rng) -> String {
    let c: Vec<String> = vec![
        "*".into(), "".into(), "0".into(), "1/2/3".into(), "4294967295".into(), "4294967296".into(), "-1".into(), "+7".into(), "1//2".into(),
        join((0..127).map(|i| i), "/"), join((0..128).map(|i| i), "/"), "x".into(), "1/".into(),
    ];
    rng.pick(&c).clone()
}

/// one malformation of the lexicon rows (in place); returns its name
fn malform_rows(rng: &mut Rng, rows: &mut Vec<Row>, nl: usize, nr: usize) -> &'static str {
    if rows.is_empty() { return "none"; }
    let n = rows.len();
    let i = rng.below(n);
    if rows[i].len() < 19 { return "skip"; }
    match rng.below(22) {
        0 => { let k = rng.below(19); rows[i].truncate(k); "truncate-row" }
        1 => { rows[i].truncate(18); "no-synonym-field" }
        2 => { rows[i].push("extra".into()); rows[i].push("".into()); "extra-fields" }
        3 => { rows[i][1] = boundary_int(rng, nl); "left-id" }
        4 => { rows[i][2] = boundary_int(rng, nr); "right-id" }
        5 => { rows[i][3] = boundary_int(rng, 0); "cost" }
        6 => { rows[i][1] = rng.below(nl.max(1)).to_string(); rows[i][2] = "-1".into(); "right-minus-one" }
        7 => { rows[i][1] = "-1".into(); rows[i][2] = rng.below(nr.max(1)).to_string(); "left-minus-one" }
        8 => { rows[i][0] = junk_string(rng); "surface" }
        9 => { let f = *rng.pick(&[4usize, 5, 6, 7, 8, 9, 10, 11, 12]); rows[i][f] = junk_string(rng); "string-field" }
        10 => { rows[i][13] = junk_wid(rng, n); "dic-form" }
        11 => { rows[i][14] = junk_mode(rng); "mode" }
        12 => { let s = junk_splits(rng, rows); rows[i][15] = s; if rng.chance(2, 3) { rows[i][14] = "C".into(); } "split-a" }
        13 => { let s = junk_splits(rng, rows); rows[i][16] = s; if rng.chance(2, 3) { rows[i][14] = "C".into(); } "split-b" }
        14 => { rows[i][17] = join((0..rng.range(1, 3)).map(|_| junk_wid(rng, n)), "/"); "word-structure" }
        15 => { rows[i][18] = junk_syn(rng); "synonyms" }
        16 => { for r in rows.iter_mut() { if r.len() < 3 { continue; } r[1] = "-1".into(); if rng.chance(1, 2) { r[2] = "-1".into(); } } "no-indexable-row" }
        17 => { rows.clear(); "no-rows" }
        18 => { rows[i][0] = "".into(); "empty-surface" }
        19 => { rows[i][0] = (*rng.pick(&["\\u0000", "a\\u{0}", "\u{0}", "あ\u{0}い"])).to_string(); "nul-surface" }
        20 => {
            // many homographs of one surface (127 / 128 entries under one key)
            let k = *rng.pick(&[126usize, 127, 128]);
            let base = rows[i].clone();
            while rows.len() < k + (n - 1) { rows.push(base.clone()); }
            "homographs"
        }
        _ => {
            // a new POS on a row + an inline split naming one more
            rows[i][5] = format!("品{}", rng.below(5));
            "new-pos"
        }
    }
}

fn malform_matrix(rng: &mut Rng, nl: usize, nr: usize) -> (String, &'static str) {
    let good = matrix_text(nl, nr, rng);
    let line = |a: String, b: String, c: String| format!("{} {} {}\n", a, b, c);
    match rng.below(26) {
        0 => ("".into(), "empty"),
        1 => ((*rng.pick(&["\n", " \n\t\n", "\r\n", "\u{3000}\n", "   "])).to_string(), "blank-only"),
        2 => (format!("{} {}", nl, nr), "header-only-no-newline"),
        3 => (format!("{}\n", nl), "header-one-number"),
        4 => (format!("{} {} 7\n", nl, nr), "header-three-numbers"),
        5 => (format!("{} {}\n", boundary_int(rng, nl), nr), "header-left"),
        6 => (format!("{} {}\n", nl, boundary_int(rng, nr)), "header-right"),
        7 => (format!("{}{}", good, line(boundary_int(rng, nl), "0".into(), "1".into())), "line-left"),
        8 => (format!("{}{}", good, line("0".into(), boundary_int(rng, nr), "1".into())), "line-right"),
        9 => (format!("{}{}", good, line("0".into(), "0".into(), boundary_int(rng, 0))), "line-cost"),
        10 => (format!("{}0 0\n", good), "line-two-items"),
        11 => (format!("{}0 0 1 2\n", good), "line-four-items"),
        12 => (format!("{}0\n", good), "line-one-item"),
        13 => (format!("\n  \n{}", good), "leading-blank-lines"),
        14 => (good.replace('\n', "\r\n"), "crlf"),
        15 => (good.replace(' ', "\t"), "tabs"),
        16 => (good.replace(' ', "\u{3000} "), "ideographic-space"),
        17 => (format!("{}\n\n", good.replace('\n', "\n\n")), "blank-lines-inside"),
        18 => (good.trim_end().to_string(), "no-final-newline"),
        19 => (format!("{}{} {} 5\n", good, nl, 0), "left-equals-size"),
        20 => (format!("{}{} {} 5\n", good, 0, nr), "right-equals-size"),
        21 => (format!("{}{} {} 5\n", good, nl as i64 - 1, nr as i64 - 1), "last-cell"),
        22 => (format!("{}-1 0 5\n", good), "negative-left"),
        23 => (format!("{}0 -1 5\n", good), "negative-right"),
        24 => (format!("  {} {}  \n", nl, nr) + &good[good.find('\n').map_or(0, |i| i + 1)..], "padded-header"),
        _ => (format!("{}{} {} 5\n", good, nl, nr as i64 - 1), "left-size-last-row"),
    }
}

fn mutate_bytes(rng: &mut Rng, data: &mut Vec<u8>) {
    let n = rng.range(1, 4);
    for _ in 0..n {
        if data.is_empty() { data.push(rng.below(256) as u8); continue; }
        let i = rng.below(data.len());
        match rng.below(6) {
            0 => { data[i] = rng.below(256) as u8; }
            1 => { data.insert(i, *rng.pick(&[b'"', b',', b'\n', b'\r', 0u8, 0xff, 0xc3, b'\\', b'/', b'-', b' '])); }
            2 => { data.remove(i); }
            3 => { data.truncate(i); }
            4 => { data[i] = *rng.pick(&[b'"', b',', b'\n', 0u8, 0x80, 0xe3]); }
            _ => { let j = rng.below(data.len()); data.swap(i, j); }
        }
    }
}

fn add_valid_features(rng: &mut Rng, rows: &mut Vec<Row>, nl: usize, nr: usize, user: bool) {
    let n0 = rows.len();
    if n0 == 0 { return; }
    // dictionary forms (system dictionaries only; D8 is exercised by directed/user cases)
    if !user {
        for i in 0..n0 {
            if rng.chance(1, 6) { rows[i][13] = rng.below(n0).to_string(); }
        }
    }
    let extra = rng.below(3);
    for _ in 0..extra {
        let k = rng.range(2, 3);
        let parts: Vec<usize> = (0..k).map(|_| rng.below(n0)).collect();
        let surface: String = parts.iter().map(|&i| rows[i][0].clone()).collect();
        let mut r = valid_row(rng, nl, nr);
        r[0] = surface.clone();
        r[4] = surface.clone();
        r[11] = surface.clone();
        r[12] = surface;
        r[14] = "C".into();
        let ids = |u: bool| join(parts.iter().map(|i| if u { format!("U{}", i) } else { i.to_string() }), "/");
        let inl = |rows: &Vec<Row>| join(parts.iter().map(|&i| {
            let q = &rows[i];
            format!("{},{},{},{},{},{},{},{}", q[0], q[5], q[6], q[7], q[8], q[9], q[10], q[11])
        }), "/");
        match rng.below(4) {
            0 => { r[15] = ids(user); }
            1 => { r[15] = ids(user); r[16] = ids(user); r[17] = ids(user); }
            2 => { r[15] = inl(rows); }
            _ => { r[15] = inl(rows); r[16] = ids(user); }
        }
        rows.push(r);
    }
    if rng.chance(1, 4) {
        let i = rng.below(rows.len());
        rows[i][18] = join((0..rng.range(1, 3)).map(|_| rng.below(100000)), "/");
    }
}

/// directed cases: witnesses of the known defects and boundary cases
fn directed(i: usize) -> Option<Case> {
    let row = |s: &str, l: i64, r: i64| -> Row {
        vec![s.into(), l.to_string(), r.to_string(), "100".into(), s.into(), "名詞".into(), "普通名詞".into(), "一般".into(), "*".into(), "*".into(), "*".into(),
             s.into(), s.into(), "*".into(), "A".into(), "*".into(), "*".into(), "*".into(), "*".into()]
    };
    let m22 = "2 2\n0 0 1\n0 1 2\n1 0 3\n1 1 4\n";
    let base = |tag: &str, conn: &str, rows: Vec<Row>| Case {
        conn: Some(conn.as_bytes().to_vec()), csv: csv_bytes(&rows), resolve: true, ops: None, desc: "verif".into(), user: false, ks: None, twice: false, tag: tag.into(),
    };
    let two = vec![row("あ", 0, 0), row("い", 1, 1)];
    Some(match i {
        0 => base("valid-2x2", m22, two.clone()),
        1 => base("d1-empty-matrix", "", two.clone()),
        2 => base("d1-blank-matrix", "\n \n", two.clone()),
        3 => base("d2-coord-beyond", "2 2\n5 5 1\n", two.clone()),
        4 => base("d2-coord-negative", "2 2\n-1 0 1\n", two.clone()),
        5 => base("d2-alias-left-eq-size", "2 2\n2 0 9\n", two.clone()),
        6 => base("d3-right-minus-one", m22, vec![row("あ", 0, -1), row("い", 1, 1)]),
        7 => base("d4-no-indexable", m22, vec![row("あ", -1, -1)]),
        8 => base("d4-empty-lexicon", m22, vec![]),
        9 => base("d5-nul-escape", m22, vec![row("あ\\u0000", 0, 0), row("い", 1, 1)]),
        10 => base("d5-nul-raw", m22, vec![row("\u{0}", 0, 0)]),
        11 => {
            let mut rows = vec![row("東京都", 0, 0), row("京", 1, 1), row("東", 0, 1)];
            rows[2][14] = "C".into();
            rows[2][15] = "0/1".into();
            base("d6-split-longer", m22, rows)
        }
        12 => base("d17-nonsquare-left", "3 1\n0 0 1\n1 0 2\n2 0 3\n", vec![row("あ", 2, 0), row("い", 0, 0)]),
        13 => base("d17-nonsquare-right", "1 3\n0 0 1\n0 1 2\n0 2 3\n", vec![row("あ", 0, 2), row("い", 0, 0)]),
        14 => { let mut c = base("d8-user-dicform-U0", m22, { let mut r = vec![row("大阪", 0, 0), row("大阪府", 1, 1)]; r[1][13] = "U0".into(); r }); c.user = true; c.conn = None; c }
        15 => { let mut c = base("d8-user-dicform-sys", m22, { let mut r = vec![row("大阪", 0, 0)]; r[0][13] = "5".into(); r }); c.user = true; c.conn = None; c }
        16 => { let mut c = base("user-valid", m22, vec![row("大阪", 0, 0), row("大阪府", 1, 2)]); c.user = true; c.conn = None; c }
        17 => { let mut c = base("user-u-splits", m22, { let mut r = vec![row("大阪", 0, 0), row("府", 1, 1), row("大阪府", 1, 2)]; r[2][14] = "C".into(); r[2][15] = "U0/U1".into(); r[2][16] = "0/1".into(); r }); c.user = true; c.conn = None; c }
        18 => { let mut c = base("user-inline-sys", m22, { let mut r = vec![row("東京都庁", 0, 0)]; r[0][14] = "C".into(); r[0][15] = "東京都,名詞,普通名詞,一般,*,*,*,トウキョウト/都,名詞,普通名詞,一般,*,*,*,ト".into(); r }); c.user = true; c.conn = None; c }
        19 => { let mut c = base("sink-all-small", m22, two.clone()); c.ks = Some(vec![]); c }
        20 => { let mut c = base("no-resolve-inline", m22, { let mut r = two.clone(); r.push(row("あい", 0, 0)); r[2][14] = "C".into(); r[2][15] = "あ,名詞,普通名詞,一般,*,*,*,あ/い,名詞,普通名詞,一般,*,*,*,い".into(); r }); c.resolve = false; c }
        21 => { let mut c = base("desc-256", m22, two.clone()); c.desc = "d".repeat(256); c.ks = Some(vec![]); c }
        22 => { let mut c = base("desc-257", m22, two.clone()); c.desc = "d".repeat(257); c }
        23 => { let mut c = base("no-conn-system", m22, two.clone()); c.conn = None; c }
        24 => base("zero-by-zero", "0 0\n", vec![row("あ", -1, -1)]),
        25 => base("zero-right-dim", "2 0\n", vec![row("あ", 0, -1)]),
        26 => base("fullwidth-digit-split", m22, { let mut r = two.clone(); r[1][14] = "C".into(); r[1][15] = "０".into(); r }),
        27 => base("inline-unresolvable", m22, { let mut r = two.clone(); r[1][14] = "C".into(); r[1][15] = "無,名詞,普通名詞,一般,*,*,*,ム".into(); r }),
        28 => base("a-mode-with-splits", m22, { let mut r = two.clone(); r[1][15] = "0".into(); r }),
        29 => base("dangling-dicform", m22, { let mut r = two.clone(); r[0][13] = "2".into(); r }),
        30 => base("u-ref-in-system", m22, { let mut r = two.clone(); r[0][17] = "U0".into(); r }),
        31 => base("invalid-utf8-matrix", "2 2\n0 0 \u{1}\n", two.clone()),
        32 => { let mut c = base("invalid-utf8-matrix-bytes", m22, two.clone()); c.conn = Some(vec![b'2', b' ', b'2', b'\n', 0xff, b'\n']); c }
        33 => { let mut c = base("invalid-utf8-csv", m22, two.clone()); c.csv.extend_from_slice(&[0xff, 0xfe, b',', b'1', b'\n']); c }
        34 => base("homographs-128", m22, (0..128).map(|_| row("あ", 0, 0)).collect()),
        35 => base("homographs-127", m22, (0..127).map(|_| row("あ", 0, 0)).collect()),
        36 => base("d3-all-right-negative", m22, vec![row("あ", 0, -1)]),
        37 => base("right-negative-not-indexed", m22, vec![row("あ", -1, -7), row("い", 0, 0)]),
        38 => base("left-eq-size", m22, vec![row("あ", 2, 0)]),
        39 => base("right-eq-size", m22, vec![row("あ", 0, 2)]),
        // ---- several calls on one builder (lexicon parts, resolve in between, read_conn late / twice)
        40..=57 => {
            let m11 = "1 1\n0 0 0\n";
            let inl = |s: &str| format!("{},名詞,普通名詞,一般,*,*,*,{}", s, s);
            let comp = |s: &str, units: &[&str]| -> Row { let mut r = row(s, 0, 0); r[14] = "C".into(); r[15] = units.iter().map(|u| inl(u)).collect::<Vec<_>>().join("/"); r };
            let lex = |rows: Vec<Row>| Op::Lex(csv_bytes(&rows));
            let conn = |m: &str| Op::Conn(m.as_bytes().to_vec());
            let mk = |tag: &str, ops: Vec<Op>| { let mut c = base(tag, m11, vec![]); c.ops = Some(ops); c };
            let first = vec![row("あ", 0, 0), comp("ああ", &["あ", "あ"])];
            match i {
                // the witness: resolve() sets `resolved`, the second read_lexicon brings new inline splits
                40 => mk("stale-resolved-witness", vec![conn(m11), lex(first.clone()), Op::Resolve, lex(vec![comp("あああ", &["あ", "あ", "あ"])])]),
                41 => mk("stale-resolved-resolve-first", vec![conn(m11), Op::Resolve, lex(first.clone())]),
                42 => mk("stale-resolved-plain-then-inline", vec![conn(m11), lex(vec![row("あ", 0, 0)]), Op::Resolve, lex(vec![comp("ああ", &["あ", "あ"])])]),
                43 => mk("multi-resolved-then-plain", vec![conn(m11), lex(first.clone()), Op::Resolve, lex(vec![row("い", 0, 0)])]),
                44 => { let mut c = mk("multi-resolve-after-each", vec![conn(m11), lex(first.clone()), Op::Resolve, lex(vec![comp("あああ", &["あ", "あ", "あ"])]), Op::Resolve]); c.ks = Some(vec![]); c }
                45 => mk("multi-forward-inline", vec![conn(m11), lex(vec![row("あ", 0, 0), comp("あい", &["あ", "い"])]), lex(vec![row("い", 0, 0)]), Op::Resolve]),
                46 => mk("multi-forward-inline-early-resolve", vec![conn(m11), lex(vec![row("あ", 0, 0), comp("あい", &["あ", "い"])]), Op::Resolve, lex(vec![row("い", 0, 0)]), Op::Resolve]),
                47 => mk("conn-after-lexicon", vec![lex(vec![row("あ", 1, 1)]), conn(m11), Op::Resolve]),
                48 => mk("conn-twice-shrinks", vec![conn(m22), lex(vec![row("あ", 1, 1)]), conn(m11), Op::Resolve]),
                49 => mk("conn-twice-grows", vec![conn(m11), lex(vec![row("あ", 1, 1)]), conn(m22), Op::Resolve]),
                50 => mk("resolve-twice", vec![conn(m11), lex(first.clone()), Op::Resolve, Op::Resolve]),
                51 => mk("no-lexicon", vec![conn(m11)]),
                52 => {
                    let sys_inl = "東京都,名詞,普通名詞,一般,*,*,*,トウキョウト/都,名詞,普通名詞,一般,*,*,*,ト";
                    let mut a = row("東京都庁", 0, 0); a[14] = "C".into(); a[15] = sys_inl.into();
                    let mut b = row("東京都都", 0, 0); b[14] = "C".into(); b[15] = sys_inl.into();
                    let mut c = mk("user-stale-resolved", vec![lex(vec![a]), Op::Resolve, lex(vec![b])]); c.user = true; c
                }
                53 => {
                    let mut b = row("大阪府", 1, 2); b[14] = "C".into(); b[15] = format!("{}/U1", inl("大阪"));
                    let mut c = mk("user-multi-part", vec![lex(vec![row("大阪", 0, 0), row("府", 1, 1)]), Op::Resolve, lex(vec![b]), Op::Resolve]); c.user = true; c
                }
                54 => mk("empty-part-then-resolve", vec![conn(m11), Op::Lex(vec![]), Op::Resolve, lex(first.clone())]),
                // read_conn on a user-dictionary builder replaces the sizes of the system matrix the ids are validated against
                56 => { let mut c = mk("user-read-conn", vec![conn("9 9\n"), lex(vec![row("大阪", 5, 5)]), Op::Resolve]); c.user = true; c }
                57 => { let mut c = mk("user-read-conn-in-range", vec![conn("9 9\n"), lex(vec![row("大阪", 1, 2)]), Op::Resolve]); c.user = true; c }
                _ => { let mut c = base("compile-twice", m22, two.clone()); c.twice = true; c }
            }
        }
        // ---- the matrix buffer between calls: stale cells (S4), stale line (S5), stale sizes (S6); no matrix (N1)
        58..=69 => {
            let lex = |rows: Vec<Row>| Op::Lex(csv_bytes(&rows));
            let conn = |m: &str| Op::Conn(m.as_bytes().to_vec());
            let ign = |m: &str| Op::ConnIgn(m.as_bytes().to_vec());
            let mk = |tag: &str, ops: Vec<Op>| { let mut c = base(tag, m22, vec![]); c.ops = Some(ops); c };
            let m22a = "2 2\n0 0 7\n1 1 9\n";
            match i {
                // the second text lists no cell: the costs 7 and 9 of the first are still in the matrix
                58 => mk("s4-stale-cells", vec![conn(m22a), conn("2 2\n"), lex(two.clone()), Op::Resolve]),
                59 => mk("s4-stale-cells-shrink-grow", vec![conn(m22a), conn("1 1\n"), conn("2 2\n1 0 5\n"), lex(two.clone()), Op::Resolve]),
                // a call that failed on a line leaves it in the line buffer: the correct text is rejected
                60 => mk("s5-retry-fails", vec![ign("2 2\n0 0 x\n"), conn("2 2\n0 0 1\n"), lex(two.clone()), Op::Resolve]),
                // ... and an invalid text is accepted (5 x 7)
                61 => mk("s5-invalid-accepted", vec![ign("5 \n"), conn("7\n0 0 1\n"), lex(vec![row("あ", 4, 6)]), Op::Resolve]),
                // an I/O error (invalid UTF-8) leaves nothing behind
                62 => mk("s5-io-error-then-valid", vec![Op::ConnIgn(vec![b'2', b' ', b'2', b'\n', 0xff, b'\n']), conn(m22), lex(two.clone()), Op::Resolve]),
                // a failure after the header: the matrix is already 1x1, the ids are still checked against 3x3
                63 => mk("s6-failed-read-conn", vec![conn("3 3\n"), ign("1 1\n0 0 x\n"), lex(vec![row("あ", 2, 2)]), Op::Resolve]),
                // a failure before the header is complete leaves the 3x3 matrix alone
                64 => mk("s6-failed-header", vec![conn("3 3\n2 2 8\n"), ign("x\n"), lex(vec![row("あ", 2, 2)]), Op::Resolve]),
                65 => { let mut c = mk("user-failed-read-conn", vec![ign("9 9\n0 0 x\n"), lex(vec![row("大阪", 5, 5)]), Op::Resolve]); c.user = true; c }
                // no matrix at all: rows that are not indexed are fine, an indexed one is outside the 0x0 matrix
                66 => mk("n1-no-conn-unindexed", vec![lex(vec![row("あ", -1, -1)]), Op::Resolve]),
                67 => mk("n1-no-conn-mixed", vec![lex(vec![row("あ", -1, -1), row("い", 0, 0)]), Op::Resolve]),
                // only a read_conn that failed before the header
                68 => mk("n1-only-failed-conn", vec![ign("x\n"), lex(vec![row("あ", 0, 0)]), Op::Resolve]),
                // the ignored call succeeds: same as read_conn(..)?
                _ => mk("ign-succeeds", vec![ign(m22), lex(two.clone()), Op::Resolve]),
            }
        }
        // ---- a read_lexicon that FAILS, its Err ignored: the rows before the malformed one stay in the builder
        70..=90 => {
            let m11 = "1 1\n0 0 0\n";
            let inl = |s: &str| format!("{},名詞,普通名詞,一般,*,*,*,{}", s, s);
            let comp = |s: &str, units: &[&str]| -> Row { let mut r = row(s, 0, 0); r[14] = "C".into(); r[15] = units.iter().map(|u| inl(u)).collect::<Vec<_>>().join("/"); r };
            let lex = |rows: Vec<Row>| Op::Lex(csv_bytes(&rows));
            let lign = |rows: Vec<Row>| Op::LexIgn(csv_bytes(&rows));
            let conn = |m: &str| Op::Conn(m.as_bytes().to_vec());
            let mk = |tag: &str, ops: Vec<Op>| { let mut c = base(tag, m11, vec![]); c.ops = Some(ops); c };
            let first = vec![row("あ", 0, 0), comp("ああ", &["あ", "あ"])];
            let short: Row = vec!["い".into(), "0".into()];
            match i {
                // the shape of seed C06b: resolve() has set the flag, the failing read keeps a row with inline splits
                70 => mk("lexign-inline-kept-after-resolve", vec![conn(m11), lex(first.clone()), Op::Resolve, lign(vec![comp("あああ", &["あ", "あ", "あ"]), short.clone()])]),
                71 => mk("lexign-inline-kept-then-resolve", vec![conn(m11), lex(first.clone()), Op::Resolve, lign(vec![comp("あああ", &["あ", "あ", "あ"]), short.clone()]), Op::Resolve]),
                // resolve() before any lexicon sets the flag as well
                72 => mk("lexign-resolve-first", vec![conn(m11), Op::Resolve, lign(vec![row("あ", 0, 0), comp("ああ", &["あ", "あ"]), short.clone()])]),
                // S7: the row rejected for its empty surface has bumped `unresolved`
                73 => { let mut bad = comp("", &["あ", "あ"]); bad[4] = "あ".into(); mk("lexign-s7-empty-surface-inline", vec![conn(m11), lex(vec![row("あ", 0, 0)]), lign(vec![bad])]) }
                // the malformed row registers its POS: A-mode with splits is detected after pos_of
                74 => { let mut bad = row("い", 0, 0); bad[5] = "新品詞".into(); bad[15] = "0".into(); mk("lexign-pos-of-bad-row", vec![conn(m11), lex(vec![row("あ", 0, 0)]), lign(vec![bad]), Op::Resolve]) }
                // the inline units before the malformed one register their POS
                75 => { let mut bad = row("い", 0, 0); bad[14] = "C".into(); bad[15] = "新,新品詞,*,*,*,*,*,新/\\u{110000},名詞,普通名詞,一般,*,*,*,x".into(); mk("lexign-pos-of-inline-unit", vec![conn(m11), lex(vec![row("あ", 0, 0)]), lign(vec![bad]), Op::Resolve]) }
                // ... also when the list is rejected for its length (128 units, all parsed)
                76 => { let mut bad = row("い", 0, 0); bad[14] = "C".into(); bad[16] = (0..128).map(|_| "新,新品詞,*,*,*,*,*,新").collect::<Vec<_>>().join("/"); mk("lexign-pos-of-128-units", vec![conn(m11), lex(vec![row("あ", 0, 0)]), lign(vec![bad]), Op::Resolve]) }
                // S8: reading the corrected text again duplicates the rows the failed call kept
                77 => mk("lexign-retry-duplicates", vec![conn(m11), lign(vec![row("あ", 0, 0), row("い", 0, 0), short.clone()]), lex(vec![row("あ", 0, 0), row("い", 0, 0), row("う", 0, 0)]), Op::Resolve]),
                // a kept row refers (by id) to a row after the malformed one, which was never read: validated like any other
                78 => { let mut a = row("あ", 0, 0); a[13] = "2".into(); mk("lexign-kept-dangling-ref", vec![conn(m11), lign(vec![a, short.clone(), row("う", 0, 0)]), Op::Resolve]) }
                // ... by an inline unit: resolve() fails on the kept row
                79 => mk("lexign-kept-dangling-inline", vec![conn(m11), lign(vec![comp("あう", &["あ", "う"]), row("あ", 0, 0), short.clone(), row("う", 0, 0)]), Op::Resolve]),
                // the csv reader fails (invalid UTF-8) after two records
                80 => { let mut d = csv_bytes(&[row("あ", 0, 0), comp("ああ", &["あ", "あ"])]); d.extend_from_slice(&[0xff, 0xfe, b',', b'1', b'\n']); mk("lexign-csv-error", vec![conn(m11), Op::LexIgn(d), Op::Resolve]) }
                // the first record is malformed: nothing is kept, the flag is cleared, the counter is not
                81 => mk("lexign-first-row-bad", vec![conn(m11), lex(first.clone()), Op::Resolve, lign(vec![short.clone(), row("い", 0, 0)])]),
                // the ignored call succeeds: same as read_lexicon(..)?
                82 => mk("lexign-succeeds", vec![conn(m11), lign(first.clone()), Op::Resolve]),
                83 => {
                    let sys_inl = "東京都,名詞,普通名詞,一般,*,*,*,トウキョウト/都,名詞,普通名詞,一般,*,*,*,ト";
                    let mut a = row("東京都庁", 0, 0); a[14] = "C".into(); a[15] = sys_inl.into();
                    let mut c = mk("lexign-user", vec![lex(vec![row("大阪", 0, 0)]), Op::Resolve, lign(vec![a, short.clone()])]); c.user = true; c
                }
                // two failing parts, a matrix read whose Err is ignored in between
                84 => mk("lexign-twice-and-connign", vec![conn(m11), lign(vec![row("あ", 0, 0), short.clone()]), Op::ConnIgn(b"1 1\n0 0 x\n".to_vec()), lign(vec![comp("ああ", &["あ", "あ"]), short.clone()]), Op::Resolve]),
                // a NUL surface is rejected (D5): the rows before it stay
                85 => mk("lexign-nul-surface", vec![conn(m11), lign(vec![row("あ", 0, 0), row("い\\u0000", 0, 0), row("う", 0, 0)]), Op::Resolve]),
                // only failed reads: no entry at all
                86 => mk("lexign-nothing-kept", vec![conn(m11), lign(vec![short.clone()])]),
                // an A-mode row with INLINE splits is rejected before `unresolved` is raised: compile needs no resolve()
                88 => { let mut bad = row("い", 0, 0); bad[15] = inl("あ"); mk("lexign-amode-inline-not-counted", vec![conn(m11), lex(vec![row("あ", 0, 0)]), lign(vec![bad])]) }
                // the inline unit that fails (bad escape in its reading, the last part) has NOT registered its new POS
                89 => { let mut bad = row("い", 0, 0); bad[14] = "C".into(); bad[15] = "新,新品詞,*,*,*,*,*,\\uD800".into(); mk("lexign-failing-unit-registers-nothing", vec![conn(m11), lex(vec![row("あ", 0, 0)]), lign(vec![bad]), Op::Resolve]) }
                // a full-width digit in the split list of the malformed row: `^U?\\d+$` matches, parse_wordid rejects (InvalidWordId, not SplitFormatError)
                90 => { let mut bad = row("い", 0, 0); bad[14] = "C".into(); bad[15] = "１/0".into(); mk("lexign-fullwidth-digit-in-bad-row", vec![conn(m11), lign(vec![row("あ", 0, 0), bad]), Op::Resolve]) }
                // every sink offset after a failed read
                _ => { let mut c = mk("lexign-sink-all", vec![conn(m11), lign(vec![row("あ", 0, 0), comp("ああ", &["あ", "あ"]), short.clone()]), Op::Resolve]); c.ks = Some(vec![]); c }
            }
        }
        _ => return None,
    })
}
const DIRECTED: usize = 91;

fn inline_of(q: &Row) -> String {
    format!("{},{},{},{},{},{},{},{}", q[0], q[5], q[6], q[7], q[8], q[9], q[10], q[11])
}

/// a lexicon read in 1-3 parts (`read_lexicon` calls) with `resolve()` after none / some / all of
/// them; compound rows refer to rows of earlier, the same and later parts by inline splits and by
/// word ids; `read_conn` first, late or twice
fn gen_multipart(rng: &mut Rng) -> Case {
    let user = rng.chance(1, 4);
    let square = rng.chance(11, 12);
    let nl = rng.range(1, 5);
    let nr = if square { nl } else { rng.range(1, 5) };
    let (unl, unr) = if user { (SYS_N, SYS_N) } else { (nl, nr) };
    let nparts = rng.range(1, 3);
    let nbase = rng.range(1, 6);
    let mut base: Vec<Row> = (0..nbase).map(|_| valid_row(rng, unl, unr)).collect();
    if base.iter().all(|r| r[1].starts_with('-')) { base[0][1] = "0".into(); base[0][2] = "0".into(); }
    // the part of every base row (non-decreasing), the compounds and the part they are appended to
    let mut part_of: Vec<usize> = (0..nbase).map(|_| rng.below(nparts)).collect();
    part_of.sort();
    let ncomp = rng.below(4);
    let comps: Vec<(usize, Vec<usize>, usize)> = (0..ncomp).map(|_| {
        let k = rng.range(2, 3);
        (rng.below(nparts), (0..k).map(|_| rng.below(nbase)).collect(), rng.below(6))
    }).collect();
    // global index of every base row in the concatenation of the parts
    let mut gidx = vec![0usize; nbase];
    let mut g = 0;
    for p in 0..nparts {
        for i in 0..nbase { if part_of[i] == p { gidx[i] = g; g += 1; } }
        g += comps.iter().filter(|c| c.0 == p).count();
    }
    let total = g;
    if !user {
        for i in 0..nbase { if rng.chance(1, 8) { base[i][13] = rng.below(total).to_string(); } }
    }
    let mut parts: Vec<Vec<Row>> = vec![vec![]; nparts];
    for p in 0..nparts {
        for i in 0..nbase { if part_of[i] == p { parts[p].push(base[i].clone()); } }
        for (tp, units, style) in &comps {
            if *tp != p { continue; }
            let surface: String = units.iter().map(|&i| base[i][0].clone()).collect();
            let mut r = valid_row(rng, unl, unr);
            r[0] = surface.clone(); r[4] = surface.clone(); r[11] = surface.clone(); r[12] = surface;
            r[14] = (*rng.pick(&["C", "C", "B"])).to_string();
            let ids = join(units.iter().map(|&i| if user { format!("U{}", gidx[i]) } else { gidx[i].to_string() }), "/");
            let inl = join(units.iter().map(|&i| {
                let mut q = base[i].clone();
                if rng.chance(1, 14) { q[11] = "ゼ".into(); }
                inline_of(&q)
            }), "/");
            let mixed = join(units.iter().enumerate().map(|(j, &i)| if j % 2 == 0 { inline_of(&base[i]) } else if user { format!("U{}", gidx[i]) } else { gidx[i].to_string() }), "/");
            match style {
                0 => { r[15] = ids; }
                1 => { r[15] = inl; }
                2 => { r[15] = inl; r[16] = ids.clone(); r[17] = ids; }
                3 => { r[15] = mixed; }
                4 => { r[16] = inl; }
                _ => { r[15] = inl.clone(); r[16] = inl; }
            }
            parts[p].push(r);
        }
    }
    let mut tag = format!("multi{}", nparts);
    if rng.chance(1, 6) {
        let p = rng.below(nparts);
        tag.push(':');
        tag.push_str(malform_rows(rng, &mut parts[p], unl, unr));
    }
    // resolve() after which parts
    let pattern = rng.below(20);
    let after: Vec<bool> = (0..nparts).map(|p| match pattern {
        0..=5 => p + 1 == nparts,
        6..=9 => true,
        10..=11 => false,
        12..=16 => rng.chance(1, 2),
        _ => p + 1 != nparts,
    }).collect();
    let mut ops: Vec<Op> = vec![];
    if rng.chance(1, 10) { ops.push(Op::Resolve); }
    for p in 0..nparts {
        ops.push(Op::Lex(csv_bytes(&parts[p])));
        if after[p] { ops.push(Op::Resolve); }
    }
    if rng.chance(1, 12) { ops.push(Op::Resolve); }
    if user && rng.chance(1, 8) {
        // a matrix read by a user-dictionary builder (larger than the system's, or the same size)
        let k = if rng.chance(1, 2) { SYS_N } else { SYS_N + 2 };
        let at = rng.below(ops.len() + 1);
        ops.insert(at, Op::Conn(matrix_text(k, k, rng).into_bytes()));
        if k > SYS_N && rng.chance(1, 2) {
            // ... and a row that only fits the larger one
            let mut r = valid_row(rng, k, k);
            r[0] = "阪".into(); r[4] = "阪".into(); r[11] = "阪".into(); r[12] = "阪".into();
            r[1] = (k - 1).to_string(); r[2] = (k - 1).to_string();
            ops.push(Op::Lex(csv_bytes(&[r])));
        }
    }
    if !user {
        let m = Op::Conn(matrix_text(nl, nr, rng).into_bytes());
        match rng.below(20) {
            0 | 1 => { let at = 1 + rng.below(ops.len()); ops.insert(at, m); }
            2 => { ops.insert(0, Op::Conn(matrix_text(nl + 1, nr + 1, rng).into_bytes())); let at = 1 + rng.below(ops.len()); ops.insert(at, m); }
            _ => { ops.insert(0, m); }
        }
    }
    Case {
        conn: None, csv: vec![], resolve: false, ops: Some(ops), desc: "verif".into(), user,
        ks: if rng.chance(1, 5) { Some(vec![usize::MAX]) } else { None }, twice: rng.chance(1, 4), tag,
    }
}

/// 1-4 `read_conn` calls on one builder (valid texts, texts that list only some cells or none,
/// malformed texts; the `Err` of a call propagated or ignored), then a lexicon whose ids fit the
/// sizes of one of the texts
fn gen_connseq(rng: &mut Rng) -> Case {
    let user = rng.chance(1, 6);
    let k = rng.range(1, 4);
    let mut ops: Vec<Op> = vec![];
    let mut dims: Vec<(usize, usize)> = vec![];
    let mut tag = format!("connseq{}", k);
    for _ in 0..k {
        let nl = rng.range(1, 5);
        let nr = if rng.chance(5, 6) { nl } else { rng.range(1, 5) };
        dims.push((nl, nr));
        let (mut text, bad): (Vec<u8>, bool) = match rng.below(12) {
            0..=4 => (matrix_text(nl, nr, rng).into_bytes(), false),
            5 => (format!("{} {}\n", nl, nr).into_bytes(), false),
            // a text cut off in the header / one number per line: what a failed call leaves in the line buffer matters
            6 => (format!("{} \n", nl).into_bytes(), true),
            7 => (format!("{}\n0 0 1\n", nr).into_bytes(), true),
            _ => { let (m, t) = malform_matrix(rng, nl, nr); tag.push(':'); tag.push_str(t); (m.into_bytes(), true) }
        };
        if rng.chance(1, 14) { mutate_bytes(rng, &mut text); }
        let ign = if bad { rng.chance(5, 6) } else { rng.chance(1, 5) };
        ops.push(if ign { Op::ConnIgn(text) } else { Op::Conn(text) });
    }
    let (rl, rr) = if user && rng.chance(2, 3) { (SYS_N, SYS_N) } else if rng.chance(2, 3) { *dims.last().unwrap() } else { *rng.pick(&dims[..]) };
    let n = rng.range(1, 4);
    let mut rows: Vec<Row> = (0..n).map(|_| valid_row(rng, rl, rr)).collect();
    if rows.iter().all(|r| r[1].starts_with('-')) { rows[0][1] = "0".into(); rows[0][2] = "0".into(); }
    if rng.chance(1, 3) { rows[0][1] = (rl - 1).to_string(); rows[0][2] = (rr - 1).to_string(); }
    let lex = Op::Lex(csv_bytes(&rows));
    if rng.chance(1, 6) { let at = rng.below(ops.len()); ops.insert(at, lex); } else { ops.push(lex); }
    ops.push(Op::Resolve);
    Case {
        conn: None, csv: vec![], resolve: false, ops: Some(ops), desc: "verif".into(), user,
        ks: if rng.chance(1, 6) { Some(vec![usize::MAX]) } else { None }, twice: rng.chance(1, 5), tag,
    }
}

/// 1-3 lexicon parts on one builder; one of them is malformed at a random row, usually AFTER rows
/// with inline split references, and its `Err` is ignored (`let _ = read_lexicon(..)`): the rows
/// before the malformed one stay in the builder.  `resolve()` before / after the failing part or
/// not at all, sometimes the corrected part is read again, then `compile`.
fn gen_lexign(rng: &mut Rng) -> Case {
    let user = rng.chance(1, 5);
    let nl = rng.range(1, 4);
    let (unl, unr) = if user { (SYS_N, SYS_N) } else { (nl, nl) };
    let nparts = rng.range(1, 3);
    let nbase = rng.range(1, 5);
    let mut base: Vec<Row> = (0..nbase).map(|_| valid_row(rng, unl, unr)).collect();
    if base.iter().all(|r| r[1].starts_with('-')) { base[0][1] = "0".into(); base[0][2] = "0".into(); }
    let mut part_of: Vec<usize> = (0..nbase).map(|_| rng.below(nparts)).collect();
    part_of.sort();
    let mut parts: Vec<Vec<Row>> = vec![vec![]; nparts];
    for i in 0..nbase { parts[part_of[i]].push(base[i].clone()); }
    // compound rows with inline references to base rows of any part
    let compound = |rng: &mut Rng, base: &Vec<Row>| -> Row {
        let k = rng.range(2, 3);
        let units: Vec<usize> = (0..k).map(|_| rng.below(base.len())).collect();
        let surface: String = units.iter().map(|&i| base[i][0].clone()).collect();
        let mut r = valid_row(rng, unl, unr);
        r[0] = surface.clone(); r[4] = surface.clone(); r[11] = surface.clone(); r[12] = surface;
        r[14] = (*rng.pick(&["C", "C", "B"])).to_string();
        let inl = join(units.iter().map(|&i| { let mut q = base[i].clone(); if rng.chance(1, 16) { q[11] = "ゼ".into(); } inline_of(&q) }), "/");
        match rng.below(4) { 0 => { r[16] = inl; } 1 => { r[15] = inl.clone(); r[16] = inl; } _ => { r[15] = inl; } }
        r
    };
    for p in 0..nparts { for _ in 0..rng.below(3) { let r = compound(rng, &base); parts[p].push(r); } }
    // the failing part: a malformed row, with rows that have inline references before it (2/3)
    let f = rng.below(nparts);
    let fails = rng.chance(7, 8);
    let mut tag = format!("lexign{}", nparts);
    let good_f = parts[f].clone();
    let mut csv_tail: Vec<u8> = vec![];
    if fails {
        if rng.chance(2, 3) { let r = compound(rng, &base); let at = rng.below(parts[f].len() + 1); parts[f].insert(at, r); }
        let last_inline = parts[f].iter().rposition(|r| has_inline_unit(&r[15]) || has_inline_unit(&r[16]));
        let at = match last_inline { Some(j) if rng.chance(3, 4) => rng.range(j + 1, parts[f].len()), _ => rng.below(parts[f].len() + 1) };
        let mut bad = if rng.chance(1, 2) { compound(rng, &base) } else { valid_row(rng, unl, unr) };
        let new_inl = |rng: &mut Rng| format!("{},品{},*,*,*,*,*,{}", rng.pick(SURF), rng.below(4), rng.pick(READ));
        let kind = rng.below(14);
        tag.push(':');
        tag.push_str(match kind {
            0 => { let k = rng.below(19); bad.truncate(k); "truncate-row" }
            1 => { let c = *rng.pick(&[1usize, 2, 3]); bad[c] = boundary_int(rng, unl); "number" }
            // empty surface + inline splits: `unresolved` is bumped before the surface is looked at (S7)
            2 => { bad[0] = "".into(); bad[14] = "C".into(); if !has_inline_unit(&bad[15]) { bad[15] = inline_of(&base[0]); } "empty-surface-inline" }
            // A-mode with splits: detected after the POS of the row (a new one) was registered
            3 => { bad[5] = format!("品{}", rng.below(4)); bad[14] = "A".into(); bad[15] = if rng.chance(1, 2) { "0".into() } else { new_inl(rng) }; "a-mode-splits-new-pos" }
            // an inline list whose later unit is malformed: the earlier units have registered their POS
            4 => { bad[14] = "C".into(); let c = *rng.pick(&[15usize, 16]); bad[c] = format!("{}/{}", new_inl(rng), rng.pick(&["\\u{110000},名詞,普通名詞,一般,*,*,*,x", "あ,名詞", "U", "-1", "あ,名詞,普通名詞,一般,*,*,*,\\uD800", "あ,品9,*,*,*,*,*,\\uD800", "あ,品8,*,*,*,*,*,\\u{110000}"])); "inline-list-later-unit" }
            5 => { bad[14] = "C".into(); let c = *rng.pick(&[15usize, 16]); let u = new_inl(rng); bad[c] = (0..128).map(|_| u.clone()).collect::<Vec<_>>().join("/"); "inline-list-128" }
            // field 15 fine (new POS registered), a later field malformed
            6 => { bad[14] = "C".into(); bad[15] = new_inl(rng); let c = *rng.pick(&[16usize, 17, 18]); bad[c] = (*rng.pick(&["x", "1//2", "U", "4294967296"])).to_string(); "later-field-after-inline" }
            7 => { bad[13] = junk_wid(rng, 5); if bad[13] == "*" || bad[13].parse::<u32>().map_or(false, |v| v < 268435456) || bad[13].strip_prefix('U').map_or(false, |d| d.parse::<u32>().map_or(false, |v| v < 268435456)) { bad[13] = "x".into(); } "dic-form" }
            8 => { bad[0] = (*rng.pick(&["\\u0000", "a\\u{0}", "あ\u{0}い"])).to_string(); "nul-surface" }
            9 => { bad[14] = junk_mode(rng); if ["A", "a", "B", "b", "C", "c", "*", "BC", " A ", "\u{3000}B"].contains(&bad[14].as_str()) { bad[14] = "x".into(); } "mode" }
            10 => { let c = *rng.pick(&[0usize, 4, 5, 11, 12]); bad[c] = (*rng.pick(&["\\u{110000}", "\\uD800", "\\u{D800}"])).to_string(); "bad-escape" }
            11 => { csv_tail = vec![0xff, 0xfe, b',', b'1', b'\n']; "csv-invalid-utf8" }
            12 => { bad[0] = "x".repeat(32768); "over-long" }
            _ => { let mut one = vec![bad.clone()]; for _ in 0..3 { let t = malform_rows(rng, &mut one, unl, unr); if one.len() == 1 { bad = one[0].clone(); if t != "skip" && t != "none" { break; } } else { one = vec![bad.clone()]; } } "malform-rows" }
        });
        if csv_tail.is_empty() { let at = at.min(parts[f].len()); parts[f].insert(at, bad); }
    }
    // which resolve() calls: the flag must have been set before the failing read for the stale-flag shape
    let mut ops: Vec<Op> = vec![];
    if rng.chance(1, 8) { ops.push(Op::Resolve); }
    let res_before = rng.chance(2, 3);
    let res_after = rng.chance(1, 2);
    for p in 0..nparts {
        let mut data = csv_bytes(&parts[p]);
        if p == f && !csv_tail.is_empty() {
            // the csv failure after a random number of whole records
            let keep = rng.below(parts[p].len() + 1);
            data = csv_bytes(&parts[p][..keep]);
            data.extend_from_slice(&csv_tail);
            data.extend_from_slice(&csv_bytes(&parts[p][keep..]));
        }
        let ignore = (p == f && fails) || rng.chance(1, 5);
        ops.push(if ignore { Op::LexIgn(data) } else { Op::Lex(data) });
        if p == f && fails && rng.chance(1, 5) {
            // the caller corrects the text and reads it again
            ops.push(if rng.chance(1, 2) { Op::Lex(csv_bytes(&good_f)) } else { Op::LexIgn(csv_bytes(&good_f)) });
            tag.push_str(":retry");
        }
        if p + 1 == f && res_before { ops.push(Op::Resolve); }
        else if p >= f && p + 1 == nparts && res_after { ops.push(Op::Resolve); }
        else if p != f && rng.chance(1, 4) { ops.push(Op::Resolve); }
    }
    if user {
        if rng.chance(1, 10) { let at = rng.below(ops.len() + 1); ops.insert(at, Op::ConnIgn(matrix_text(SYS_N, SYS_N, rng).into_bytes())); }
    } else {
        let m = matrix_text(nl, nl, rng).into_bytes();
        if rng.chance(1, 12) { let at = rng.below(ops.len() + 1); ops.insert(at, Op::ConnIgn(b"2 2\n0 0 x\n".to_vec())); }
        if rng.chance(1, 10) { let at = 1 + rng.below(ops.len()); ops.insert(at, Op::Conn(m)); } else { ops.insert(0, Op::Conn(m)); }
    }
    Case {
        conn: None, csv: vec![], resolve: false, ops: Some(ops), desc: "verif".into(), user,
        ks: if rng.chance(1, 6) { Some(vec![usize::MAX]) } else { None }, twice: rng.chance(1, 5), tag,
    }
}

fn gen_case(rng: &mut Rng, idx: usize) -> Case {
    if let Some(c) = directed(idx) { return c; }
    let kind = rng.below(126);
    if kind >= 116 { return gen_lexign(rng); }
    if kind >= 108 { return gen_connseq(rng); }
    if kind >= 100 { return gen_multipart(rng); }
    let square = rng.chance(11, 12);
    let nl = rng.range(1, 5);
    let nr = if square { nl } else { rng.range(1, 5) };
    let user = kind >= 88 && kind < 96;
    let (unl, unr) = if user { (SYS_N, SYS_N) } else { (nl, nr) };
    let size = rng.range(1, 8);
    let mut rows: Vec<Row> = (0..size).map(|_| valid_row(rng, unl, unr)).collect();
    // make sure at least one row is indexable
    if rows.iter().all(|r| r[1].starts_with('-')) { rows[0][1] = "0".into(); rows[0][2] = "0".into(); }
    add_valid_features(rng, &mut rows, unl, unr, user);
    let mut conn = matrix_text(nl, nr, rng);
    let mut tag = String::new();
    let mut ks = None;
    let mut resolve = true;
    let mut desc = "verif".to_string();
    let mut csv: Option<Vec<u8>> = None;
    let twice = kind >= 78 && kind < 100 && idx % 3 == 0;
    if kind < 45 {
        let k = if rng.chance(1, 5) { 2 } else { 1 };
        for _ in 0..k { tag.push_str(malform_rows(rng, &mut rows, unl, unr)); tag.push('+'); }
    } else if kind < 65 {
        let (m, t) = malform_matrix(rng, nl, nr);
        conn = m;
        tag = format!("matrix:{}", t);
    } else if kind < 72 {
        let mut b = csv_bytes(&rows);
        mutate_bytes(rng, &mut b);
        csv = Some(b);
        tag = "csv-bytes".into();
    } else if kind < 76 {
        let mut b = conn.clone().into_bytes();
        mutate_bytes(rng, &mut b);
        let n = rng.range(0, 40);
        let c = if rng.chance(1, 3) { (0..n).map(|_| rng.below(256) as u8).collect() } else { b };
        return Case { conn: Some(c), csv: csv_bytes(&rows), resolve, ops: None, desc, user: false, ks: None, twice: false, tag: "matrix-bytes".into() };
    } else if kind < 78 {
        let n = rng.range(0, 60);
        csv = Some((0..n).map(|_| if rng.chance(1, 3) { *rng.pick(&[b',', b'"', b'\n', b'0', b'*', b'A']) } else { rng.below(256) as u8 }).collect());
        tag = "csv-random".into();
    } else if kind < 88 {
        // valid dictionaries with sink faults
        tag = "valid+sink".into();
        ks = Some(if rng.chance(1, 2) { vec![] } else { vec![usize::MAX] });
    } else if kind < 96 {
        tag = "user".into();
        if rng.chance(1, 2) { tag.push(':'); tag.push_str(malform_rows(rng, &mut rows, unl, unr)); }
        else if rng.chance(1, 6) { let i = rng.below(rows.len()); rows[i][13] = (*rng.pick(&["U0", "0", "1"])).to_string(); tag.push_str(":dicform"); }
        if rng.chance(1, 5) { ks = Some(vec![usize::MAX]); }
    } else {
        match rng.below(4) {
            0 => { resolve = false; tag = "no-resolve".into(); let s = inline_split(rng, &rows); let i = rng.below(rows.len()); rows[i][14] = "C".into(); rows[i][15] = s; }
            1 => { resolve = false; tag = "no-resolve-plain".into(); }
            2 => { desc = "d".repeat(*rng.pick(&[0usize, 1, 255, 256, 257, 300])); tag = "desc".into(); ks = Some(vec![usize::MAX]); }
            _ => { desc = "説明".repeat(*rng.pick(&[1usize, 42, 43])); tag = "desc-utf8".into(); }
        }
    }
    if ks.is_none() && rng.chance(1, 6) { ks = Some(vec![usize::MAX]); }
    Case {
        conn: if user { None } else { Some(conn.into_bytes()) },
        csv: csv.unwrap_or_else(|| csv_bytes(&rows)),
        resolve, ops: None, desc, user, ks, twice, tag,
    }
}

// ---------------------------------------------------------------------------------------------

/// Which `write_word_info` is linked (variant `storeDf` of C05's writer model, `df=` on the case line): a user row
/// naming an own entry as `U1` - is the index 1 stored (repair of D8's first half) or the raw id?  By behaviour.
pub fn probe_df(system: Option<&JapaneseDictionary>) -> &'static str {
    let Some(sys) = system else { return "cur" };
    let row = |s: &str, df: &str| format!("{s},0,0,0,{s},名詞,普通名詞,一般,*,*,*,{s},{s},{df},A,*,*,*,*\n", s = s, df = df);
    let r = catch(|| -> Option<bool> {
        let mut b = DictBuilder::new_user(sys);
        b.read_lexicon(format!("{}{}", row("い", "U1"), row("う", "*")).as_bytes()).ok()?;
        b.resolve().ok()?;
        let mut out = vec![];
        b.compile(&mut out).ok()?;
        let ld = sudachi::dic::DictionaryLoader::read_user_dictionary(&out).ok()?;
        let wi = ld.lexicon.get_word_info(0, sudachi::dic::subset::InfoSubset::all()).ok()?;
        Some(wi.dictionary_form() == "う")
    });
    match r { Ok(Some(true)) => "fix", _ => "cur" }
}

/// What the REAL loader says about the bytes a successful `compile` emitted (compared with the prediction of the
/// composed model, `Model/BuildLoad.lean loadToken`): outcome of `DictionaryLoader::read_system_dictionary` /
/// `read_user_dictionary`, number of words, POS rows, matrix dimensions, file length, `get_word_param` of every word,
/// outcome class of `get_word_info` (all fields) of every word.
fn load_token(bytes: &[u8], user: bool) -> String {
    use sudachi::dic::DictionaryLoader;
    let r = catch(|| -> Result<String, ()> {
        let ld = if user { DictionaryLoader::read_user_dictionary(bytes) } else { DictionaryLoader::read_system_dictionary(bytes) }.map_err(|_| ())?;
        let (np, dims) = match &ld.grammar {
            Some(g) => (g.pos_list.len().to_string(), format!("{}x{}", g.conn_matrix().num_left(), g.conn_matrix().num_right())),
            None => ("-".to_string(), "-".to_string()),
        };
        let n = ld.lexicon.size();
        let par: Vec<String> = (0..n).map(|i| match catch(|| ld.lexicon.get_word_param(i)) {
            Ok((l, r, c)) => format!("{}.{}.{}", l, r, c),
            Err(_) => "PANIC".to_string(),
        }).collect();
        let wi: String = (0..n).map(|i| match catch(|| ld.lexicon.get_word_info(i, sudachi::dic::subset::InfoSubset::all()).map(|_| ())) {
            Ok(Ok(())) => 'o',
            Ok(Err(_)) => 'e',
            Err(_) => 'P',
        }).collect();
        Ok(format!(" load=ok:w{}:p{}:{}:b{} par={} wi={}", n, np, dims, bytes.len(), if par.is_empty() { "-".to_string() } else { par.join(";") }, if wi.is_empty() { "-".to_string() } else { wi }))
    });
    match r {
        Ok(Ok(s)) => s,
        Ok(Err(())) => " load=err".to_string(),
        Err(_) => " load=PANIC".to_string(),
    }
}

fn show_out(o: &Out, bin: Option<&BinDict>) -> String {
    match o {
        Out::Ok { len, res, .. } => match bin {
            Some(d) => {
                // digest of the matrix content: cells that are not 0, weighted sum of the stored (unsigned) values
                let nz = d.cells.iter().filter(|&&c| c != 0).count();
                let sum = d.cells.iter().enumerate().fold(0u64, |a, (i, &c)| (a + (i as u64 + 1) * (c as u16 as u64)) % 1000003);
                format!("ok len={} res={} words={} pos={} dims={}x{} mx={}:{}", len, res, d.infos.len(), d.pos.len(), d.nl, d.nr, nz, sum)
            }
            None => format!("ok len={} res={} words=? pos=? dims=? mx=?", len, res),
        },
        Out::Err { stage, at, kind, line } => {
            // a failure before `compile` names the position of the failing call
            let pos = if *stage == "compile" { String::new() } else { format!("#{}", at) };
            match line {
                Some(l) if kind != "Io" => format!("err:{}:{}@{}{}", kind, l, stage, pos),
                _ => format!("err:{}@{}{}", kind, stage, pos),
            }
        }
        Out::Panic { stage, at, .. } => if *stage == "compile" { format!("PANIC@{}", stage) } else { format!("PANIC@{}#{}", stage, at) },
    }
}

/// what `compile` answered on the builder an ignored `read_lexicon` left (`with_res`: after `resolve()`)
fn probe_str(o: &Out, with_res: bool, nul: bool) -> String {
    match o {
        Out::Ok { .. } | Out::Panic { stage: "compile", .. } if nul => "NULKEY".into(),
        Out::Ok { bytes, res, .. } => match read_bin(bytes) {
            Ok(d) => format!("ok:{}w{}:p{}", if with_res { format!("r{}:", res) } else { String::new() }, d.infos.len(), d.pos.len()),
            Err(_) => "ok:?".into(),
        },
        Out::Err { stage, kind, line, .. } => match line {
            Some(l) if kind != "Io" => format!("err:{}:{}@{}", kind, l, stage),
            _ => format!("err:{}@{}", kind, stage),
        },
        Out::Panic { .. } => "PANIC".into(),
    }
}

fn short_out(o: &Out) -> String {
    match o {
        Out::Ok { len, .. } => format!("ok:{}", len),
        Out::Err { kind, line, .. } => match line {
            Some(l) if kind != "Io" => format!("err:{}:{}", kind, l),
            _ => format!("err:{}", kind),
        },
        Out::Panic { .. } => "PANIC".into(),
    }
}

fn rle(items: &[String]) -> String {
    let mut out: Vec<String> = vec![];
    let mut i = 0;
    while i < items.len() {
        let mut j = i;
        while j < items.len() && items[j] == items[i] { j += 1; }
        out.push(format!("{}*{}", items[i], j - i));
        i = j;
    }
    out.join(",")
}

struct SysDict {
    bytes: Vec<u8>,
    dic: JapaneseDictionary,
    upos: String,
    usys: String,
}

fn oov_cfg(wd: &Workdir) -> String {
    let oov = r#"{"class":"com.worksap.nlp.sudachi.SimpleOovPlugin","oovPOS":["名詞","普通名詞","一般","*","*","*"],"leftId":0,"rightId":0,"cost":30000,"userPOS":"allow"}"#.to_string();
    config_json(wd, &[], &[oov], &[], &[])
}

pub fn run(run: &mut Run) {
    run.rule = "malformed stream over small generated dictionaries: one or two malformations per case of the lexicon rows (truncation, \
arity, every field with boundary/non-numeric/negative/over-long/escaped/NUL values, ids at n-1/n/n+1, dangling and U references, inline \
splits, 127/128 arrays and homographs), of the matrix text (empty, blank, header and line arity, coordinates at and beyond the size, \
negative, CRLF/tabs/Unicode spaces, invalid UTF-8), byte-level mutations and random bytes through the real csv reader, user dictionaries \
over a fixed system dictionary, pipeline variations (resolve skipped, description length; the lexicon read in 1-3 parts with resolve() \
after none/some/all of them and before the first, compound rows referring to rows of earlier/the same/later parts by inline splits and \
ids, read_conn late or twice, compile called twice; system and user dictionaries; read_lexicon calls that FAIL at a random row - truncated, bad number / escape / mode / id, empty or NUL surface with inline splits, A-mode with splits and a new POS, inline lists whose later unit is malformed or that are too long, csv reader failure - usually after rows with inline references, their Err IGNORED, with resolve() before / after / never and the corrected text sometimes read again); sink failures at every offset (small) or at \
every write boundary +-1 and random offsets; non-trivial = the case reaches a stage after reading (resolve/compile) or fails with a \
build error other than the generic arity error; distinct by case line".into();
    let variant = probe_variant();
    let rf = probe_resolved_flag();
    run.extra.insert("variant_d1_d5".into(), serde_json::json!(variant));
    run.extra.insert("variant_resolved_flag".into(), serde_json::json!(rf));
    let wd = Workdir::new("c06");
    let cfg = oov_cfg(&wd);
    // fixed system dictionary for the user-dictionary cases
    let sys = {
        let mut c = Case { conn: Some(sys_matrix().into_bytes()), csv: sys_csv().into_bytes(), resolve: true, ops: None, desc: "sys".into(), user: false, ks: None, twice: false, tag: "sys".into() };
        c.resolve = true;
        match run_pipeline(&c, None, None).0 {
            Out::Ok { bytes, .. } => match load(&cfg, bytes.clone(), vec![]) {
                Ok(dic) => {
                    let upos = SYS_POS.iter().map(|p| p.iter().map(|s| hexs(s)).collect::<Vec<_>>().join(":")).collect::<Vec<_>>().join(";");
                    let usys = SYS_ROWS.iter().map(|(w, _, _, _, p, rd)| format!("{}:{}:{}", hexs(w), p, if rd == w { "n".to_string() } else { format!("r{}", hex(rd.as_bytes())) })).collect::<Vec<_>>().join(";");
                    Some(SysDict { bytes, dic, upos, usys })
                }
                Err(e) => { run.bump(&format!("sysdict-load-failed:{}", e.chars().take(60).collect::<String>())); None }
            },
            o => { run.bump(&format!("sysdict-build-failed:{}", show_out(&o, None))); None }
        }
    };

    // N1, N3, S4, S5, S6: which repairs the linked builder has (by behaviour)
    let fx = probe_fixes(sys.as_ref().map(|s| &s.dic));
    run.extra.insert("variant_n1_n3_s4_s5_s6_s7_s8".into(), serde_json::json!(fx));
    // S8 repaired: a read_lexicon that fails leaves no row behind
    let atomic = fx.as_bytes().get(6) == Some(&b'1');
    // D8 first half (C05's writer variant): how the linked `write_word_info` stores a `U<n>` dictionary form
    let df = probe_df(sys.as_ref().map(|s| &s.dic));
    run.extra.insert("variant_df".into(), serde_json::json!(df));

    let n = run.opts.count;
    for idx in 0..n {
        if !run.wants(idx) { continue; }
        let mut rng = Rng::for_case(run.opts.seed, idx);
        let mut case = gen_case(&mut rng, idx);
        if case.user && sys.is_none() { case.user = false; }
        let sysd = if case.user { sys.as_ref() } else { None };
        let sysdic = sysd.map(|s| &s.dic);

        // the real implementation, unlimited sink
        let (out, ign_trace) = run_pipeline(&case, sysdic, None);
        let ops = case.ops();
        let per_op: Vec<Option<Recs>> = ops.iter().map(|o| o.lex_text().map(|d| split_csv(d))).collect();
        // the ignored calls that were made: position of the call -> its result
        let ign_at: Vec<(usize, String)> = ops.iter().enumerate().filter(|(_, o)| matches!(o, Op::ConnIgn(_) | Op::LexIgn(_))).map(|(i, _)| i).zip(ign_trace.iter().cloned()).collect();
        // the records every read_lexicon call left in the builder: all of them when it succeeded; when
        // its Err was ignored the records before the malformed one (the error names its line; a csv
        // failure comes after the delivered records) - none at all once read_lexicon is atomic (S8 repaired)
        let kept_per_op: Vec<Recs> = ops.iter().enumerate().map(|(i, o)| {
            let mut k = Recs { recs: vec![], lines: vec![], csverr: None };
            let r = match &per_op[i] { Some(r) => r, None => return k };
            let upto = match o {
                Op::LexIgn(_) => match ign_at.iter().find(|c| c.0 == i) {
                    None => 0,
                    Some((_, res)) if res == "ok" => r.recs.len(),
                    Some(_) if atomic => 0,
                    Some((_, res)) if res.starts_with("err:Csv") => r.recs.len(),
                    Some((_, res)) => {
                        let line: u64 = res.rsplit(':').next().and_then(|x| x.parse().ok()).unwrap_or(0);
                        r.lines.iter().position(|&l| l == line).unwrap_or(r.recs.len())
                    }
                },
                _ => r.recs.len(),
            };
            k.recs = r.recs[..upto].to_vec();
            k.lines = r.lines[..upto].to_vec();
            k.csverr = r.csverr;
            k
        }).collect();
        // the records of all lexicon parts in order (= the entries of the builder when compile is reached)
        let recs = {
            let mut all = Recs { recs: vec![], lines: vec![], csverr: None };
            for r in kept_per_op.iter() {
                all.recs.extend(r.recs.iter().cloned());
                all.lines.extend(r.lines.iter().cloned());
                if all.csverr.is_none() { all.csverr = r.csverr; }
            }
            all
        };
        // the read_conn calls that were made, in order: (position, text, result; "ok" for a `?` call that was passed)
        let executed = match &out { Out::Ok { .. } => ops.len(), Out::Err { at, .. } | Out::Panic { at, .. } => *at };
        let conn_calls: Vec<(usize, &Vec<u8>, String)> = {
            let mut v = vec![];
            for (i, o) in ops.iter().enumerate() {
                if i > executed { break; }
                match o {
                    Op::Conn(m) if i < executed => v.push((i, m, "ok".to_string())),
                    Op::Conn(m) => if let Out::Err { stage, .. } = &out { if *stage == "conn" { v.push((i, m, short_out(&out))); } },
                    Op::ConnIgn(m) => if let Some((_, r)) = ign_at.iter().find(|c| c.0 == i) { v.push((i, m, r.clone())); },
                    _ => {}
                }
            }
            v
        };
        // a matrix text was accepted / the Err of a read_conn was ignored
        let has_conn = conn_calls.iter().any(|c| c.2 == "ok");
        let failed_ign = ops.iter().zip(0..).any(|(o, i)| matches!(o, Op::ConnIgn(_)) && conn_calls.iter().any(|c| c.0 == i && c.2 != "ok"));
        let bin = match &out { Out::Ok { bytes, .. } => read_bin(bytes).ok(), _ => None };
        let trie_len = bin.as_ref().map_or(0, |b| b.trie_len);

        // naive facts about the input used to classify failures
        let indexable: Vec<bool> = recs.recs.iter().map(|r| r.get(1).and_then(|s| s.parse::<i16>().ok()).map_or(false, |v| v >= 0)).collect();
        let any_indexable = indexable.iter().any(|&b| b);
        let nul_indexed = recs.recs.iter().zip(&indexable).any(|(r, &ix)| ix && r.get(0).map_or(false, |s| s.contains('\0') || naive_unescape(s).map_or(false, |u| u.contains('\0'))));
        // the same for the records kept by the calls up to position i (probes of an ignored read_lexicon)
        let nul_upto = |i: usize| kept_per_op[..=i].iter().flat_map(|k| k.recs.iter()).any(|r| {
            r.get(1).and_then(|s| s.parse::<i16>().ok()).map_or(false, |v| v >= 0) && r.get(0).map_or(false, |s| s.contains('\0') || naive_unescape(s).map_or(false, |u| u.contains('\0')))
        });
        // what the builder an ignored read_lexicon left answers to `compile` (A) and to `resolve` + `compile` (B):
        // the calls up to it are replayed on a new builder
        let lex_probes: Vec<(usize, String)> = ign_at.iter().filter(|(i, _)| matches!(ops[*i], Op::LexIgn(_))).map(|(i, _)| {
            let mk = |extra: Option<Op>| { let mut c = case.clone(); let mut o = ops[..=*i].to_vec(); if let Some(e) = extra { o.push(e); } c.ops = Some(o); c.twice = false; c.ks = None; c };
            let a = run_pipeline(&mk(None), sysdic, None).0;
            let b = run_pipeline(&mk(Some(Op::Resolve)), sysdic, None).0;
            (*i, format!("{}/{}", probe_str(&a, false, nul_upto(*i)), probe_str(&b, true, nul_upto(*i))))
        }).collect();

        // sink offsets
        let mut ks: Vec<usize> = vec![];
        let mut ks_token = "-".to_string();
        if let Some(list) = &case.ks {
            let total = match &out { Out::Ok { len, .. } => *len, _ => 1500 };
            if list.is_empty() && total <= 2600 && matches!(out, Out::Ok { .. }) {
                ks = (0..=total + 1).collect();
                ks_token = "all".into();
            } else {
                // write boundaries +-1 of the fixed part, the ends, and random offsets
                let mut v = vec![0usize, 1, 7, 8, 15, 16, 16 + case.desc.len().min(256), 271, 272, 273, 274, total.saturating_sub(1), total, total + 1];
                for _ in 0..12 { v.push(rng.below(total + 2)); }
                v.sort();
                v.dedup();
                ks = v;
                ks_token = join(ks.iter(), ",");
            }
        }
        let sink_outs: Vec<Out> = ks.iter().map(|&k| run_pipeline(&case, sysdic, Some((k, k + idx))).0).collect();

        // ---------------- case line
        let mut nd: Vec<u32> = vec![];
        // over ALL records the csv reader delivered (also the malformed ones and those behind them)
        for r in per_op.iter().flatten().flat_map(|p| p.recs.iter()) { for f in r.iter().skip(15).take(2) { for ch in f.chars() { if !ch.is_ascii_digit() && is_nd(ch) { nd.push(ch as u32); } } } }
        nd.sort();
        nd.dedup();
        let ops_tok = ops.iter().zip(&per_op).map(|(o, r)| match (o, r) {
            (Op::Conn(m), _) => format!("C{}", hex(m)),
            (Op::ConnIgn(m), _) => format!("I{}", hex(m)),
            (Op::Resolve, _) => "R".to_string(),
            (Op::Lex(_), Some(r)) | (Op::LexIgn(_), Some(r)) => format!("{}{}!{}!{}", if matches!(o, Op::Lex(_)) { 'L' } else { 'J' }, r.csverr.map_or("-".to_string(), |l| l.to_string()), join(r.lines.iter(), ","),
                r.recs.iter().map(|x| x.iter().map(|f| hexs(f)).collect::<Vec<_>>().join(":")).collect::<Vec<_>>().join(";")),
            (Op::Lex(_), None) => "L-!!".to_string(),
            (Op::LexIgn(_), None) => "J-!!".to_string(),
        }).collect::<Vec<_>>().join("|");
        let (user_tok, upos, usys) = match sysd {
            Some(s) => (format!("{},{},{}", SYS_ROWS.len(), SYS_N, SYS_N), s.upos.clone(), s.usys.clone()),
            None => ("-".to_string(), String::new(), String::new()),
        };
        let payload = format!(
            "v={} rf={} fx={} df={} nd={} user={} upos={} usys={} ops={} desc={} trie={} ks={}",
            variant, rf, fx, df, join(nd.iter(), ","), user_tok, upos, usys, ops_tok, case.desc.len(), trie_len, ks_token
        );

        // canonical answer: a key with a NUL byte handed to the trie builder is outside the
        // builder's contract (it panics or silently builds a corrupt trie): both count as NULKEY
        let reached_index_with_nul = nul_indexed && match &out { Out::Ok { .. } => true, Out::Panic { stage, .. } => *stage == "compile", _ => false };
        let mut answer = if reached_index_with_nul { "NULKEY".to_string() } else { show_out(&out, bin.as_ref()) };
        // the real loader on the emitted bytes, next to what the composed model (C06 builder -> C05 writer -> C05 loader) predicts
        if !reached_index_with_nul { if let Out::Ok { bytes, .. } = &out { answer.push_str(&load_token(bytes, case.user)); run.bump("load-compared"); } }
        if ops.iter().any(|o| matches!(o, Op::ConnIgn(_) | Op::LexIgn(_))) {
            let items: Vec<String> = ign_at.iter().map(|(i, r)| match lex_probes.iter().find(|p| p.0 == *i) { Some((_, p)) => format!("{}/{}", r, p), None => r.clone() }).collect();
            answer.push_str(&format!(" ign={}", items.join(",")));
        }
        if !ks.is_empty() {
            let items: Vec<String> = sink_outs.iter().map(|o| if nul_indexed && matches!(o, Out::Ok { .. } | Out::Panic { .. }) { "NULKEY".to_string() } else { short_out(o) }).collect();
            answer.push_str(&format!(" sink={}", rle(&items)));
        }
        let nontrivial = match &out {
            Out::Ok { .. } => true,
            Out::Panic { .. } => true,
            Out::Err { stage, kind, .. } => *stage == "resolve" || *stage == "compile" || kind != "NoRawField",
        };
        run.case(idx, "build", &payload, &answer, nontrivial);

        // ---------------- distribution
        run.bump(&format!("tag:{}", case.tag.split(|c| c == '+' || c == ':').next().unwrap_or("")));
        match &out {
            Out::Ok { .. } => run.bump("outcome:ok"),
            Out::Err { stage, kind, .. } => { run.bump("outcome:err"); run.bump(&format!("err@{}:{}", stage, kind)); }
            Out::Panic { stage, .. } => { run.bump("outcome:panic"); run.bump(&format!("panic@{}", stage)); }
        }
        if case.user { run.bump("user-dictionary"); }
        if recs.csverr.is_some() { run.bump("csv-reader-error"); }
        if case.ops.is_some() {
            run.bump(&format!("calls:{}", ops.iter().map(|o| match o { Op::Conn(_) => 'C', Op::ConnIgn(_) => 'I', Op::Lex(_) => 'L', Op::LexIgn(_) => 'J', Op::Resolve => 'R' }).collect::<String>()));
            if failed_ign { run.bump("ignored-read-conn-error"); }
            for (i, r) in &ign_at {
                if !matches!(ops[*i], Op::LexIgn(_)) || r == "ok" { continue; }
                run.bump("ignored-read-lexicon-error");
                run.bump(&format!("ignored-read-lexicon:{}", r.split(':').nth(1).unwrap_or("?")));
                let kept = &kept_per_op[*i];
                if !kept.recs.is_empty() { run.bump("ignored-read-lexicon-error:rows-kept"); }
                if kept.recs.iter().any(|x| x.iter().skip(15).take(2).any(|f| has_inline_unit(f))) { run.bump("ignored-read-lexicon-error:inline-rows-kept"); }
            }
            if conn_calls.iter().filter(|c| c.2 == "ok").count() > 1 { run.bump("matrix-read-more-than-once"); }
        }
        if case.twice && matches!(out, Out::Ok { .. }) { run.bump("compiled-twice"); }
        run.bump_by("sink-faults", ks.len() as u64);
        if ks_token == "all" { run.bump("sink-exhaustive"); }

        // ---------------- oracle 1: totality
        // the builder's `resolved` flag is stale at `compile`: some resolve() was called, and a
        // read_lexicon after the last one brought a row with an inline split (judged from the input)
        let stale_flag = match ops.iter().rposition(|o| matches!(o, Op::Resolve)) {
            Some(r) => kept_per_op[r + 1..].iter().any(|p| p.recs.iter().any(|x| x.iter().skip(15).take(2).any(|f| has_inline_unit(f)))),
            None => false,
        };
        if stale_flag { run.bump("stale-flag-shape"); }
        if let Out::Panic { stage, at, msg } = &out {
            let class = match *stage {
                "conn" => {
                    let m = match ops.get(*at).and_then(|o| o.conn_text()) { Some(m) => m.clone(), None => vec![] };
                    if blank_text(&m) { "empty-text" } else if conn_has_bad_coord(&m) { "coord-out-of-range" } else { "other" }
                }
                "compile" => {
                    if stale_flag { "stale-resolved-flag" } else if !any_indexable { "no-indexable-row" } else if nul_indexed { "nul-in-surface" } else { "other" }
                }
                _ => "other",
            };
            run.fail(idx, &format!("panic:{}:{}", stage, class), &format!("compilation panicked in stage {} ({}): {}", stage, case.tag, msg.chars().take(160).collect::<String>()));
        }

        // ---------------- oracle 1b: `compile` does not consume the builder: a second call writes the same bytes
        if let Out::Ok { again: Some(what), .. } = &out {
            run.fail(idx, "valid:compile-not-repeatable", what);
        }

        // ---------------- oracle 1c: read_conn is a function of its text (independent of the model: a NEW
        // builder is asked the same text).  A call made after a call whose Err was ignored must answer
        // what a new builder answers (S5: the line buffer keeps the line the failed call stopped on)
        {
            let mut failed_before = false;
            for (i, m, r) in &conn_calls {
                if case.user { break; }
                let fresh = fresh_read_conn(m);
                if *r != fresh {
                    let key = if failed_before { "valid:conn-retry:stale-line" } else { "valid:conn-retry" };
                    run.fail(idx, key, &format!("call {}: read_conn({:?}) answers {} but a new builder answers {}{}", i, String::from_utf8_lossy(m).chars().take(60).collect::<String>(), r, fresh,
                        if failed_before { " (an earlier read_conn on this builder failed and its Err was ignored)" } else { "" }));
                    break;
                }
                if r != "ok" { failed_before = true; }
            }
        }
        // ---------------- oracle 1d: the matrix that is written is the matrix of the text read last
        // (sizes and every cell; a cell the text does not list is 0) - S4: Vec::resize keeps old cells
        if let (Out::Ok { .. }, Some(d)) = (&out, bin.as_ref()) {
            if let Some((i, m, _)) = conn_calls.iter().rev().find(|c| c.2 == "ok") {
                let earlier = conn_calls.iter().any(|c| c.0 < *i);
                let earlier_failed = conn_calls.iter().any(|c| c.0 < *i && c.2 != "ok");
                // a later call that failed after its header has resized the buffer (S6 family; judged by the id oracle)
                let later_failed = conn_calls.iter().any(|c| c.0 > *i);
                if let (Some((nl, nr, cells)), false) = (naive_matrix(m), later_failed) {
                    if (d.nl as i64, d.nr as i64) != (nl, nr) {
                        let key = if earlier_failed { "valid:conn-dims:stale-line" } else { "valid:conn-dims" };
                        run.fail(idx, key, &format!("the text read last declares a {}x{} matrix, the dictionary has {}x{}", nl, nr, d.nl, d.nr));
                    } else if d.cells != cells {
                        let at = d.cells.iter().zip(&cells).position(|(a, b)| a != b).unwrap_or(0);
                        let key = if earlier { "valid:conn-cells:stale" } else { "valid:conn-cells" };
                        run.fail(idx, key, &format!("cell {} of the {}x{} matrix is {} in the dictionary, the text read last (call {}) says {}{}", at, nl, nr, d.cells[at], i, cells[at],
                            if earlier { " (an earlier read_conn wrote that cell: resize keeps it)" } else { "" }));
                    }
                }
            }
        }

        // ---------------- oracle 2: a sink failure is never success, never a panic
        if let Out::Ok { len, .. } = &out {
            for (k, o) in ks.iter().zip(&sink_outs) {
                match o {
                    Out::Ok { .. } if k < len => {
                        run.fail(idx, "sink:reported-success", &format!("sink failing after {} of {} bytes: compile returned Ok", k, len));
                        break;
                    }
                    Out::Err { kind, .. } if k < len && kind != "Io" => {
                        run.fail(idx, "sink:wrong-error", &format!("sink failing after {} of {} bytes: error {} instead of an I/O error", k, len, kind));
                        break;
                    }
                    Out::Err { kind, .. } if k >= len => {
                        run.fail(idx, "sink:spurious-error", &format!("sink accepting {} >= {} bytes: error {}", k, len, kind));
                        break;
                    }
                    Out::Panic { msg, .. } if !nul_indexed => {
                        run.fail(idx, "sink:panic", &format!("sink failing after {} bytes: panic {}", k, msg.chars().take(100).collect::<String>()));
                        break;
                    }
                    _ => {}
                }
            }
        } else if let Out::Err { .. } = &out {
            for (k, o) in ks.iter().zip(&sink_outs) {
                if let Out::Ok { .. } = o {
                    run.fail(idx, "sink:success-where-unlimited-fails", &format!("sink limit {}: Ok although the unlimited run fails", k));
                    break;
                }
            }
        }

        // ---------------- oracle 3: success => valid dictionary, loads, analyses
        if let Out::Ok { bytes, .. } = &out {
            validity(run, idx, &case, has_conn, failed_ign, bytes, bin.as_ref(), &recs, sysd, &cfg, &mut rng, nul_indexed);
        }
    }
}

fn validity(run: &mut Run, idx: usize, case: &Case, has_conn: bool, failed_ign: bool, bytes: &[u8], bin: Option<&BinDict>, recs: &Recs, sysd: Option<&SysDict>, cfg: &str, rng: &mut Rng, nul_indexed: bool) {
    let d = match bin {
        Some(d) => d,
        None => {
            let e = read_bin(bytes).err().unwrap_or_default();
            run.fail(idx, "valid:format", &format!("the produced bytes do not parse as a dictionary: {}", e));
            return;
        }
    };
    let user = sysd.is_some();
    let n = d.infos.len();
    // (0) what is in the dictionary: one entry per record the read_lexicon calls kept - all records of a call
    // that succeeded, the records before the malformed one of a call whose Err was ignored
    if n != recs.recs.len() {
        run.fail(idx, "valid:entry-count", &format!("the dictionary has {} entries, the read_lexicon calls kept {} records ({})", n, recs.recs.len(), case.tag));
    }
    let n_sys = if user { SYS_ROWS.len() } else { n };
    let (nl, nr) = if user { (SYS_N as i64, SYS_N as i64) } else { (d.nl as i64, d.nr as i64) };
    let n_pos = if user { SYS_POS.len() + d.pos.len() } else { d.pos.len() };
    let mut d3 = false;
    let no_matrix = !user && !has_conn;
    let mut no_matrix_bad = false;
    // a user-dictionary builder on which read_conn was called
    let user_conn = user && (has_conn || failed_ign);
    let mut user_conn_bad = false;
    // a read_conn failed after it had resized the matrix and the caller went on (system builder)
    let mut failed_conn_bad = false;
    let mut nonsquare_bad = false;
    let mut dicform_user = false;
    // (1) connection ids of indexed entries
    for (i, (l, r, _)) in d.params.iter().enumerate() {
        if *l < 0 { continue; }
        let (l, r) = (*l as i64, *r as i64);
        if r < 0 {
            d3 = true;
            run.fail(idx, "valid:right-id-negative", &format!("entry {} is indexed (left id {}) with right id {}: read back as {} at analysis", i, l, r, r as i16 as u16));
        } else if (l >= nl || r >= nr) && no_matrix {
            no_matrix_bad = true;
            run.fail(idx, "valid:conn-id-range:no-matrix-read", &format!("entry {}: ids ({}, {}) but no matrix was read: a 0x0 matrix is written and the ids are validated against i16::MAX", i, l, r));
        } else if (l >= nl || r >= nr) && user_conn {
            user_conn_bad = true;
            run.fail(idx, "valid:conn-id-range:user-matrix-read", &format!("user-dictionary entry {}: ids ({}, {}) are outside the {}x{} matrix of the system dictionary: read_conn on the user builder replaced the sizes the ids are validated against by {}x{}", i, l, r, nl, nr, d.nl, d.nr));
        } else if (l >= nl || r >= nr) && failed_ign {
            failed_conn_bad = true;
            run.fail(idx, "valid:conn-id-range:failed-matrix-read", &format!("entry {}: ids ({}, {}) are outside the {}x{} matrix that is written: a read_conn failed after it had resized the matrix, its Err was ignored, and the ids are still validated against the sizes of the matrix read before", i, l, r, nl, nr));
        } else if l >= nl || r >= nr {
            run.fail(idx, "valid:conn-id-range", &format!("entry {}: ids ({}, {}) outside the {}x{} matrix", i, l, r, nl, nr));
        } else if r >= nl || l >= nr {
            // inside the matrix as validated, outside as used: cost(left.right_id < num_left, right.left_id < num_right)
            nonsquare_bad = true;
            run.fail(idx, "valid:nonsquare-ids", &format!("entry {}: ids ({}, {}) pass validation against {}x{} but the analyser bounds right ids by num_left and left ids by num_right", i, l, r, nl, nr));
        }
    }
    // (2) references
    let check_ref = |w: u32, what: &str, i: usize| -> Option<String> {
        let (dic, word) = (w >> 28, (w & 0x0fff_ffff) as usize);
        let ok = match dic { 0 => word < n_sys, 1 => user && word < n, _ => false };
        if ok { None } else { Some(format!("entry {}: {} reference ({}, {}) does not exist ({} system / {} own entries)", i, what, dic, word, n_sys, n)) }
    };
    let mut illformed_split = false;
    let surfaces: Vec<Option<String>> = recs.recs.iter().map(|r| r.get(0).and_then(|s| naive_unescape(s))).collect();
    for (i, x) in d.infos.iter().enumerate() {
        if x.dic_form != 0xffff_ffff {
            if user {
                dicform_user = true;
                run.fail(idx, "valid:userdict-dicform", &format!("user-dictionary entry {} declares dictionary form {:#x}: the reader uses it as an index into the user lexicon itself ({} entries)", i, x.dic_form, n));
            } else if let Some(m) = check_ref(x.dic_form, "dictionary-form", i) {
                run.fail(idx, "valid:ref:dic-form", &m);
            }
        }
        for (what, list) in [("split-a", &x.a), ("split-b", &x.b), ("word-structure", &x.ws)] {
            for w in list.iter() {
                if let Some(m) = check_ref(*w, what, i) { run.fail(idx, &format!("valid:ref:{}", what), &m); }
            }
        }
        if x.pos as usize >= n_pos { run.fail(idx, "valid:pos-id", &format!("entry {}: POS id {} of {}", i, x.pos, n_pos)); }
        if x.head_units > 32767 || x.norm_units > 32767 || x.reading_units > 32767 || x.head_len > 32767 {
            run.fail(idx, "valid:string-limit", &format!("entry {}: string longer than 32767", i));
        }
        if x.a.len() > 127 || x.b.len() > 127 || x.ws.len() > 127 || x.syn.len() > 127 {
            run.fail(idx, "valid:array-limit", &format!("entry {}: array longer than 127", i));
        }
        // split declarations whose units do not tile the word (D6: accepted by the compiler)
        for list in [&x.a, &x.b] {
            if list.is_empty() { continue; }
            let mut cat = String::new();
            let mut total = 0usize;
            let mut known = true;
            for w in list.iter() {
                let (dic, word) = (w >> 28, (w & 0x0fff_ffff) as usize);
                let own = (dic == 1 && user) || (dic == 0 && !user);
                if own {
                    match (d.infos.get(word), surfaces.get(word).and_then(|s| s.as_ref())) {
                        (Some(y), Some(sf)) => { total += y.head_len; cat.push_str(sf); }
                        _ => { known = false; }
                    }
                } else if dic == 0 && user {
                    match SYS_ROWS.get(word) { Some(y) => { total += y.0.len(); cat.push_str(y.0); } None => { known = false; } }
                } else { known = false; }
            }
            let own_surface = surfaces.get(i).and_then(|s| s.clone());
            if !known || total != x.head_len || own_surface.map_or(true, |sf| sf != cat) { illformed_split = true; }
        }
    }
    // word-id table groups
    {
        let mut p = 0;
        while p < d.table.len() {
            let k = d.table[p] as usize;
            if k > 127 { run.fail(idx, "valid:array-limit", "word-id table group longer than 127"); }
            p += 1 + 4 * k;
        }
    }
    if nl == 0 || nr == 0 {
        run.bump("analysis-skipped:empty-matrix");
        return;
    }
    // (3) load
    let loaded = match sysd {
        Some(s) => load(cfg, s.bytes.clone(), vec![bytes.to_vec()]),
        None => load(cfg, bytes.to_vec(), vec![]),
    };
    let dic = match loaded {
        Ok(d) => d,
        Err(e) => {
            run.fail(idx, if e.starts_with("PANIC") { "load:panic" } else { "load:error" }, &format!("the compiled dictionary does not load: {}", e.chars().take(200).collect::<String>()));
            return;
        }
    };
    run.bump("loaded");
    // (4) every indexed entry is found under its surface
    let lex_id = if user { 1u8 } else { 0 };
    for (i, r) in recs.recs.iter().enumerate() {
        if i >= n { break; }
        if d.params[i].0 < 0 { continue; }
        let surface = match r.get(0).and_then(|s| naive_unescape(s)) { Some(s) => s, None => continue };
        let want = WordId::new(lex_id, i as u32);
        let got = catch(|| dic.lexicon().lookup(surface.as_bytes(), 0).any(|e| e.word_id == want && e.end == surface.len()));
        match got {
            Ok(true) => {}
            Ok(false) => {
                let key = if nul_indexed { "invalid:trie:nul-in-surface" } else { "valid:trie-lookup" };
                run.fail(idx, key, &format!("entry {} is indexed but a lookup of its surface {:?} does not return it", i, surface));
                break;
            }
            Err(p) => {
                let key = if nul_indexed { "invalid:trie:nul-in-surface" } else { "valid:trie-lookup-panic" };
                run.fail(idx, key, &format!("lookup of the surface of entry {} panicked: {}", i, p.chars().take(100).collect::<String>()));
                break;
            }
        }
    }
    // (5) analysis in modes A, B, C
    let mut words: Vec<String> = d.infos.iter().map(|x| x.headword.clone()).collect();
    for r in recs.recs.iter().take(n) { if let Some(s) = r.get(0).and_then(|s| naive_unescape(s)) { words.push(s); } }
    if user { for w in SYS_ROWS { words.push(w.0.to_string()); } }
    words.sort();
    words.dedup();
    words.truncate(24);
    if words.is_empty() { words.push("あ".to_string()); }
    let mut texts: Vec<String> = words.clone();
    for _ in 0..8 {
        let k = rng.range(2, 4);
        let mut t = String::new();
        for _ in 0..k {
            if rng.chance(1, 5) { let c = *rng.pick(TEXT_CHARS); if (c as u32) >= 0x20 { t.push(c); } } else { t.push_str(rng.pick(&words[..]).as_str()); }
        }
        texts.push(t);
    }
    texts.push(String::new());
    let mut analysed = 0u64;
    'outer: for t in &texts {
        // U+0000 and over-long texts are the tokenizer's business (C03/C04), not the dictionary's
        if t.len() > 5000 || t.chars().any(|c| (c as u32) < 0x20) { continue; }
        for m in [Mode::A, Mode::B, Mode::C] {
            analysed += 1;
            let r = tokenize(&dic, t, m);
            let class = if no_matrix_bad { "no-matrix-read" } else if user_conn_bad { "user-matrix-read" } else if failed_conn_bad { "failed-matrix-read" } else if nonsquare_bad { "nonsquare-matrix" } else if d3 { "right-id-negative" } else if dicform_user { "userdict-dicform" }
                else if illformed_split { "ill-formed-split" } else if nul_indexed { "nul-in-surface" } else { "other" };
            let (key, what) = match r {
                Ok(Ok(toks)) => {
                    let cat: String = toks.iter().map(|x| x.surface.clone()).collect();
                    if cat != *t && !illformed_split { ("analysis:surfaces".to_string(), format!("surfaces {:?} do not concatenate to the text {:?}", cat, t)) } else { continue; }
                }
                Ok(Err(e)) => (format!("analysis:error:{}", class), format!("analysis of {:?} in mode {:?} failed: {} [{}]", t, m, e.chars().take(120).collect::<String>(), case.tag)),
                Err(p) => (format!("analysis:panic:{}", class), format!("analysis of {:?} in mode {:?} panicked: {} [{}]", t, m, p.chars().take(120).collect::<String>(), case.tag)),
            };
            run.fail(idx, &key, &what);
            break 'outer;
        }
    }
    run.bump_by("texts-analysed", analysed);
}
